(** C18 (PARTIAL) — Steady-state reading allocates nothing and keeps the buffer size.

    Real heap behaviour is measured by a counting allocator in the test
    harness; the theorems below are about the allocation sites of the model
    (Model/Alloc.v lists them against src/fasta.rs and src/fastq.rs).  Every
    [Vec] the readers and record sets own carries a ghost high-water mark (the
    largest length it ever had); capacity >= high-water mark holds for a vector
    that is only cleared and refilled, so "no mark rises" implies "no
    allocation" whatever [Vec]'s growth factor is.  The functions
    [fa_next_allocs], [fa_set_allocs], [fq_next_allocs], [fq_set_allocs]
    answer "this call may have allocated" = some mark rose, or the capacity
    changed, or the policy was consulted (or the call failed, for sets).

    - [C18_*_steady]: one call, in ANY state of the model (any source, faulty
      or not, any policy): without a logged policy consultation the capacity and
      the policy history are unchanged, and no mark rises when what the call
      stored stays within the marks.
    - [C18_*_steady_run], [C18_fa_warmup]: end to end over runs of [next] on
      fault-free sources: records that are no larger than the warm-up prefix
      (line ends) and fit the capacity (needed window, DESIGN §7) are read without
      raising a mark or asking the policy.
    - [C18_*_borrow]: records are views: buffer of the reader / of the set plus
      the stored offsets; nothing is copied.
    - [C18_fa_policy_only_when_full]: FASTA analogue of C09q (FASTQ), kept here so
      that C18 is self-contained (Proofs/GrowSitesP.v proves the same for C09
      with its own instrumentation [fa_resume_g]; here it is [fa_resume_ga]).
    Owned accessors ([to_owned_record], [owned_seq], [full_seq] on several
    lines) allocate by design and are not part of the claim.
    Statements only; proofs are in Proofs/Alloc*.v. *)
From SeqIO Require Import Model.Base Model.Fasta Model.Fastq Model.Alloc
     Proofs.Window Proofs.FastaScanP Proofs.FastaInv Proofs.FastaStream Proofs.FastaTopP
     Proofs.FastqInv
     Proofs.AllocP Proofs.AllocSetP Proofs.AllocFitP Proofs.AllocFqFitP Proofs.AllocEx.

(* ================================================================== *)
(** * One call of [next], any state *)

(** FASTA.  [m]: marks before the call.  Without a logged policy consultation,
    and with no more line ends in the reader after the call (= in the returned
    record, see [C18_fa_next_borrows]) than the mark: no mark rises, the call
    is predicted allocation-free, capacity and policy history are unchanged and
    the marks cover the new state. *)
Theorem C18_fa_next_steady : forall fuel ffuel m r r' o,
  fa_next fuel ffuel r = (r', o) -> hw_cap m = cap r ->
  consulted (log r) (log r') = false ->
  length (seqpos r') <= hw_seqpos m ->
  fa_next_marks m r' = m /\ fa_next_allocs m r r' = false /\
  cap r' = cap r /\ polh r' = polh r /\ fa_marks_cover m r'.
Proof. exact fa_next_steady. Qed.
Print Assumptions C18_fa_next_steady.

(** non-vacuity: the second call on three 15-byte records with capacity 16 *)
Example C18_fa_next_steady_nonvacuous :
  let r := fa_iter 100 100 1 c18_r0 in
  let m := fa_marks_iter 100 100 1 (fa_marks_new 16) c18_r0 in
  let r' := fst (fa_next 100 100 r) in
  let o := snd (fa_next 100 100 r) in
  fa_next 100 100 r = (r', o) /\ o = ORec (fa_cur r') /\ hw_cap m = cap r /\
  consulted (log r) (log r') = false /\ length (seqpos r') <= hw_seqpos m /\
  m = mkFaMarks 4 16.
Proof. c18_solve. Qed.

(** between the clear in [increment_record] and the end of the call the
    reader's line-end vector only gets longer: its length after the call is
    its largest length during the call *)
Theorem C18_fa_seqpos_grows_monotonically : forall fuel ffuel r r' o,
  fa_next_tail fuel ffuel r = (r', o) -> length (seqpos r) <= length (seqpos r').
Proof. exact fa_next_tail_seqpos_mono. Qed.
Print Assumptions C18_fa_seqpos_grows_monotonically.

Example C18_fa_seqpos_grows_monotonically_nonvacuous :
  let r := set_st (fst (fa_init 100 100 c18_r0)) FParsing in
  let x := fa_next_tail 100 100 r in
  x = (fst x, snd x) /\ length (seqpos r) = 0 /\ length (seqpos (fst x)) = 4.
Proof. c18_solve. Qed.

(** the converse reading of the prediction: whatever a call allocates shows in the marks *)
Theorem C18_fa_next_allocs_false : forall m r r', fa_next_allocs m r r' = false ->
  fa_next_marks m r' = m /\ consulted (log r) (log r') = false.
Proof. exact fa_next_allocs_false. Qed.
Print Assumptions C18_fa_next_allocs_false.

Example C18_fa_next_allocs_false_nonvacuous :
  let r := fa_iter 100 100 1 c18_r0 in
  fa_next_allocs (mkFaMarks 4 16) r (fst (fa_next 100 100 r)) = false.
Proof. vm_compute. reflexivity. Qed.

(** FASTQ: [BufferPosition] is five integers, the reader owns no vector but
    the buffer; without a logged policy consultation the capacity stays. *)
Theorem C18_fq_next_steady : forall fuel ffuel m r r' o,
  fq_next fuel ffuel r = (r', o) -> qhw_cap m = qcap r ->
  consulted (qlog r) (qlog r') = false ->
  fq_next_marks m r' = m /\ fq_next_allocs m r r' = false /\
  qcap r' = qcap r /\ qpolh r' = qpolh r /\ fq_marks_cover m r'.
Proof. exact fq_next_steady. Qed.
Print Assumptions C18_fq_next_steady.

Example C18_fq_next_steady_nonvacuous :
  let r := fq_iter 100 100 1 c18_q0 in
  let r' := fst (fq_next 100 100 r) in
  let o := snd (fq_next 100 100 r) in
  fq_next 100 100 r = (r', o) /\ o = QORec (fq_cur r') /\ qhw_cap (mkFqMarks 16) = qcap r /\
  consulted (qlog r) (qlog r') = false.
Proof. c18_solve. Qed.

(* ================================================================== *)
(** * Records are views *)

Theorem C18_fa_next_borrows : forall fuel ffuel r r' rc,
  fa_next fuel ffuel r = (r', ORec rc) -> rc = mkFaRec (buf r') (start r') (seqpos r').
Proof. exact fa_next_borrows. Qed.
Print Assumptions C18_fa_next_borrows.

Example C18_fa_next_borrows_nonvacuous :
  let x := fa_next 100 100 c18_r0 in
  x = (fst x, snd x) /\ snd x = ORec (mkFaRec (firstn 16 c18_inp3) 0 [3; 8; 11; 14]).
Proof. c18_solve. Qed.

Theorem C18_fq_next_borrows : forall fuel ffuel r r' rc,
  fq_next fuel ffuel r = (r', QORec rc) ->
  rc = mkFqRec (qbuf r') (p0 r') (p1 r') (pseq r') (psep r') (pqual r').
Proof. exact fq_next_borrows. Qed.
Print Assumptions C18_fq_next_borrows.

Example C18_fq_next_borrows_nonvacuous :
  let x := fq_next 100 100 c18_q0 in
  x = (fst x, snd x) /\ snd x = QORec (mkFqRec (firstn 16 c18_qinp3) 0 14 3 8 10).
Proof. c18_solve. Qed.

(** records of a set: the set's own buffer with the stored offsets *)
Theorem C18_fa_set_records_borrow : forall rs,
  Forall (fun rc => rbuf rc = sbuf rs) (fa_set_records rs) /\
  map (fun rc => (rstart rc, rseqpos rc)) (fa_set_records rs) = firstn (snpos rs) (spositions rs).
Proof. exact fa_set_records_borrow. Qed.
Print Assumptions C18_fa_set_records_borrow.

Theorem C18_fq_set_records_borrow : forall rs,
  Forall (fun rc => qrbuf rc = qsbuf rs) (fq_set_records rs) /\
  map (fun rc => (r0 rc, r1 rc, rseq rc, rsep rc, rqual rc)) (fq_set_records rs) = qspos rs.
Proof. exact fq_set_records_borrow. Qed.
Print Assumptions C18_fq_set_records_borrow.

(* ================================================================== *)
(** * One call of [read_record_set(_exact)] on a reused set, any state *)

(** FASTA.  [m], [ms]: marks of the reader and of the set before the call.  If
    the call succeeds without a logged policy consultation, the batch has at
    most as many records as the set has slots, each record's line-end vector
    fits the mark of its slot and the reader's own mark, and the reader's
    buffer fits the mark of [rset.buffer]: no mark rises.  The set's buffer is
    the reader's buffer (the one copy the design makes). *)
Theorem C18_fa_set_steady : forall fuel ffuel cnt m ms r rs r' rs',
  fa_read_set fuel ffuel cnt r rs = (r', rs', OSetOk) ->
  hw_cap m = cap r -> fa_set_cover ms rs ->
  consulted (log r) (log r') = false ->
  length (seqpos r') <= hw_seqpos m ->
  Forall (fun l => l <= hw_seqpos m) (firstn (snpos rs') (slot_lens rs')) ->
  length (buf r') <= hw_buffer ms ->
  snpos rs' <= length (hw_slots ms) ->
  Forall2 (fun mk l => l <= mk) (firstn (snpos rs') (hw_slots ms)) (firstn (snpos rs') (slot_lens rs')) ->
  fa_set_reader_marks m r' rs' = m /\ fa_set_marks_after ms rs' = ms /\
  fa_set_allocs m ms r r' rs' OSetOk = false /\
  cap r' = cap r /\ polh r' = polh r /\
  fa_marks_cover m r' /\ fa_set_cover ms rs' /\ sbuf rs' = buf r'.
Proof. exact fa_set_steady. Qed.
Print Assumptions C18_fa_set_steady.

(** non-vacuity: six 15-byte records, capacity 40: the second call of
    [read_record_set] on the reused set (two records per batch) *)
Example C18_fa_set_steady_nonvacuous :
  let c1 := fa_read_set 100 100 None c18_s0 fa_set_empty in
  let r := fst (fst c1) in let rs := snd (fst c1) in
  let m := fa_set_reader_marks (fa_marks_new 40) r rs in
  let ms := fa_set_marks_after fa_set_marks_new rs in
  let c2 := fa_read_set 100 100 None r rs in
  let r' := fst (fst c2) in let rs' := snd (fst c2) in
  c2 = (r', rs', snd c2) /\ snd c2 = OSetOk /\
  hw_cap m = cap r /\ fa_set_cover ms rs /\ consulted (log r) (log r') = false /\
  length (seqpos r') <= hw_seqpos m /\
  Forall (fun l => l <= hw_seqpos m) (firstn (snpos rs') (slot_lens rs')) /\
  length (buf r') <= hw_buffer ms /\ snpos rs' <= length (hw_slots ms) /\
  Forall2 (fun mk l => l <= mk) (firstn (snpos rs') (hw_slots ms)) (firstn (snpos rs') (slot_lens rs')) /\
  snpos rs' = 2 /\ ms = mkFaSetMarks 40 [4; 4].
Proof. c18_solve. Qed.

(** the bound that [fa_set_reader_marks] uses covers the reader's own
    line-end vector during a successful call *)
Theorem C18_fa_set_reader_vector_bound : forall fuel ffuel n r rs r' rs',
  fa_read_set fuel ffuel n r rs = (r', rs', OSetOk) -> st r <> FParsing ->
  length (seqpos r) <= Nat.max (max_list (firstn (snpos rs') (slot_lens rs'))) (length (seqpos r')).
Proof. exact fa_read_set_seqpos_bound. Qed.
Print Assumptions C18_fa_set_reader_vector_bound.

Example C18_fa_set_reader_vector_bound_nonvacuous :
  let c1 := fa_read_set 100 100 None c18_s0 fa_set_empty in
  let r := fst (fst c1) in let rs := snd (fst c1) in
  snd (fa_read_set 100 100 None r rs) = OSetOk /\ st r = FIncomplete /\ length (seqpos r) = 2.
Proof. c18_solve. Qed.

(** FASTQ: positions are plain integers pushed into a cleared vector, the
    buffer is cleared and refilled *)
Theorem C18_fq_set_steady : forall fuel ffuel cnt m ms r rs r' rs',
  fq_read_set fuel ffuel cnt r rs = (r', rs', QOSetOk) ->
  qhw_cap m = qcap r ->
  consulted (qlog r) (qlog r') = false ->
  length (qbuf r') <= qhw_buffer ms ->
  length (qspos rs') <= qhw_positions ms ->
  fq_next_marks m r' = m /\ fq_set_marks_after ms rs' = ms /\
  fq_set_allocs m ms r r' rs' QOSetOk = false /\
  qcap r' = qcap r /\ qpolh r' = qpolh r /\
  fq_marks_cover m r' /\ fq_set_cover ms rs' /\ qsbuf rs' = qbuf r'.
Proof. exact fq_set_steady. Qed.
Print Assumptions C18_fq_set_steady.

Example C18_fq_set_steady_nonvacuous :
  let c1 := fq_read_set 100 100 None c18_qs0 fq_set_empty in
  let r := fst (fst c1) in let rs := snd (fst c1) in
  let ms := fq_set_marks_after fq_set_marks_new rs in
  let c2 := fq_read_set 100 100 None r rs in
  let r' := fst (fst c2) in let rs' := snd (fst c2) in
  c2 = (r', rs', snd c2) /\ snd c2 = QOSetOk /\ qhw_cap (mkFqMarks 40) = qcap r /\
  consulted (qlog r) (qlog r') = false /\ length (qbuf r') <= qhw_buffer ms /\
  length (qspos rs') <= qhw_positions ms /\ ms = mkFqSetMarks 40 2.
Proof. c18_solve. Qed.

(* ================================================================== *)
(** * Runs of [next]: warm-up, then steady *)

(** FASTA, end to end.  For every input with records ([fa_ostart_of],
    [FaStream]: the offset-based whole-input specification that [next] is
    proved to deliver, C01), every capacity >= 3, every fault-free chunking
    of the source, every policy that never refuses: after [w >= 1] calls the
    mark of the reader's line-end vector is the largest number of line ends
    among the first [w] records (at least the initial capacity 1).  If every
    later record has no more line ends and its needed window
    ([fa_needed]: to the next record's '>' inclusive, resp. to the end of the
    input plus one) fits the capacity reached after call [w], no later call
    raises a mark or consults the policy — however many calls follow. *)
Theorem C18_fa_steady_run : forall inp cap0 rs ss pol fuel ffuel pos ln items w n,
  3 <= cap0 -> forallb item_ok rs = true -> PolOk pol ->
  length rs + 2 <= ffuel -> length inp + 2 <= fuel ->
  fa_ostart_of inp = OsRecs pos ln -> FaStream inp pos ln items ->
  1 <= w ->
  let r0 := fa_new cap0 (mkSource inp 0 rs ss) pol in
  let rw := fa_iter fuel ffuel w r0 in
  let mw := fa_marks_iter fuel ffuel w (fa_marks_new cap0) r0 in
  hw_seqpos mw = Nat.max 1 (max_list (map item_lines (firstn w items))) /\
  hw_cap mw = cap rw /\
  (Forall (fun it => item_lines it <= hw_seqpos mw) (skipn w items) ->
   Forall (fun nd => nd <= cap rw) (skipn w (fa_needed (length inp) items)) ->
   Forall (fun x => x = (mw, false)) (fa_run_allocs fuel ffuel n mw rw)).
Proof. exact fa_steady_run. Qed.
Print Assumptions C18_fa_steady_run.

(** non-vacuity: three records of 15 bytes, capacity 16 (needed windows 16),
    warm-up of one call *)
Example C18_fa_steady_run_nonvacuous :
  let r0 := fa_new 16 (mkSource c18_inp3 0 [] []) pol_std in
  let rw := fa_iter 100 100 1 r0 in
  let mw := fa_marks_iter 100 100 1 (fa_marks_new 16) r0 in
  3 <= 16 /\ forallb item_ok [] = true /\ PolOk pol_std /\
  length (@nil ritem) + 2 <= 100 /\ length c18_inp3 + 2 <= 100 /\
  fa_ostart_of c18_inp3 = OsRecs 0 1 /\ FaStream c18_inp3 0 1 c18_items3 /\
  Forall (fun it => item_lines it <= hw_seqpos mw) (skipn 1 c18_items3) /\
  Forall (fun nd => nd <= cap rw) (skipn 1 (fa_needed (length c18_inp3) c18_items3)) /\
  fa_run_allocs 100 100 4 mw rw = repeat (mkFaMarks 4 16, false) 4.
Proof.
  cbv zeta. c18_conj; try exact PolOk_std; try exact c18_stream3; c18_eval.
Qed.

(** FASTA, warm-up of one call: when no later record has more line ends than
    the first or needs a larger window than the first (records of one shape,
    say), the marks are at their final values after the very first call. *)
Theorem C18_fa_warmup : forall inp cap0 rs ss pol fuel ffuel pos ln it items n,
  3 <= cap0 -> forallb item_ok rs = true -> PolOk pol ->
  length rs + 2 <= ffuel -> length inp + 2 <= fuel ->
  fa_ostart_of inp = OsRecs pos ln -> FaStream inp pos ln (it :: items) ->
  Forall (fun it' => item_lines it' <= item_lines it) items ->
  Forall (fun nd => nd <= hd 0 (fa_needed (length inp) (it :: items))) (fa_needed (length inp) items) ->
  let r0 := fa_new cap0 (mkSource inp 0 rs ss) pol in
  let r1 := fa_iter fuel ffuel 1 r0 in
  let m1 := fa_marks_iter fuel ffuel 1 (fa_marks_new cap0) r0 in
  hw_seqpos m1 = Nat.max 1 (item_lines it) /\
  Forall (fun x => x = (m1, false)) (fa_run_allocs fuel ffuel n m1 r1).
Proof. exact fa_warmup_one_call. Qed.
Print Assumptions C18_fa_warmup.

(** non-vacuity: the same three records with a reader of capacity 3, which has
    to grow (3, 6, 12, 24) during the first call *)
Example C18_fa_warmup_nonvacuous :
  3 <= 3 /\ forallb item_ok [] = true /\ PolOk pol_std /\
  length (@nil ritem) + 2 <= 100 /\ length c18_inp3 + 2 <= 100 /\
  fa_ostart_of c18_inp3 = OsRecs 0 1 /\ FaStream c18_inp3 0 1 c18_items3 /\
  Forall (fun it' => item_lines it' <= item_lines (0, 1, [3;8;11;14])) (tl c18_items3) /\
  Forall (fun nd => nd <= hd 0 (fa_needed (length c18_inp3) c18_items3))
         (fa_needed (length c18_inp3) (tl c18_items3)) /\
  cap (fa_iter 100 100 1 (fa_new 3 (mkSource c18_inp3 0 [] []) pol_std)) = 24.
Proof.
  c18_conj; try exact PolOk_std; try exact c18_stream3; c18_eval.
Qed.

(** inputs without records: the first call finishes the reader, nothing is ever allocated *)
Theorem C18_fa_steady_run_norecs : forall inp cap0 rs ss pol fuel ffuel w n,
  3 <= cap0 -> forallb item_ok rs = true ->
  length rs + 2 <= ffuel -> length inp + 2 <= fuel ->
  (fa_ostart_of inp = OsEmpty \/ exists l b, fa_ostart_of inp = OsInvalid l b) ->
  1 <= w ->
  let r0 := fa_new cap0 (mkSource inp 0 rs ss) pol in
  fa_marks_iter fuel ffuel w (fa_marks_new cap0) r0 = fa_marks_new cap0 /\
  Forall (fun x => x = (fa_marks_new cap0, false))
         (fa_run_allocs fuel ffuel n (fa_marks_new cap0) (fa_iter fuel ffuel w r0)).
Proof. exact fa_steady_run_norecs. Qed.
Print Assumptions C18_fa_steady_run_norecs.

Example C18_fa_steady_run_norecs_nonvacuous :
  fa_ostart_of [10; 13; 10] = OsEmpty /\ fa_ostart_of [10; 65; 10] = OsInvalid 2 65.
Proof. c18_solve. Qed.

(** FASTQ, end to end: for every input, capacity >= 1, fault-free chunking
    and never-refusing policy, and every point [w] of the run: if each group of
    four lines the following [n] calls work on ([fq_next_start]: the position
    reported for the record returned last plus its length) fits the capacity
    reached at [w] ([fq_fits]: the four lines with their terminators; one
    position more for a group whose fourth terminator is missing), none of
    these calls consults the policy or changes the capacity. *)
Theorem C18_fq_steady_run : forall inp cap0 rs ss pol fuel ffuel w n,
  1 <= cap0 -> forallb item_ok rs = true -> PolOk1 pol ->
  length rs + 2 <= ffuel -> length inp + 2 <= fuel ->
  let r0 := fq_new cap0 (mkSource inp 0 rs ss) pol in
  let rw := fq_iter fuel ffuel w r0 in
  (forall i, i < n -> qst (fq_iter fuel ffuel (w + i) r0) <> QFinished ->
             fq_fits inp (fq_next_start (fq_iter fuel ffuel (w + i) r0)) (qcap rw)) ->
  Forall (fun x => x = (mkFqMarks (qcap rw), false))
         (fq_run_allocs fuel ffuel n (mkFqMarks (qcap rw)) rw).
Proof. exact fq_steady_run. Qed.
Print Assumptions C18_fq_steady_run.

(** non-vacuity: three FASTQ records of 15 bytes, capacity 16, from the fresh
    reader on: the groups at 0, 15, 30 end at 15, 30, 45; the call after the
    last record looks at offset 45 = end of input *)
Example C18_fq_steady_run_nonvacuous :
  1 <= 16 /\ forallb item_ok [] = true /\ PolOk1 pol_std /\
  length (@nil ritem) + 2 <= 100 /\ length c18_qinp3 + 2 <= 100 /\
  (forall i, i < 5 -> qst (fq_iter 100 100 (0 + i) c18_q0) <> QFinished ->
             fq_fits c18_qinp3 (fq_next_start (fq_iter 100 100 (0 + i) c18_q0)) (qcap (fq_iter 100 100 0 c18_q0))) /\
  map (fun i => fq_next_start (fq_iter 100 100 i c18_q0)) [0; 1; 2; 3] = [0; 15; 30; 45].
Proof.
  c18_conj; try exact PolOk1_std;
    try (intros i Hi; do 5 (destruct i as [|i]; [vm_compute; intros; try lia; congruence|]); lia);
    c18_eval.
Qed.

(* ================================================================== *)
(** * When the FASTA reader consults its policy (analogue of C09 for FASTQ) *)

Theorem C18_fa_resume_ga_is_resume : forall fuel ffuel mk r,
  fst (fa_resume_ga fuel ffuel mk r) = fa_resume fuel ffuel mk r.
Proof. exact fa_resume_ga_erase. Qed.
Print Assumptions C18_fa_resume_ga_is_resume.

(** [resume_incomplete_search] is entered in state [Incomplete], which [search]
    sets only with a full buffer; from there the policy is consulted only with
    a completely full buffer, and only with the record at the start of the
    buffer unless making room is forbidden (record sets) *)
Theorem C18_fa_policy_only_when_full : forall fuel ffuel mk r,
  length (buf r) = cap r ->
  Forall (fun g => length (buf g) = cap g /\ (mk = false \/ start g = 0))
         (snd (fa_resume_ga fuel ffuel mk r)).
Proof. exact fa_policy_only_when_full. Qed.
Print Assumptions C18_fa_policy_only_when_full.

(** non-vacuity: the first record of [c18_inp3] with capacity 3: the policy is
    asked at capacities 3, 6, 12, each time with a full buffer and [start = 0] *)
Example C18_fa_policy_only_when_full_nonvacuous :
  let r := fst (fa_search (set_st (fst (fa_init 100 100 (fa_new 3 (mkSource c18_inp3 0 [] []) pol_std))) FParsing)) in
  length (buf r) = cap r /\ st r = FIncomplete /\
  map (fun g => (length (buf g), cap g, start g)) (snd (fa_resume_ga 100 100 true r)) =
  [(3, 3, 0); (6, 6, 0); (12, 12, 0)].
Proof. c18_solve. Qed.
