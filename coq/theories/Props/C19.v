(** C19 — Owned records and record sets survive serialisation.
    Statements only; proofs are in Proofs/SerdeP.v.

    Model/Serde.v models what #[derive(Serialize, Deserialize)] does with a
    struct given its field list; Gen/SerdeGen.v (regenerated from /repo/src on
    every run) holds the six field lists.  A field with any serde attribute is
    modelled as skipped, so adding #[serde(skip)] (or any attribute), removing
    a derive, renaming two fields to the same name, or changing the field
    list breaks C19_schemas_plain and/or the round-trip theorems below.

    Vocabulary (Proofs/SerdeP.v):
      names fs            the field names of a field list
      distinct_names l    pairwise distinct, decided with bytes_eqb  (= NoDup)
      unattributed fs     no field has a serde attribute
      no_nested fs        no field is a Vec<BufferPosition>
      typed fs vs         Forall2 (fun f v => has_type (ftype f) v = true) fs vs
      pos_ok ifs v        if v is a VPosList, each element is typed by ifs
      schema_good s       plain s && distinct_names (names (sc_fields s))
      ser_fa_set, deser_fa_set, ...   the model types encoded as value lists in
                          the generated field order and pushed through
                          ser_nested/de_nested (ser_flat/de_flat) of the
                          generated schema; serialisation exists only when the
                          schema derives Serialize (resp. Deserialize) and has
                          no container attribute. *)
From SeqIO Require Import Model.Base Model.Fasta Model.Fastq Model.Serde Gen.SerdeGen
     Proofs.SerdeP.

(** General: a flat struct (BufferPosition, OwnedRecord shapes) with pairwise
    distinct, unattributed field names round-trips every well-typed value.
    (no_nested is needed: Model/Serde.v's ser_flat drops a VPosList.) *)
Theorem C19_flat_roundtrip : forall (fs : list field) (vs : list value),
  distinct_names (names fs) = true ->
  unattributed fs = true ->
  no_nested fs = true ->
  typed fs vs ->
  de_flat fs (ser_flat fs vs) = Some vs.
Proof. exact flat_roundtrip. Qed.
Print Assumptions C19_flat_roundtrip.

(** General: a struct with Vec<inner> fields round-trips when both field lists
    have distinct unattributed names and every list element is typed for inner. *)
Theorem C19_nested_roundtrip : forall (inner : schema) (fs : list field) (vs : list value),
  distinct_names (names fs) = true ->
  unattributed fs = true ->
  distinct_names (names (sc_fields inner)) = true ->
  unattributed (sc_fields inner) = true ->
  no_nested (sc_fields inner) = true ->
  typed fs vs ->
  Forall (pos_ok (sc_fields inner)) vs ->
  de_nested inner fs (ser_nested inner fs vs) = Some vs.
Proof. exact nested_roundtrip. Qed.
Print Assumptions C19_nested_roundtrip.

(** distinct_names means what it says *)
Theorem C19_distinct_names_NoDup : forall l, distinct_names l = true <-> NoDup l.
Proof. exact distinct_names_NoDup. Qed.
Print Assumptions C19_distinct_names_NoDup.

(** The obligation on the source: each of the six generated schemas derives
    both traits, has no container or field attribute, and distinct names. *)
Theorem C19_schemas_plain :
  schema_good fa_BufferPosition_schema = true /\
  schema_good fa_OwnedRecord_schema = true /\
  schema_good fa_RecordSet_schema = true /\
  schema_good fq_BufferPosition_schema = true /\
  schema_good fq_OwnedRecord_schema = true /\
  schema_good fq_RecordSet_schema = true.
Proof. exact schemas_plain. Qed.
Print Assumptions C19_schemas_plain.

(** fasta::OwnedRecord { head, seq }: any bytes *)
Theorem C19_fa_owned_roundtrip : forall r : list byte * list byte,
  exists m, ser_fa_owned r = Some m /\ deser_fa_owned m = Some r.
Proof. exact fa_owned_roundtrip. Qed.
Print Assumptions C19_fa_owned_roundtrip.

(** fastq::OwnedRecord { head, seq, qual }: any bytes *)
Theorem C19_fq_owned_roundtrip : forall r : list byte * list byte * list byte,
  exists m, ser_fq_owned r = Some m /\ deser_fq_owned m = Some r.
Proof. exact fq_owned_roundtrip. Qed.
Print Assumptions C19_fq_owned_roundtrip.

(** fasta::RecordSet { buffer, positions, npos }: any buffer, any offsets, any
    npos — including reused sets whose positions beyond npos are stale *)
Theorem C19_fa_recordset_roundtrip : forall s : fa_set,
  exists m, ser_fa_set s = Some m /\ deser_fa_set m = Some s.
Proof. exact fa_recordset_roundtrip. Qed.
Print Assumptions C19_fa_recordset_roundtrip.

(** fastq::RecordSet { buffer, buf_positions }: any buffer, any offsets *)
Theorem C19_fq_recordset_roundtrip : forall s : fq_set,
  exists m, ser_fq_set s = Some m /\ deser_fq_set m = Some s.
Proof. exact fq_recordset_roundtrip. Qed.
Print Assumptions C19_fq_recordset_roundtrip.

(** the BufferPosition structs on their own *)
Theorem C19_bufpos_roundtrip :
  (forall p, exists m, ser_fa_pos p = Some m /\ deser_fa_pos m = Some p) /\
  (forall p, exists m, ser_fq_pos p = Some m /\ deser_fq_pos m = Some p).
Proof. exact (conj fa_pos_roundtrip fq_pos_roundtrip). Qed.
Print Assumptions C19_bufpos_roundtrip.

(** iterating the deserialised set yields the records of the original *)
Theorem C19_iteration_preserved :
  (forall s, exists m s', ser_fa_set s = Some m /\ deser_fa_set m = Some s' /\
                          fa_set_records s' = fa_set_records s) /\
  (forall s, exists m s', ser_fq_set s = Some m /\ deser_fq_set m = Some s' /\
                          fq_set_records s' = fq_set_records s).
Proof. exact iteration_preserved. Qed.
Print Assumptions C19_iteration_preserved.

(** everything iteration reads is in the serialised form *)
Theorem C19_iteration_depends_only_on_serialised :
  (forall s1 s2 m, ser_fa_set s1 = Some m -> ser_fa_set s2 = Some m ->
                   fa_set_records s1 = fa_set_records s2) /\
  (forall s1 s2 m, ser_fq_set s1 = Some m -> ser_fq_set s2 = Some m ->
                   fq_set_records s1 = fq_set_records s2).
Proof. exact iteration_depends_only_on_serialised. Qed.
Print Assumptions C19_iteration_depends_only_on_serialised.

(* ------------------------------------------------------------------ *)
(** Non-vacuity *)

(** hypotheses of C19_flat_roundtrip: the generated fastq BufferPosition *)
Example C19_flat_example :
  let fs := sc_fields fq_BufferPosition_schema in
  let vs := [VPair 0 5; VNat 6; VNat 11; VNat 13] in
  distinct_names (names fs) = true /\ unattributed fs = true /\ no_nested fs = true /\
  typed fs vs /\
  de_flat fs (ser_flat fs vs) = Some vs.
Proof. cbv zeta. repeat split; try reflexivity. repeat constructor. Qed.

(** hypotheses of C19_nested_roundtrip: the generated fasta RecordSet with two
    positions *)
Example C19_nested_example :
  let inner := fa_BufferPosition_schema in
  let fs := sc_fields fa_RecordSet_schema in
  let vs := [VBytes [62;105;10;65;10]; VPosList [[VNat 0; VNats [2;4]]; [VNat 7; VNats [9]]]; VNat 1] in
  distinct_names (names fs) = true /\ unattributed fs = true /\
  distinct_names (names (sc_fields inner)) = true /\ unattributed (sc_fields inner) = true /\
  no_nested (sc_fields inner) = true /\ typed fs vs /\ Forall (pos_ok (sc_fields inner)) vs /\
  de_nested inner fs (ser_nested inner fs vs) = Some vs.
Proof. cbv zeta. repeat split; try reflexivity; repeat constructor. Qed.

(** a reused fasta set: npos = 1 but two positions stored, the second stale and
    pointing beyond the buffer; the stale entry survives, iteration sees one record *)
Example C19_stale_example :
  let s := mkFaSet [62;105;10;65;10] [(0, [2;4]); (700, [900; 1000])] 1 in
  exists m, ser_fa_set s = Some m /\ deser_fa_set m = Some s /\
            length (fa_set_records s) = 1.
Proof. eexists. repeat split; vm_compute; reflexivity. Qed.

Example C19_fq_example :
  let s := mkFqSet [64;105;10;65;10;43;10;33;10] [(0, 3, 5, 7, 9)] in
  exists m, ser_fq_set s = Some m /\ deser_fq_set m = Some s /\
            length (fq_set_records s) = 1.
Proof. eexists. repeat split; vm_compute; reflexivity. Qed.

(** sensitivity: with #[serde(skip)] on npos the schema is not good and the
    model round trip loses npos (the set comes back empty for iteration) *)
Example C19_skip_breaks :
  let sk := mkSchema true true false
              [([98;117;102;102;101;114], TBytes, false);
               ([112;111;115;105;116;105;111;110;115], TVecPos, false);
               ([110;112;111;115], TUsize, true)] in
  let s := mkFaSet [62;105;10;65;10] [(0, [2;4])] 1 in
  schema_good sk = false /\
  obind (de_nested fa_BufferPosition_schema (sc_fields sk)
           (ser_nested fa_BufferPosition_schema (sc_fields sk) (enc_fa_set s))) dec_fa_set
  = Some (mkFaSet [62;105;10;65;10] [(0, [2;4])] 0).
Proof. split; vm_compute; reflexivity. Qed.
