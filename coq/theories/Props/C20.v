(** C20 — Iterators handed out by the library obey the iterator contracts at every step.
    Statements only; proofs are in Proofs/SeqLinesP.v. *)
From SeqIO Require Import Model.Base Model.Fasta Model.Fastq Model.Views Proofs.SeqLinesP.

(** SeqLines, for every record and every sequence of front/back steps: the item
    returned by each step and the value of len() after it are those of a
    double-ended queue over the record's lines 0 .. n-2 (n = number of stored
    line ends): every line exactly once, the ends meet without overlap, the
    reported length is the number of items still to come, and after the end
    was reported the end is reported again. *)
Theorem C20_seqlines_refines_deque : forall r s ds, fa_seq_lines r = Some s ->
  sl_run s ds = dq_run r (seq 0 (length (rseqpos r) - 1)) ds.
Proof. exact seqlines_refines_deque. Qed.
Check C20_seqlines_refines_deque : forall r s ds, fa_seq_lines r = Some s ->
  sl_run s ds = dq_run r (seq 0 (length (rseqpos r) - 1)) ds.
Print Assumptions C20_seqlines_refines_deque.

(** size_hint brackets exactly: (len, Some len) *)
Theorem C20_size_hint_exact : forall s, sl_size_hint s = (sl_len s, Some (sl_len s)).
Proof. reflexivity. Qed.
Print Assumptions C20_size_hint_exact.

(** the deque hands out every index exactly once: front items, rest, back items
    (reversed) partition the initial list *)
Theorem C20_both_ends_partition : forall l ds,
  let '(f, b, rest) := dq_taken l ds in l = f ++ rest ++ rev b.
Proof. exact dq_partition. Qed.
Print Assumptions C20_both_ends_partition.

(** fused: on an exhausted iterator every further step reports the end *)
Theorem C20_fused : forall rc ds, Forall (fun x => fst x = SlNone) (dq_run rc [] ds).
Proof. intros rc ds. exact (dq_fused [] DFront eq_refl ds rc). Qed.
Print Assumptions C20_fused.

(** enumerate().rev(): the index std computes for an item taken from the back
    (items taken from the front so far + len() afterwards) is the item's true index *)
Theorem C20_enumerate_rev : forall a n,
  dq_front (seq a (S n)) = (seq (S a) n, Some a) /\
  dq_back (seq a (S n)) = (seq a n, Some (a + length (seq a n))).
Proof. intros a n. rewrite seq_length. split; [apply dq_front_range | apply dq_back_range]. Qed.
Print Assumptions C20_enumerate_rev.

(** owned-record iterators delegate to next(), whose finished state is sticky *)
Theorem C20_reader_end_sticky : forall fuel ffuel,
  (forall r, st r = FFinished -> fa_next fuel ffuel r = (r, ONone)) /\
  (forall r, qst r = QFinished -> fq_next fuel ffuel r = (r, QONone)).
Proof. intros; split; intros; [apply fa_finished_sticky | apply fq_finished_sticky]; assumption. Qed.
Print Assumptions C20_reader_end_sticky.

(** non-vacuity: a three-line record, steps front, back, back, back, front *)
Example C20_example :
  let r := mkFaRec [62;105;10;65;10;67;67;10;71;10] 0 [2;4;7;9] in
  exists s, fa_seq_lines r = Some s /\
  sl_run s [DFront; DBack; DBack; DBack; DFront] =
    [(SlItem [65], 2); (SlItem [71], 1); (SlItem [67;67], 0); (SlNone, 0); (SlNone, 0)].
Proof. eexists; split; [reflexivity | vm_compute; reflexivity]. Qed.
