(** C20 (record-set iterators, owned-record iterators) — the remaining iterators the library
    hands out obey the iterator contracts.  Models: Model/Iters.v; proofs: Proofs/ItersP.v.

    Vocabulary.  [it_run next n s] is the list of results of [n] successive calls of [next]
    from state [s] ([None] = the end); [it_after next n s] the state after them;
    [it_collect next fuel s] what a [for] loop sees (items up to the first [None]).

    RECORD SETS.
    - [fasta::RecordSetIter] is [positions.iter().take(npos)] mapped to RefRecords.  For EVERY
      record set (also one with stale entries beyond [npos], also one whose [npos] exceeds the
      vector) any number of calls yields the records of [fa_set_records rs] -- the first [npos]
      entries, in order -- and then [None] for ever.  With [npos <= len] these are exactly
      [npos] records, entry by entry those of the vector, never a stale one; with [npos > len]
      [Take] stops at the end of the slice: all entries, no panic.  The sets [read_record_set]
      fills have [npos <= len] and keep the stale tail of the set passed in.
    - [fastq::RecordSetIter] is the plain slice iterator: the records of [fq_set_records rs],
      then [None] for ever.
    - Fused: after ANY state answered [None], all later answers are [None].
    - [size_hint] is not overridden: [(0, None)].  It brackets the number of items still to come
      in every state (lower bound 0, no upper bound) -- true, and as uninformative as a hint can
      be: [collect()] cannot pre-allocate, and neither iterator is an [ExactSizeIterator].

    OWNED RECORDS ([RecordsIter] / [RecordsIntoIter], both formats).
    - One step is one [next()] of the reader with the record copied by [to_owned_record()];
      the item sequence is the outcome sequence of [next] mapped through [fa_own_item] /
      [fq_own_item].  For a NEW reader over any input (hypotheses of C01 / C02) the items are
      the owned forms of the whole-input specification's items, then [None] for ever:
      in particular [to_owned_record()] never panics there.
    - Fused: a step answers [None] only if the reader is then [Finished], and a finished reader
      answers [None] for ever (for every state, every fuel).
    - After [Some(Err(e))]:
        format errors (FASTA InvalidStart; FASTQ InvalidStart, InvalidSep, UnequalLengths,
          UnexpectedEnd): the reader is finished -- [None] for ever;
        I/O error: raised by the very first refill of a [New] reader, the reader stays [New]
          (the next call tries again); raised later, the reader is finished with an empty
          buffer -- [None] for ever;
        BufferLimit: NOT the end.  The reader keeps its pending search ([FaLimited] /
          [FqLimited]) and the next call asks the policy again.  FASTA: the next call never
          answers [None].  Both formats: while the policy still refuses, EVERY further call
          answers [Some(Err(BufferLimit))] again -- a [for] loop over [records()] that does not
          stop at the first error does not terminate.  (This does not contradict the contract,
          which speaks about [None]; it is worth knowing.)

    Deviation from the wanted signature: the owned item type is
    [option (own_item err owned)] with [own_item] = Err | Ok | Panic site | Fuel instead of
    [option (err + option owned)], so that a panic inside [next()] / [to_owned_record()] and the
    model's fuel bound are not confused with a delivered item. *)
From SeqIO Require Import Model.Base Model.Fasta Model.Fastq Model.Views Model.Iters
     Spec.FastaSpec Spec.FastqSpec
     Proofs.Window Proofs.FastaInv Proofs.FastqInv Proofs.FastaNextP Proofs.FastqNextP Proofs.ItersP.

(* ================================================================== *)
(** * fasta::RecordSetIter *)

Theorem C20_fa_set_iter_yields_records : forall rs n,
  it_run fa_set_iter_next n (fa_set_into_iter rs) = firstn n (map Some (fa_set_records rs) ++ repeat None n).
Proof. exact fa_set_iter_yields_records. Qed.
Print Assumptions C20_fa_set_iter_yields_records.

(** [for rec in &set] sees exactly [fa_set_records rs] *)
Theorem C20_fa_set_iter_for_loop : forall rs fuel, snpos rs <= fuel ->
  it_collect fa_set_iter_next fuel (fa_set_into_iter rs) = fa_set_records rs.
Proof. exact fa_set_iter_collect. Qed.
Print Assumptions C20_fa_set_iter_for_loop.

(** with [npos] inside the vector: [npos] records, the [i]-th made from the [i]-th entry --
    never from a stale entry at index >= [npos] *)
Theorem C20_fa_set_iter_never_stale : forall rs, snpos rs <= length (spositions rs) ->
  length (fa_set_records rs) = snpos rs /\
  forall i, i < snpos rs ->
    nth_error (fa_set_records rs) i = option_map (fa_pos_rec (sbuf rs)) (nth_error (spositions rs) i).
Proof. exact fa_set_records_live. Qed.
Print Assumptions C20_fa_set_iter_never_stale.

(** otherwise [Take] stops at the end of the slice: every entry once, no panic *)
Theorem C20_fa_set_iter_npos_beyond_vector : forall rs, length (spositions rs) <= snpos rs ->
  fa_set_records rs = map (fa_pos_rec (sbuf rs)) (spositions rs).
Proof. exact fa_set_records_overlong. Qed.
Print Assumptions C20_fa_set_iter_npos_beyond_vector.

(** the sets the reader fills are of the first kind; the tail beyond [npos] is the stale tail
    of the set passed in, and the iteration is over the first [npos] entries and the reader's buffer *)
Theorem C20_fa_read_set_then_iterate : forall fuel ffuel n r rs r' rs',
  fa_read_set fuel ffuel n r rs = (r', rs', OSetOk) ->
  snpos rs' <= length (spositions rs') /\
  skipn (snpos rs') (spositions rs') = skipn (snpos rs') (spositions rs) /\
  forall k, it_run fa_set_iter_next k (fa_set_into_iter rs') =
            firstn k (map Some (map (fa_pos_rec (buf r')) (firstn (snpos rs') (spositions rs'))) ++ repeat None k).
Proof. exact fa_read_set_iter. Qed.
Print Assumptions C20_fa_read_set_then_iterate.

(** fused, for EVERY iterator state *)
Theorem C20_fa_set_iter_fused : forall it it', fa_set_iter_next it = (it', None) ->
  forall n, it_run fa_set_iter_next n it' = repeat None n.
Proof. exact fa_set_iter_fused. Qed.
Print Assumptions C20_fa_set_iter_fused.

(** every state: what is still to come (any number of calls), and the hint brackets its length *)
Theorem C20_fa_set_iter_remaining : forall it n,
  it_run fa_set_iter_next n it = firstn n (map Some (fa_set_iter_remaining it) ++ repeat None n).
Proof. intros it n. exact (fa_set_iter_run_any n it). Qed.
Print Assumptions C20_fa_set_iter_remaining.

Theorem C20_fa_set_iter_size_hint_brackets : forall it,
  fst (fa_set_iter_size_hint it) <= length (fa_set_iter_remaining it) /\
  forall u, snd (fa_set_iter_size_hint it) = Some u -> length (fa_set_iter_remaining it) <= u.
Proof. exact fa_set_iter_size_hint_brackets. Qed.
Print Assumptions C20_fa_set_iter_size_hint_brackets.

(** the states reached from [into_iter] after [k] items taken: the rest of the records is still
    to come, and the hint brackets its length *)
Theorem C20_fa_set_iter_size_hint_reached : forall rs k,
  let it := it_after fa_set_iter_next k (fa_set_into_iter rs) in
  let remaining := it_collect fa_set_iter_next (snpos rs) it in
  remaining = skipn k (fa_set_records rs) /\
  fst (fa_set_iter_size_hint it) <= length remaining /\
  forall u, snd (fa_set_iter_size_hint it) = Some u -> length remaining <= u.
Proof. exact fa_set_iter_size_hint_reached. Qed.
Print Assumptions C20_fa_set_iter_size_hint_reached.

(* ================================================================== *)
(** * fastq::RecordSetIter *)

Theorem C20_fq_set_iter_yields_records : forall rs n,
  it_run fq_set_iter_next n (fq_set_into_iter rs) = firstn n (map Some (fq_set_records rs) ++ repeat None n).
Proof. exact fq_set_iter_yields_records. Qed.
Print Assumptions C20_fq_set_iter_yields_records.

Theorem C20_fq_set_iter_for_loop : forall rs fuel, length (qspos rs) <= fuel ->
  it_collect fq_set_iter_next fuel (fq_set_into_iter rs) = fq_set_records rs.
Proof. exact fq_set_iter_collect. Qed.
Print Assumptions C20_fq_set_iter_for_loop.

Theorem C20_fq_set_iter_fused : forall it it', fq_set_iter_next it = (it', None) ->
  forall n, it_run fq_set_iter_next n it' = repeat None n.
Proof. exact fq_set_iter_fused. Qed.
Print Assumptions C20_fq_set_iter_fused.

Theorem C20_fq_set_iter_remaining : forall it n,
  it_run fq_set_iter_next n it = firstn n (map Some (fq_set_iter_remaining it) ++ repeat None n).
Proof. intros it n. exact (fq_set_iter_run_any n it). Qed.
Print Assumptions C20_fq_set_iter_remaining.

Theorem C20_fq_set_iter_size_hint_brackets : forall it,
  fst (fq_set_iter_size_hint it) <= length (fq_set_iter_remaining it) /\
  forall u, snd (fq_set_iter_size_hint it) = Some u -> length (fq_set_iter_remaining it) <= u.
Proof. exact fq_set_iter_size_hint_brackets. Qed.
Print Assumptions C20_fq_set_iter_size_hint_brackets.

Theorem C20_fq_set_iter_size_hint_reached : forall rs k,
  let it := it_after fq_set_iter_next k (fq_set_into_iter rs) in
  let remaining := it_collect fq_set_iter_next (length (qspos rs)) it in
  remaining = skipn k (fq_set_records rs) /\
  fst (fq_set_iter_size_hint it) <= length remaining /\
  forall u, snd (fq_set_iter_size_hint it) = Some u -> length remaining <= u.
Proof. exact fq_set_iter_size_hint_reached. Qed.
Print Assumptions C20_fq_set_iter_size_hint_reached.

(* ================================================================== *)
(** * FASTA RecordsIter / RecordsIntoIter *)

(** one step = one [next] of the reader, the outcome mapped through [to_owned_record] *)
Theorem C20_fa_records_iter_step : forall fuel ffuel r,
  fa_records_next fuel ffuel r = (fst (fa_next fuel ffuel r), fa_own_item (snd (fa_next fuel ffuel r))).
Proof. exact fa_records_next_refines. Qed.
Print Assumptions C20_fa_records_iter_step.

(** [fa_run] (Proofs/FastaNextP.v): the outcomes of [n] successive [next] calls (with positions) *)
Theorem C20_fa_records_iter_refines_next : forall fuel ffuel n r,
  it_run (fa_records_next fuel ffuel) n r = map (fun x => fa_own_item (fst x)) (fa_run fuel ffuel n r).
Proof. exact fa_records_iter_refines_next. Qed.
Print Assumptions C20_fa_records_iter_refines_next.

(** a new reader over any input: the owned forms of the specification's items, then the end *)
Theorem C20_fa_records_iter_spec : forall inp cap0 rs ss pol fuel ffuel n,
  3 <= cap0 -> forallb item_ok rs = true -> PolOk pol ->
  length rs + 2 <= ffuel -> length inp + 2 <= fuel ->
  it_run (fa_records_next fuel ffuel) n (fa_new cap0 (mkSource inp 0 rs ss) pol) =
  firstn n (map (fun i => Some (fa_spec_own i)) (fa_spec inp) ++ repeat None n).
Proof. exact fa_records_iter_spec. Qed.
Print Assumptions C20_fa_records_iter_spec.

(** fused: [None] only from a reader that is then finished, and then [None] for ever *)
Theorem C20_fa_records_iter_fused : forall fuel ffuel r r', fa_records_next fuel ffuel r = (r', None) ->
  st r' = FFinished /\
  (forall fuel2 ffuel2, fa_records_next fuel2 ffuel2 r' = (r', None)) /\
  (forall fuel2 ffuel2 n, it_run (fa_records_next fuel2 ffuel2) n r' = repeat None n).
Proof. exact fa_records_iter_end_sticky. Qed.
Print Assumptions C20_fa_records_iter_fused.

Theorem C20_fa_records_iter_finished : forall fuel ffuel r, st r = FFinished ->
  forall n, it_run (fa_records_next fuel ffuel) n r = repeat None n.
Proof. exact fa_records_iter_finished. Qed.
Print Assumptions C20_fa_records_iter_finished.

(** what follows [Some(Err(e))] *)
Theorem C20_fa_records_iter_after_err : forall fuel ffuel r r' e,
  fa_records_next fuel ffuel r = (r', Some (ItErr e)) ->
  match e with
  | FaInvalidStart _ _ =>
      st r = FNew /\ forall fuel2 ffuel2 n, it_run (fa_records_next fuel2 ffuel2) n r' = repeat None n
  | FaIo _ =>
      (st r = FNew /\ st r' = FNew) \/
      (buf r' = [] /\ forall fuel2 ffuel2 n, it_run (fa_records_next fuel2 ffuel2) n r' = repeat None n)
  | FaBufferLimit =>
      st r' = FIncomplete /\ forall fuel2 ffuel2, snd (fa_records_next fuel2 ffuel2 r') <> None
  end.
Proof. exact fa_records_iter_after_err. Qed.
Print Assumptions C20_fa_records_iter_after_err.

(** BufferLimit leaves the reader with its pending search at the front of the buffer ... *)
Theorem C20_fa_next_limit_state : forall fuel ffuel r r',
  fa_next fuel ffuel r = (r', OErr FaBufferLimit) -> st r' = FIncomplete /\ start r' = 0.
Proof. exact fa_next_limit_state. Qed.
Print Assumptions C20_fa_next_limit_state.

(** ... and from there a policy that still refuses gives the same error on every further call *)
Theorem C20_fa_records_iter_limit_forever : forall fuel ffuel n r,
  st r = FIncomplete /\ start r = 0 ->
  (forall h, match polf r h (cap r) with None => True | Some m => m <= cap r end) ->
  it_run (fa_records_next (S fuel) ffuel) n r = repeat (Some (ItErr FaBufferLimit)) n.
Proof. exact fa_records_iter_limit_forever. Qed.
Print Assumptions C20_fa_records_iter_limit_forever.

Theorem C20_fa_records_size_hint : forall r, fa_records_size_hint r = (0, None).
Proof. reflexivity. Qed.
Print Assumptions C20_fa_records_size_hint.

(* ================================================================== *)
(** * FASTQ RecordsIter / RecordsIntoIter *)

Theorem C20_fq_records_iter_step : forall fuel ffuel r,
  fq_records_next fuel ffuel r = (fst (fq_next fuel ffuel r), fq_own_item (snd (fq_next fuel ffuel r))).
Proof. exact fq_records_next_refines. Qed.
Print Assumptions C20_fq_records_iter_step.

Theorem C20_fq_records_iter_refines_next : forall fuel ffuel n r,
  it_run (fq_records_next fuel ffuel) n r = map (fun x => fq_own_item (fst x)) (fq_run fuel ffuel n r).
Proof. exact fq_records_iter_refines_next. Qed.
Print Assumptions C20_fq_records_iter_refines_next.

Theorem C20_fq_records_iter_spec : forall inp cap0 rs ss pol fuel ffuel n,
  1 <= cap0 -> forallb item_ok rs = true -> PolOk1 pol ->
  length rs + 2 <= ffuel -> length inp + 2 <= fuel ->
  it_run (fq_records_next fuel ffuel) n (fq_new cap0 (mkSource inp 0 rs ss) pol) =
  firstn n (map (fun i => Some (fq_spec_own i)) (fq_spec_all inp) ++ repeat None n).
Proof. exact fq_records_iter_spec. Qed.
Print Assumptions C20_fq_records_iter_spec.

Theorem C20_fq_records_iter_fused : forall fuel ffuel r r', fq_records_next fuel ffuel r = (r', None) ->
  qst r' = QFinished /\
  (forall fuel2 ffuel2, fq_records_next fuel2 ffuel2 r' = (r', None)) /\
  (forall fuel2 ffuel2 n, it_run (fq_records_next fuel2 ffuel2) n r' = repeat None n).
Proof. exact fq_records_iter_end_sticky. Qed.
Print Assumptions C20_fq_records_iter_fused.

Theorem C20_fq_records_iter_finished : forall fuel ffuel r, qst r = QFinished ->
  forall n, it_run (fq_records_next fuel ffuel) n r = repeat None n.
Proof. exact fq_records_iter_finished. Qed.
Print Assumptions C20_fq_records_iter_finished.

Theorem C20_fq_records_iter_after_err : forall fuel ffuel r r' e,
  fq_records_next fuel ffuel r = (r', Some (ItErr e)) ->
  match e with
  | FqIo _ =>
      (qst r = QNew /\ qst r' = QNew) \/
      (qbuf r' = [] /\ forall fuel2 ffuel2 n, it_run (fq_records_next fuel2 ffuel2) n r' = repeat None n)
  | FqBufferLimit => qst r' = QParsing /\ inc r' <> None
  | _ => forall fuel2 ffuel2 n, it_run (fq_records_next fuel2 ffuel2) n r' = repeat None n
  end.
Proof. exact fq_records_iter_after_err. Qed.
Print Assumptions C20_fq_records_iter_after_err.

Theorem C20_fq_next_limit_state : forall fuel ffuel r r',
  fq_next fuel ffuel r = (r', QOErr FqBufferLimit) ->
  qst r' = QParsing /\ inc r' <> None /\ p0 r' = 0 /\ qcap r' <= length (qbuf r').
Proof. exact fq_next_limit_state. Qed.
Print Assumptions C20_fq_next_limit_state.

Theorem C20_fq_records_iter_limit_forever : forall fuel ffuel n r,
  qst r = QParsing /\ inc r <> None /\ p0 r = 0 /\ qcap r <= length (qbuf r) ->
  (forall h, match qpolf r h (qcap r) with None => True | Some m => m <= qcap r end) ->
  it_run (fq_records_next (S fuel) ffuel) n r = repeat (Some (ItErr FqBufferLimit)) n.
Proof. exact fq_records_iter_limit_forever. Qed.
Print Assumptions C20_fq_records_iter_limit_forever.

Theorem C20_fq_records_size_hint : forall r, fq_records_size_hint r = (0, None).
Proof. reflexivity. Qed.
Print Assumptions C20_fq_records_size_hint.

(* ================================================================== *)
(** * non-vacuity *)

(** ">a\nA\n>b\nC\n>c\nG\n>d\nT\n>e\nA\n": a set filled with 3 records, then refilled with 1.
    The vector keeps 3 entries (two stale), [npos] is 1, the iteration yields the ONE record
    "d" and then the end; after one item nothing is left. *)
Example C20_fa_set_iter_stale_example :
  let inp := [62;97;10;65;10;62;98;10;67;10;62;99;10;71;10;62;100;10;84;10;62;101;10;65;10] in
  let r0 := fa_new 64 (mkSource inp 0 [] []) pol_std in
  let '(r1, s1, o1) := fa_read_set 50 50 (Some 3) r0 fa_set_empty in
  let '(r2, s2, o2) := fa_read_set 50 50 (Some 1) r1 s1 in
  o1 = OSetOk /\ o2 = OSetOk /\
  spositions s1 = [(0, [2; 4]); (5, [7; 9]); (10, [12; 14])] /\ snpos s1 = 3 /\
  spositions s2 = [(15, [17; 19]); (5, [7; 9]); (10, [12; 14])] /\ snpos s2 = 1 /\
  map (option_map fa_to_owned) (it_run fa_set_iter_next 3 (fa_set_into_iter s2)) =
    [Some (Some ([100], [84])); None; None] /\
  map (option_map fa_to_owned) (it_run fa_set_iter_next 4 (fa_set_into_iter s1)) =
    [Some (Some ([97], [65])); Some (Some ([98], [67])); Some (Some ([99], [71])); None] /\
  length (it_collect fa_set_iter_next 10 (fa_set_into_iter s2)) = 1 /\
  fa_set_iter_remaining (it_after fa_set_iter_next 1 (fa_set_into_iter s2)) = [] /\
  fa_set_iter_size_hint (fa_set_into_iter s2) = (0, None).
Proof. vm_compute. repeat split; reflexivity. Qed.

(** a hand-made set whose [npos] (5) exceeds its vector (2 entries): two records, then the end *)
Example C20_fa_set_iter_npos_beyond_example :
  let rs := mkFaSet [62;97;10;65;10;62;98;10;67;10] [(0, [2; 4]); (5, [7; 9])] 5 in
  map (option_map fa_to_owned) (it_run fa_set_iter_next 4 (fa_set_into_iter rs)) =
    [Some (Some ([97], [65])); Some (Some ([98], [67])); None; None].
Proof. vm_compute. reflexivity. Qed.

(** "@a\nAC\n+\nII\n@b\nG\n+\nI\n@c\nT\n+\nJ\n": a set of two records *)
Example C20_fq_set_iter_example :
  let inp := [64;97;10;65;67;10;43;10;73;73;10;64;98;10;71;10;43;10;73;10;64;99;10;84;10;43;10;74;10] in
  let '(r1, s1, o1) := fq_read_set 50 50 (Some 2) (fq_new 64 (mkSource inp 0 [] []) pol_std) fq_set_empty in
  o1 = QOSetOk /\ qspos s1 = [(0, 10, 3, 6, 8); (11, 19, 14, 16, 18)] /\
  map (option_map fq_to_owned) (it_run fq_set_iter_next 4 (fq_set_into_iter s1)) =
    [Some (Some ([97], [65; 67], [73; 73])); Some (Some ([98], [71], [73])); None; None] /\
  length (it_collect fq_set_iter_next 10 (it_after fq_set_iter_next 1 (fq_set_into_iter s1))) = 1.
Proof. vm_compute. repeat split; reflexivity. Qed.

(** owned FASTA records: all five, then the end for ever; an invalid start and a failed refill
    in mid-file are followed by the end *)
Example C20_fa_records_iter_example :
  let inp := [62;97;10;65;10;62;98;10;67;10;62;99;10;71;10;62;100;10;84;10;62;101;10;65;10] in
  it_run (fa_records_next 50 50) 7 (fa_new 64 (mkSource inp 0 [] []) pol_std) =
    [Some (ItOk ([97], [65])); Some (ItOk ([98], [67])); Some (ItOk ([99], [71]));
     Some (ItOk ([100], [84])); Some (ItOk ([101], [65])); None; None] /\
  it_run (fa_records_next 50 50) 3 (fa_new 4 (mkSource [65;10;62;97;10] 0 [] []) pol_std) =
    [Some (ItErr (FaInvalidStart 1 65)); None; None] /\
  it_run (fa_records_next 50 50) 4 (fa_new 8 (mkSource inp 0 [RDeliver 8; RFailI 7] []) pol_std) =
    [Some (ItOk ([97], [65])); Some (ItErr (FaIo 7)); None; None].
Proof. vm_compute. repeat split; reflexivity. Qed.

(** BufferLimit is not the end: with a policy that always refuses the error repeats; with one
    that refuses once and then doubles, the records follow.  The state after the first error
    satisfies the hypotheses of [C20_fa_records_iter_limit_forever]. *)
Example C20_fa_records_iter_limit_example :
  let inp := [62;97;10;65;10;62;98;10;67;10;62;99;10;71;10] in
  let refuse : policy := fun _ _ => None in
  let once : policy := fun h c => match h with [] => None | _ => Some (2 * c) end in
  it_run (fa_records_next 50 50) 4 (fa_new 4 (mkSource inp 0 [] []) refuse) =
    [Some (ItErr FaBufferLimit); Some (ItErr FaBufferLimit); Some (ItErr FaBufferLimit); Some (ItErr FaBufferLimit)] /\
  it_run (fa_records_next 50 50) 5 (fa_new 4 (mkSource inp 0 [] []) once) =
    [Some (ItErr FaBufferLimit); Some (ItOk ([97], [65])); Some (ItOk ([98], [67])); Some (ItOk ([99], [71])); None] /\
  let r1 := fst (fa_records_next 50 50 (fa_new 4 (mkSource inp 0 [] []) refuse)) in
  (st r1 = FIncomplete /\ start r1 = 0) /\
  (forall h, match polf r1 h (cap r1) with None => True | Some m => m <= cap r1 end).
Proof. vm_compute. repeat split; try reflexivity. Qed.

(** owned FASTQ records; a wrong separator in the second group: the error, then the end *)
Example C20_fq_records_iter_example :
  let inp := [64;97;10;65;67;10;43;10;73;73;10;64;98;10;71;10;43;10;73;10;64;99;10;84;10;43;10;74;10] in
  let bad := [64;97;10;65;67;10;43;10;73;73;10;64;98;10;71;10;45;10;73;10;64;99;10;84;10;43;10;74;10] in
  it_run (fq_records_next 50 50) 5 (fq_new 64 (mkSource inp 0 [] []) pol_std) =
    [Some (ItOk ([97], [65; 67], [73; 73])); Some (ItOk ([98], [71], [73])); Some (ItOk ([99], [84], [74])); None; None] /\
  it_run (fq_records_next 50 50) 4 (fq_new 64 (mkSource bad 0 [] []) pol_std) =
    [Some (ItOk ([97], [65; 67], [73; 73])); Some (ItErr (FqInvalidSep 45 7 (Some [98]))); None; None].
Proof. vm_compute. repeat split; reflexivity. Qed.

Example C20_fq_records_iter_limit_example :
  let inp := [64;97;10;65;67;10;43;10;73;73;10;64;98;10;71;10;43;10;73;10] in
  let refuse : policy := fun _ _ => None in
  let once : policy := fun h c => match h with [] => None | _ => Some (2 * c) end in
  it_run (fq_records_next 50 50) 3 (fq_new 4 (mkSource inp 0 [] []) refuse) =
    [Some (ItErr FqBufferLimit); Some (ItErr FqBufferLimit); Some (ItErr FqBufferLimit)] /\
  it_run (fq_records_next 50 50) 4 (fq_new 4 (mkSource inp 0 [] []) once) =
    [Some (ItErr FqBufferLimit); Some (ItOk ([97], [65; 67], [73; 73])); Some (ItOk ([98], [71], [73])); None] /\
  let r1 := fst (fq_records_next 50 50 (fq_new 4 (mkSource inp 0 [] []) refuse)) in
  (qst r1 = QParsing /\ inc r1 <> None /\ p0 r1 = 0 /\ qcap r1 <= length (qbuf r1)) /\
  (forall h, match qpolf r1 h (qcap r1) with None => True | Some m => m <= qcap r1 end).
Proof. vm_compute. repeat split; try reflexivity; discriminate. Qed.
