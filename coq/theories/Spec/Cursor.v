(** The abstract cursor machine (DESIGN 4; the Coq counterpart of class
    [Cursor] in tools/oracles.py): what ANY history of reading operations on
    one reader may deliver, in terms of the whole-input specification stream.

    The stream is a list of items, each a record or an error (an invalid
    record); after the items comes "end of input" for ever.  The machine is
    generic in the record and error types: it is instantiated with the
    offset-based items of [FaOSpec] (Proofs/FastaHistP.v) and can be
    instantiated with the items of [fa_spec] / [fq_spec].

    State: the index of the next undelivered item, or [CDone] (after the error
    or after end of input was reported).

    Rules:
    - [CNext] delivers item [k]: the record (cursor moves on), or the error
      (cursor dies), or end of input when no item is left.
    - [CSet] delivers a NON-EMPTY run of the consecutive records that start
      at [k].  How many is not determined at this level (batch boundaries
      depend on the buffer capacity by design): any [m] with
      [1 <= m <= number of records ahead].
    - [CSetExact n] delivers exactly [min n (records ahead)] records, and that
      number is at least one.
    - Both set reads report end of input exactly when no item is left.
    - If an invalid item lies ahead, a set read delivers only records that
      precede it, or it reports the error of that item (the records that share
      the batch with it are then not delivered; DESIGN 7); [CNext] reports
      the error only when the invalid item is the next item; [CSetExact n]
      only when fewer than [n] records precede it.  After the error the
      cursor is dead.
    - [CSeek k]: cursor := [k], from every state (also from [CDone]).

    Definitions only. *)
From Coq Require Import List Arith.
Import ListNotations.

Section Cursor.
  Variables (R E : Type).

  Inductive citem := CRec (r : R) | CErr (e : E).

  Inductive cstate := CAt (k : nat) | CDone.

  Inductive cop := CNext | CSet | CSetExact (n : nat) | CSeek (k : nat).

  Inductive cobs :=
  | CoRec (r : R)            (* one record *)
  | CoSet (rs : list R)      (* a record set *)
  | CoErr (e : E)            (* the error of an invalid item *)
  | CoEnd                    (* end of input *)
  | CoOk.                    (* a seek *)

  (** the maximal run of records at the head of a stream *)
  Fixpoint recs_prefix (l : list citem) : list R :=
    match l with
    | CRec r :: t => r :: recs_prefix t
    | _ => []
    end.

  (** the records ahead of the cursor position [k], up to the first invalid
      item or the end *)
  Definition recs_ahead (items : list citem) (k : nat) : list R :=
    recs_prefix (skipn k items).

  (** the error that ends the run of records ahead of [k], if any *)
  Definition err_ahead (items : list citem) (k : nat) : option E :=
    match nth_error items (k + length (recs_ahead items k)) with
    | Some (CErr e) => Some e
    | _ => None
    end.

  Inductive cstep (items : list citem) : cstate -> cop -> cobs -> cstate -> Prop :=
  (* single reads *)
  | cs_next_rec k r :
      nth_error items k = Some (CRec r) ->
      cstep items (CAt k) CNext (CoRec r) (CAt (S k))
  | cs_next_err k e :
      nth_error items k = Some (CErr e) ->
      cstep items (CAt k) CNext (CoErr e) CDone
  | cs_next_end k :
      length items <= k ->
      cstep items (CAt k) CNext CoEnd CDone
  | cs_next_done :
      cstep items CDone CNext CoEnd CDone
  (* record sets *)
  | cs_set k m :
      1 <= m -> m <= length (recs_ahead items k) ->
      cstep items (CAt k) CSet (CoSet (firstn m (recs_ahead items k))) (CAt (k + m))
  | cs_set_err k e :
      err_ahead items k = Some e ->
      cstep items (CAt k) CSet (CoErr e) CDone
  | cs_set_end k :
      length items <= k ->
      cstep items (CAt k) CSet CoEnd CDone
  | cs_set_done :
      cstep items CDone CSet CoEnd CDone
  (* exact-count record sets *)
  | cs_exact k n m :
      1 <= n -> m = Nat.min n (length (recs_ahead items k)) -> 1 <= m ->
      cstep items (CAt k) (CSetExact n) (CoSet (firstn m (recs_ahead items k))) (CAt (k + m))
  | cs_exact_err k n e :
      1 <= n -> err_ahead items k = Some e -> length (recs_ahead items k) < n ->
      cstep items (CAt k) (CSetExact n) (CoErr e) CDone
  | cs_exact_end k n :
      1 <= n -> length items <= k ->
      cstep items (CAt k) (CSetExact n) CoEnd CDone
  | cs_exact_done n :
      1 <= n ->
      cstep items CDone (CSetExact n) CoEnd CDone
  (* seeks *)
  | cs_seek c k :
      cstep items c (CSeek k) CoOk (CAt k).

  (** runs of the machine *)
  Inductive crun (items : list citem) : cstate -> list (cop * cobs) -> cstate -> Prop :=
  | cr_nil c : crun items c [] c
  | cr_cons c op ob c1 rest c2 :
      cstep items c op ob c1 -> crun items c1 rest c2 ->
      crun items c ((op, ob) :: rest) c2.

  (** the records of a stream without invalid item *)
  Definition all_recs (items : list citem) : list R := recs_prefix items.
  Definition no_error (items : list citem) : Prop :=
    forall k e, nth_error items k <> Some (CErr e).
End Cursor.

Arguments CRec {R E} r.
Arguments CErr {R E} e.
Arguments CoRec {R E} r.
Arguments CoSet {R E} rs.
Arguments CoErr {R E} e.
Arguments CoEnd {R E}.
Arguments CoOk {R E}.
Arguments recs_prefix {R E} l.
Arguments recs_ahead {R E} items k.
Arguments err_ahead {R E} items k.
Arguments cstep {R E} items _ _ _ _.
Arguments crun {R E} items _ _ _.
Arguments all_recs {R E} items.
Arguments no_error {R E} items.
