(** The abstract cursor machine over a specification stream (DESIGN 4).
    Generic in the item type.  Definitions only.

    A specification stream is a finite list of items; an item is either a
    record or an error ([is_rec]); in the streams of the readers an error item
    can only be the last one, but the machine does not rely on this.  After the
    items comes "end of input" for ever.

    The machine says what the read operations of one reader may deliver,
    whatever the buffer size, the chunking of the source and the growth policy:
    - [CNext] delivers item [k] (a record, or the error, which is terminal) or
      the end;
    - [CSet] delivers a NON-EMPTY run of consecutive records starting at [k];
      where a batch ends is not determined at this level (it depends on the
      capacity by design): any [m] with [1 <= m <= recs_ahead k] is allowed.
      If the error item lies ahead the call may instead return that error, and
      then delivers nothing (the records sharing the batch with the invalid
      record are not delivered); if item [k] itself is the error this is the
      only possibility.  If nothing is left: end;
    - [CSetExact n] ([n >= 1]) delivers exactly [min n (recs_ahead k)] records,
      unless the error item is reached before [n] records were found: then it
      returns the error and delivers nothing.  End iff nothing is left;
    - [CSeek k] ([k] the index of an item) puts the cursor before item [k],
      also after the error or the end.

    The same rules are implemented by class Cursor of tools/oracles.py, against
    which the implementation is tested.

    Relation to Spec/Cursor.v (the machine over items [CRec r | CErr e] that the
    FASTA histories refine): every step / run of this machine is a step / run
    of that one (Proofs/CursorBridgeP.v: [cstepQ_cstep], [hrunQ_crun]); this one
    is stricter in that an exact-count read that meets the invalid item before
    the n-th record must report the error, and seeks go to items.  On top of
    the core machine this file also specifies the two record-set slots and
    what [position()] denotes ([hstep]). *)
From Coq Require Import List Arith Bool.
Import ListNotations.

Section Cursor.
  Variable I : Type.
  Variable is_rec : I -> bool.
  Variable stream : list I.

  (** the number of records at the front of a list of items *)
  Fixpoint run_len (l : list I) : nat :=
    match l with
    | i :: t => if is_rec i then S (run_len t) else 0
    | [] => 0
    end.

  (** records ahead of position [k], up to the first non-record item *)
  Definition recs_ahead (k : nat) : nat := run_len (skipn k stream).

  (** the [m] items from position [k] on *)
  Definition batch (k m : nat) : list I := firstn m (skipn k stream).

  (** index of the next undelivered item; [Done] after the error / the end *)
  Inductive cur := At (k : nat) | Done.

  Inductive cop := CNext | CSet | CSetExact (n : nat) | CSeek (k : nat).

  Inductive cout :=
  | CRec (i : I)            (* one record *)
  | CErr (i : I)            (* the error item *)
  | CEnd                    (* end of input *)
  | CBatch (l : list I)     (* a record set *)
  | COk.                    (* a seek *)

  Inductive cstep : cur -> cop -> cout -> cur -> Prop :=
  (* next *)
  | next_rec k i : nth_error stream k = Some i -> is_rec i = true ->
      cstep (At k) CNext (CRec i) (At (S k))
  | next_err k i : nth_error stream k = Some i -> is_rec i = false ->
      cstep (At k) CNext (CErr i) Done
  | next_end k : length stream <= k -> cstep (At k) CNext CEnd Done
  | next_done : cstep Done CNext CEnd Done
  (* read_record_set *)
  | set_batch k m : 1 <= m -> m <= recs_ahead k ->
      cstep (At k) CSet (CBatch (batch k m)) (At (k + m))
  | set_err k i : nth_error stream (k + recs_ahead k) = Some i ->
      cstep (At k) CSet (CErr i) Done
  | set_end k : length stream <= k -> cstep (At k) CSet CEnd Done
  | set_done : cstep Done CSet CEnd Done
  (* read_record_set_exact n *)
  | exact_batch k n m : m = Nat.min n (recs_ahead k) -> 1 <= m ->
      (m < n -> length stream <= k + m) ->
      cstep (At k) (CSetExact n) (CBatch (batch k m)) (At (k + m))
  | exact_err k n i : recs_ahead k < n -> nth_error stream (k + recs_ahead k) = Some i ->
      cstep (At k) (CSetExact n) (CErr i) Done
  | exact_end k n : length stream <= k -> cstep (At k) (CSetExact n) CEnd Done
  | exact_done n : cstep Done (CSetExact n) CEnd Done
  (* seek *)
  | seek_to c k : k < length stream -> cstep c (CSeek k) COk (At k).

  (* ---------------------------------------------------------------- *)
  (** * Histories of operations on one reader with two record-set slots

      [h_pos] is the index of the item whose coordinates [position()] reports
      ([None]: not specified): the record just returned by [next], the item
      the reader stands before after a set read or a seek, the error item
      after an error.  An index beyond the stream denotes no item. *)

  Inductive hop :=
  | HNext                               (* Reader::next *)
  | HOwned                              (* records() / into_records(): next + to_owned_record *)
  | HSet (slot : bool)                  (* read_record_set into a slot *)
  | HSetExact (slot : bool) (n : nat)   (* read_record_set_exact, n >= 1 *)
  | HIter (slot : bool)                 (* iterate over the slot's record set *)
  | HPos                                (* position() *)
  | HSeek (k : nat).                    (* seek to the position of item k *)

  Record hstate := mkH {
    h_cur : cur;
    h_pos : option nat;
    h_a : list I;       (* what slot [false] holds *)
    h_b : list I        (* what slot [true] holds *)
  }.

  Definition h_init : hstate := mkH (At 0) (Some 0) [] [].

  Definition h_slot (h : hstate) (s : bool) : list I := if s then h_b h else h_a h.
  Definition h_set_slot (h : hstate) (s : bool) (l : list I) : hstate :=
    if s then mkH (h_cur h) (h_pos h) (h_a h) l else mkH (h_cur h) (h_pos h) l (h_b h).
  Definition h_move (h : hstate) (c : cur) (p : option nat) : hstate :=
    mkH c p (h_a h) (h_b h).

  Inductive hout :=
  | HoRec (i : I)
  | HoOwned (i : I)
  | HoSet (l : list I)
  | HoIter (l : list I)
  | HoErr (i : I)
  | HoEnd
  | HoPos (i : option I)     (* the item whose coordinates are reported *)
  | HoOk.

  (** index of the item a read starting at [c] stops at when it fails *)
  Definition err_index (c : cur) : option nat :=
    match c with At k => Some (k + recs_ahead k) | Done => None end.
  Definition cur_index (c : cur) : option nat :=
    match c with At k => Some k | Done => None end.

  Definition set_op (n : option nat) : cop :=
    match n with None => CSet | Some k => CSetExact k end.
  Definition set_hop (s : bool) (n : option nat) : hop :=
    match n with None => HSet s | Some k => HSetExact s k end.

  Inductive hstep : hstate -> hop -> hout -> hstate -> Prop :=
  | h_next_rec h i c' : cstep (h_cur h) CNext (CRec i) c' ->
      hstep h HNext (HoRec i) (h_move h c' (cur_index (h_cur h)))
  | h_next_err h i c' : cstep (h_cur h) CNext (CErr i) c' ->
      hstep h HNext (HoErr i) (h_move h c' (cur_index (h_cur h)))
  | h_next_end h c' : cstep (h_cur h) CNext CEnd c' ->
      hstep h HNext HoEnd (h_move h c' None)
  | h_owned_rec h i c' : cstep (h_cur h) CNext (CRec i) c' ->
      hstep h HOwned (HoOwned i) (h_move h c' (cur_index (h_cur h)))
  | h_owned_err h i c' : cstep (h_cur h) CNext (CErr i) c' ->
      hstep h HOwned (HoErr i) (h_move h c' (cur_index (h_cur h)))
  | h_owned_end h c' : cstep (h_cur h) CNext CEnd c' ->
      hstep h HOwned HoEnd (h_move h c' None)
  (* a successful set read: the slot holds exactly the new batch; the position
     is that of the next unread item *)
  | h_set_batch h s n l c' : cstep (h_cur h) (set_op n) (CBatch l) c' ->
      hstep h (set_hop s n) (HoSet l)
            (h_set_slot (h_move h c' (cur_index c')) s l)
  (* a failed set read leaves the slot empty *)
  | h_set_err h s n i c' : cstep (h_cur h) (set_op n) (CErr i) c' ->
      hstep h (set_hop s n) (HoErr i)
            (h_set_slot (h_move h c' (err_index (h_cur h))) s [])
  (* at the end of the input the slot is emptied or (when the reader had
     already finished) left as it is *)
  | h_set_end h s n c' (keep : bool) : cstep (h_cur h) (set_op n) CEnd c' ->
      hstep h (set_hop s n) HoEnd
            (h_set_slot (h_move h c' None) s (if keep then h_slot h s else []))
  | h_iter h s : hstep h (HIter s) (HoIter (h_slot h s)) h
  | h_posq h : hstep h HPos
                     (HoPos (match h_pos h with Some j => nth_error stream j | None => None end)) h
  | h_seek h k c' : cstep (h_cur h) (CSeek k) COk c' ->
      hstep h (HSeek k) HoOk (h_move h c' (Some k)).

  (** a run of the machine over a history *)
  Inductive hrun : hstate -> list hop -> list hout -> hstate -> Prop :=
  | hrun_nil h : hrun h [] [] h
  | hrun_cons h op o h1 ops os h2 : hstep h op o h1 -> hrun h1 ops os h2 ->
      hrun h (op :: ops) (o :: os) h2.

  (** the histories considered: exact counts are positive, seeks go to items *)
  Definition hop_ok (op : hop) : Prop :=
    match op with
    | HSetExact _ n => 1 <= n
    | HSeek k => k < length stream
    | _ => True
    end.
End Cursor.

Arguments CRec {I} i.
Arguments CErr {I} i.
Arguments CEnd {I}.
Arguments CBatch {I} l.
Arguments COk {I}.
Arguments HoRec {I} i.
Arguments HoOwned {I} i.
Arguments HoSet {I} l.
Arguments HoIter {I} l.
Arguments HoErr {I} i.
Arguments HoEnd {I}.
Arguments HoPos {I} i.
Arguments HoOk {I}.
Arguments mkH {I} h_cur h_pos h_a h_b.
Arguments h_cur {I} h.
Arguments h_pos {I} h.
Arguments h_a {I} h.
Arguments h_b {I} h.
Arguments h_init {I}.
Arguments h_slot {I} h s.
Arguments h_set_slot {I} h s l.
Arguments h_move {I} h c p.
