(** Whole-input specification of FASTA parsing: no buffer, no capacity, no
    chunking.  The input is cut into lines; leading blank lines are skipped;
    the first non-blank line must start with '>'; every line starting with '>'
    opens a record.  Definitions only. *)
From SeqIO Require Import Model.Base.

(** lines of a text: the pieces between LFs, without a final empty piece *)
Definition lines_of (inp : list byte) : list (list byte) :=
  let ps := pieces inp in
  match last ps [] with
  | [] => removelast ps
  | _ => ps
  end.

(** (1-based line number, byte offset of the line start, line without LF) *)
Fixpoint numbered (ls : list (list byte)) (ln off : nat) : list (nat * nat * list byte) :=
  match ls with
  | [] => []
  | l :: r => (ln, off, l) :: numbered r (S ln) (off + length l + 1)
  end.

Definition blank (l : list byte) : bool :=
  match trim_cr l with [] => true | _ => false end.

Fixpoint skip_blank (ls : list (nat * nat * list byte)) : list (nat * nat * list byte) :=
  match ls with
  | [] => []
  | (ln, off, l) :: r => if blank l then skip_blank r else ls
  end.

Record fa_item := mkFaItem {
  fi_head : list byte;              (* header line without '>' and terminator *)
  fi_lines : list (list byte);      (* sequence lines without terminators *)
  fi_line : nat;                    (* 1-based line number of the header *)
  fi_byte : nat                     (* byte offset of '>' *)
}.

Inductive fa_sitem :=
| SRec (i : fa_item)
| SInvalidStart (line : nat) (found : byte).

Definition is_header (l : list byte) : bool :=
  match l with c :: _ => c =? GT | [] => false end.

(** group the lines: [cur] is the record being collected *)
Fixpoint fa_group (ls : list (nat * nat * list byte)) (cur : option fa_item) : list fa_item :=
  match ls with
  | [] => match cur with Some c => [c] | None => [] end
  | (ln, off, l) :: r =>
      if is_header l then
        match cur with Some c => [c] | None => [] end
        ++ fa_group r (Some (mkFaItem (trim_cr (tl l)) [] ln off))
      else
        fa_group r (option_map (fun c => mkFaItem (fi_head c) (fi_lines c ++ [trim_cr l])
                                                  (fi_line c) (fi_byte c)) cur)
  end.

(** The items a reader yields for [inp], in order; after them: end of input. *)
Definition fa_spec (inp : list byte) : list fa_sitem :=
  let ls := skip_blank (numbered (lines_of inp) 1 0) in
  match ls with
  | [] => []
  | (ln, off, l) :: _ =>
      if is_header l then map SRec (fa_group ls None)
      else match l with
           | c :: _ => [SInvalidStart ln c]
           | [] => []
           end
  end.

(** the records only *)
Definition fa_records (inp : list byte) : list fa_item :=
  flat_map (fun i => match i with SRec x => [x] | _ => [] end) (fa_spec inp).
