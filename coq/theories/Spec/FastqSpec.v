(** Whole-input specification of FASTQ parsing (four-line records).
    Definitions only. *)
From SeqIO Require Import Model.Base Spec.FastaSpec.

Record fq_item := mkFqItem {
  qi_head : list byte;
  qi_seq : list byte;
  qi_qual : list byte;
  qi_line : nat;         (* 1-based line number of the header line *)
  qi_byte : nat          (* byte offset of '@' *)
}.

Inductive fq_serr :=
| EUnequal (seq qual line : nat) (id : option (list byte))
| EInvalidStart (found : byte) (line : nat)
| EInvalidSep (found : byte) (line : nat) (id : option (list byte))
| EUnexpectedEnd (line : nat) (id : option (list byte)).

(** an error item carries the coordinates of the offending group's first line *)
Inductive fq_sitem :=
| QRec (i : fq_item)
| QErr (e : fq_serr) (line byte_ : nat).

(** cut one LF-terminated line off a text: (line, rest) *)
Fixpoint cut_line (l : list byte) : option (list byte * list byte) :=
  match l with
  | [] => None
  | c :: r => if c =? LF then Some ([], r)
              else match cut_line r with
                   | Some (a, b) => Some (c :: a, b)
                   | None => None
                   end
  end.

(** the id reported in errors: the header line without its first byte and
    terminator, up to the first space; absent when the line is empty *)
Definition err_id (hline : list byte) : option (list byte) :=
  match hline with
  | [] => None
  | _ :: t => Some (fst (split_sp (trim_cr t)))
  end.

Definition count_lf (l : list byte) : nat := length (filter (fun c => c =? LF) l).

(** [fq_spec fuel rest line byte]: the items for the text [rest] that starts
    at line [line], offset [byte]. *)
Fixpoint fq_spec (fuel : nat) (rest : list byte) (line byte_ : nat) : list fq_sitem :=
  match fuel with
  | 0 => []
  | S f =>
      match cut_line rest with
      | None => (* no LF left *)
          if forallb blank (pieces rest) then []
          else [QErr (EUnexpectedEnd line None) line byte_]
      | Some (h, r1) =>
          match cut_line r1 with
          | None =>
              if forallb blank (pieces rest) then []
              else [QErr (EUnexpectedEnd (line + 1) (err_id h)) line byte_]
          | Some (s, r2) =>
              match cut_line r2 with
              | None =>
                  if forallb blank (pieces rest) then []
                  else [QErr (EUnexpectedEnd (line + 2) (err_id h)) line byte_]
              | Some (p, r3) =>
                  (* three terminated lines; the fourth ends at the next LF or at the end *)
                  let '(q, r4, last) :=
                    match cut_line r3 with
                    | Some (q, r4) => (q, r4, false)
                    | None => (r3, [], true)
                    end in
                  let first := hd LF rest in      (* rest is non-empty here *)
                  if negb (first =? AT) then [QErr (EInvalidStart first line) line byte_]
                  else
                    let sepb := hd LF r2 in
                    if negb (sepb =? PLUS) then [QErr (EInvalidSep sepb (line + 2) (err_id h)) line byte_]
                    else if length (trim_cr s) =? length (trim_cr q) then
                      QRec (mkFqItem (trim_cr (tl h)) (trim_cr s) (trim_cr q) line byte_)
                      :: (if last then []
                          else fq_spec f r4 (line + 4)
                                       (byte_ + length h + length s + length p + length q + 4))
                    else [QErr (EUnequal (length (trim_cr s)) (length (trim_cr q)) line (err_id h)) line byte_]
              end
          end
      end
  end.

Definition fq_spec_all (inp : list byte) : list fq_sitem := fq_spec (S (length inp)) inp 1 0.
