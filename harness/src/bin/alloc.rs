//! C18: counts heap allocations around every reader call.
//! Case line: "al <fa|fq> <cap> <input hex> <mode> <warmup calls>" with mode next | set | x<n> (exact-count sets)
//! | m<k> (k calls of next(), then plain sets into one reused set)
//! Output per case: "al calls=<n> warm=<w> allocs_after_warm=<a> max_per_call=<m> grows_after_warm=<g> first_alloc_call=<i|-> records=<r>"
use std::alloc::{GlobalAlloc, Layout, System};
use std::cell::Cell;
use std::io::Write;
use std::rc::Rc;
use std::sync::atomic::{AtomicUsize, Ordering};

use seq_io::policy::BufPolicy;
use seq_io::{fasta, fastq};

struct Counting;
static ALLOCS: AtomicUsize = AtomicUsize::new(0);

unsafe impl GlobalAlloc for Counting {
    unsafe fn alloc(&self, l: Layout) -> *mut u8 {
        ALLOCS.fetch_add(1, Ordering::Relaxed);
        System.alloc(l)
    }
    unsafe fn dealloc(&self, p: *mut u8, l: Layout) {
        System.dealloc(p, l)
    }
    unsafe fn realloc(&self, p: *mut u8, l: Layout, n: usize) -> *mut u8 {
        ALLOCS.fetch_add(1, Ordering::Relaxed);
        System.realloc(p, l, n)
    }
}

#[global_allocator]
static A: Counting = Counting;

struct CountPol {
    grows: Rc<Cell<usize>>,
}
impl BufPolicy for CountPol {
    fn grow_to(&mut self, c: usize) -> Option<usize> {
        self.grows.set(self.grows.get() + 1);
        Some(if c < 1 << 23 { c * 2 } else { c + (1 << 23) })
    }
}

fn unhex(s: &str) -> Vec<u8> {
    if s == "-" {
        return vec![];
    }
    (0..s.len() / 2).map(|i| u8::from_str_radix(&s[2 * i..2 * i + 2], 16).unwrap()).collect()
}

fn main() {
    let path = std::env::args().nth(1).expect("usage: alloc <case file>");
    let text = std::fs::read_to_string(&path).unwrap();
    let mut lines_out: Vec<String> = Vec::with_capacity(1024);
    for (ci, line) in text.lines().filter(|l| !l.is_empty() && !l.starts_with('#')).enumerate() {
        let t: Vec<&str> = line.split(' ').collect();
        let fmt = t[1];
        let cap: usize = t[2].parse().unwrap();
        let inp = unhex(t[3]);
        let mode = t[4];
        // what the i-th call is: 0 = next(), 1 = read_record_set(), 2 = read_record_set_exact(n)
        let exact_n: usize = if mode.starts_with('x') { mode[1..].parse().unwrap() } else { 0 };
        let mixed_k: usize = if mode.starts_with('m') { mode[1..].parse().unwrap() } else { 0 };
        // kn<j>.<line>.<byte> / ks<j>.<line>.<byte>: single reads / plain set reads; the call with index i is a
        // seek to (line, byte) when i % j == j - 1, at most three times (kind 3)
        let (seek_j, seek_line, seek_byte, seek_sets) = if mode.starts_with('k') {
            let p: Vec<&str> = mode[2..].split('.').collect();
            (p[0].parse::<usize>().unwrap().max(1), p[1].parse::<u64>().unwrap(), p[2].parse::<u64>().unwrap(), &mode[1..2] == "s")
        } else {
            (0usize, 0u64, 0u64, false)
        };
        let seeks_left = Cell::new(3usize);
        let kind_of = |i: usize| -> u8 {
            if seek_j > 0 {
                if seeks_left.get() > 0 && i % seek_j == seek_j - 1 { seeks_left.set(seeks_left.get() - 1); 3 }
                else if seek_sets { 1 } else { 0 }
            } else if mode == "next" { 0 } else if mode == "set" { 1 } else if mode.starts_with('x') { 2 }
            else if i < mixed_k { 0 } else { 1 }
        };
        let warm: usize = t[5].parse().unwrap();
        let grows = Rc::new(Cell::new(0usize));
        let mut deltas: Vec<usize> = Vec::with_capacity(4096);
        let mut grow_at: Vec<usize> = Vec::with_capacity(4096);
        let mut records = 0usize;
        let mut sink = 0usize;
        if fmt == "fa" {
            let mut rd = fasta::Reader::with_capacity(std::io::Cursor::new(&inp[..]), cap).set_policy(CountPol { grows: grows.clone() });
            let mut set = fasta::RecordSet::default();
            loop {
                let before = ALLOCS.load(Ordering::Relaxed);
                let kind = kind_of(deltas.len());
                let more = if kind == 3 {
                    rd.seek(&fasta::Position::new(seek_line, seek_byte)).is_ok()
                } else if kind == 0 {
                    match rd.next() {
                        Some(Ok(rec)) => {
                            use fasta::Record;
                            sink += rec.head().len() + rec.seq_lines().map(|l| l.len()).sum::<usize>() + rec.num_seq_lines();
                            records += 1;
                            true
                        }
                        _ => false,
                    }
                } else {
                    let res = if kind == 2 { rd.read_record_set_exact(&mut set, Some(exact_n)) } else { rd.read_record_set(&mut set) };
                    match res {
                        Some(Ok(())) => {
                            use fasta::Record;
                            for rec in &set {
                                sink += rec.head().len() + rec.seq_lines().map(|l| l.len()).sum::<usize>();
                                records += 1;
                            }
                            true
                        }
                        _ => false,
                    }
                };
                let after = ALLOCS.load(Ordering::Relaxed);
                if !more {
                    break;
                }
                deltas.push(after - before);
                grow_at.push(grows.get());
                if deltas.len() >= 4000 {
                    break;
                }
            }
        } else {
            let mut rd = fastq::Reader::with_capacity(std::io::Cursor::new(&inp[..]), cap).set_policy(CountPol { grows: grows.clone() });
            let mut set = fastq::RecordSet::default();
            loop {
                let before = ALLOCS.load(Ordering::Relaxed);
                let kind = kind_of(deltas.len());
                let more = if kind == 3 {
                    rd.seek(&fastq::Position::new(seek_line, seek_byte)).is_ok()
                } else if kind == 0 {
                    match rd.next() {
                        Some(Ok(rec)) => {
                            use fastq::Record;
                            sink += rec.head().len() + rec.seq().len() + rec.qual().len();
                            records += 1;
                            true
                        }
                        _ => false,
                    }
                } else {
                    let res = if kind == 2 { rd.read_record_set_exact(&mut set, Some(exact_n)) } else { rd.read_record_set(&mut set) };
                    match res {
                        Some(Ok(())) => {
                            use fastq::Record;
                            for rec in &set {
                                sink += rec.head().len() + rec.seq().len() + rec.qual().len();
                                records += 1;
                            }
                            true
                        }
                        _ => false,
                    }
                };
                let after = ALLOCS.load(Ordering::Relaxed);
                if !more {
                    break;
                }
                deltas.push(after - before);
                grow_at.push(grows.get());
                if deltas.len() >= 4000 {
                    break;
                }
            }
        }
        let w = warm.min(deltas.len());
        let after: usize = deltas[w..].iter().sum();
        let maxd = deltas[w..].iter().cloned().max().unwrap_or(0);
        let g0 = if w == 0 { 0 } else { grow_at[w - 1] };
        let gl = grow_at.last().cloned().unwrap_or(0);
        let first = deltas[w..].iter().position(|d| *d > 0).map(|i| (i + w).to_string()).unwrap_or_else(|| "-".to_string());
        lines_out.push(format!(
            "#case {}\nal calls={} warm={} allocs_after_warm={} max_per_call={} grows_after_warm={} first_alloc_call={} records={} sink={} meas={}",
            ci, deltas.len(), w, after, maxd, gl - g0, first, records, sink % 7,
            deltas.iter().map(|d| if *d > 0 { '1' } else { '0' }).collect::<String>()
        ));
    }
    let stdout = std::io::stdout();
    let mut o = stdout.lock();
    for l in lines_out {
        writeln!(o, "{}", l).unwrap();
    }
}
