//! Reader/writer harness: reads case lines (same syntax as the Coq model's
//! `run_line`), drives the real seq_io API and prints canonical trace lines.
//!
//! usage: rh <case file>
use std::cell::RefCell;
use std::collections::VecDeque;
use std::io::{self, Read, Seek, SeekFrom, Write};
use std::panic::{catch_unwind, AssertUnwindSafe};
use std::rc::Rc;
use std::sync::atomic::{AtomicU64, AtomicUsize, Ordering};
use std::sync::Arc;

use seq_io::policy::{BufPolicy, DoubleUntil, DoubleUntilLimited, StdPolicy};
use seq_io::{fasta, fastq};

type Log = Rc<RefCell<Vec<String>>>;

const KINDS: &[io::ErrorKind] = &[
    io::ErrorKind::Other,
    io::ErrorKind::NotFound,
    io::ErrorKind::PermissionDenied,
    io::ErrorKind::ConnectionReset,
    io::ErrorKind::UnexpectedEof,
    io::ErrorKind::InvalidData,
    io::ErrorKind::TimedOut,
    io::ErrorKind::WouldBlock,
    io::ErrorKind::BrokenPipe,
];

fn kind_of(k: usize) -> io::ErrorKind {
    KINDS[k % KINDS.len()]
}
fn kind_idx(k: io::ErrorKind) -> String {
    match KINDS.iter().position(|x| *x == k) {
        Some(i) => i.to_string(),
        None => format!("?{:?}", k),
    }
}

fn hex(b: &[u8]) -> String {
    let mut s = String::with_capacity(b.len() * 2);
    for x in b {
        s.push_str(&format!("{:02x}", x));
    }
    s
}
/// An `io::Write` that accepts only a few bytes per `write` call (1, 2, 3, 7, then everything,
/// cycling) and implements nothing but `write`/`flush` (so `write_vectored` is the default: first
/// non-empty slice only).  Legal behaviour for a writer; a library that uses `write_all` produces
/// the same bytes as with a `Vec`.
struct ShortW {
    v: Vec<u8>,
    max: usize,
}
static SHORTW_CTR: AtomicUsize = AtomicUsize::new(0);
impl ShortW {
    fn new() -> ShortW {
        let k = SHORTW_CTR.fetch_add(1, Ordering::Relaxed);
        ShortW { v: vec![], max: [1usize, 2, 3, 7, usize::MAX][k % 5] }
    }
}
impl Write for ShortW {
    fn write(&mut self, b: &[u8]) -> io::Result<usize> {
        let n = b.len().min(self.max);
        self.v.extend_from_slice(&b[..n]);
        Ok(n)
    }
    fn flush(&mut self) -> io::Result<()> {
        Ok(())
    }
}

/// Iterator contract of a record-set iterator (C20): after every item taken the size hint brackets the
/// number of items still to come (`n` items in all), `None` comes exactly after the n-th item and is
/// repeated afterwards.
fn iter_contract_ok<I: Iterator>(mut it: I, n: usize) -> bool {
    for k in 0..=n {
        let (lo, hi) = it.size_hint();
        let rem = n - k;
        if lo > rem || hi.map_or(false, |h| h < rem) {
            return false;
        }
        let x = it.next();
        if (k < n) != x.is_some() {
            return false;
        }
    }
    let (lo, _) = it.size_hint();
    lo == 0 && it.next().is_none() && it.next().is_none()
}

fn unhex(s: &str) -> Vec<u8> {
    if s == "-" {
        return vec![];
    }
    (0..s.len() / 2)
        .map(|i| u8::from_str_radix(&s[2 * i..2 * i + 2], 16).unwrap())
        .collect()
}
fn list(s: &str) -> Vec<&str> {
    if s == "-" {
        vec![]
    } else {
        s.split(',').collect()
    }
}

#[derive(Clone, Debug)]
enum RItem {
    Deliver(usize),
    Interrupt,
    /// returns Ok(0) although data remains (a source that is appended to later); not part of the model
    Zero,
    Fail(usize),
}
#[derive(Clone, Debug)]
enum SItem {
    Ok,
    Fail(usize),
}

struct Src {
    data: Vec<u8>,
    pos: usize,
    rs: VecDeque<RItem>,
    ss: VecDeque<SItem>,
    log: Log,
}

impl Read for Src {
    fn read(&mut self, buf: &mut [u8]) -> io::Result<usize> {
        let offered = buf.len();
        let remaining = self.data.len().saturating_sub(self.pos);
        let n = match self.rs.pop_front() {
            None => offered.min(remaining),
            Some(RItem::Deliver(m)) => (m + 1).min(offered).min(remaining),
            Some(RItem::Zero) => 0,
            Some(RItem::Interrupt) => {
                self.log.borrow_mut().push(format!("r{}:I", offered));
                return Err(io::Error::new(io::ErrorKind::Interrupted, "interrupted"));
            }
            Some(RItem::Fail(k)) => {
                self.log.borrow_mut().push(format!("r{}:F{}", offered, k));
                return Err(io::Error::new(kind_of(k), "injected"));
            }
        };
        if n > 0 {
            buf[..n].copy_from_slice(&self.data[self.pos..self.pos + n]);
        }
        self.pos += n;
        self.log.borrow_mut().push(format!("r{}:{}", offered, n));
        Ok(n)
    }
}

impl Seek for Src {
    fn seek(&mut self, to: SeekFrom) -> io::Result<u64> {
        let p = match to {
            SeekFrom::Start(p) => p as usize,
            other => panic!("harness: unexpected seek {:?}", other),
        };
        match self.ss.pop_front() {
            None | Some(SItem::Ok) => {
                self.pos = p;
                self.log.borrow_mut().push(format!("s{}:o", p));
                Ok(p as u64)
            }
            Some(SItem::Fail(k)) => {
                self.log.borrow_mut().push(format!("s{}:F{}", p, k));
                Err(io::Error::new(kind_of(k), "injected"))
            }
        }
    }
}

#[derive(Clone, Debug)]
enum PolSpec {
    Std,
    Du(usize),
    Dul(usize, usize),
    Ref,
    Plus(usize, usize),
    Scr(Vec<Option<usize>>),
}

struct HangBudget;

struct HPol {
    spec: PolSpec,
    calls: usize,
    log: Log,
}

impl BufPolicy for HPol {
    fn grow_to(&mut self, cur: usize) -> Option<usize> {
        if self.calls > 100_000 {
            std::panic::panic_any(HangBudget);
        }
        let r = match &self.spec {
            PolSpec::Std => StdPolicy.grow_to(cur),
            PolSpec::Du(a) => DoubleUntil(*a).grow_to(cur),
            PolSpec::Dul(a, b) => DoubleUntilLimited::new(*a, *b).grow_to(cur),
            PolSpec::Ref => None,
            PolSpec::Plus(k, lim) => {
                if cur + k <= *lim {
                    Some(cur + k)
                } else {
                    None
                }
            }
            PolSpec::Scr(v) => v.get(self.calls).copied().flatten(),
        };
        self.calls += 1;
        self.log.borrow_mut().push(match r {
            Some(n) => format!("g{}:{}", cur, n),
            None => format!("g{}:n", cur),
        });
        r
    }
}

fn parse_pol(s: &str) -> PolSpec {
    let p: Vec<&str> = s.split('.').collect();
    match p[0] {
        "std" => PolSpec::Std,
        "du" => PolSpec::Du(p[1].parse().unwrap()),
        "dul" => PolSpec::Dul(p[1].parse().unwrap(), p[2].parse().unwrap()),
        "ref" => PolSpec::Ref,
        "plus" => PolSpec::Plus(p[1].parse().unwrap(), p[2].parse().unwrap()),
        "scr" => PolSpec::Scr(
            p[1..]
                .iter()
                .map(|r| if *r == "n" { None } else { Some(r.parse().unwrap()) })
                .collect(),
        ),
        _ => PolSpec::Std,
    }
}

#[derive(Clone, Debug)]
enum Op {
    Next,
    Owned,
    Lines(String),
    Set(usize),
    SetExact(usize, usize),
    Iter(usize),
    Seek(u64, u64),
    SeekSaved(usize),
    Pos,
    SetPolicy(PolSpec),
    SerSet(usize),
    SerOwned,
    Bad,
}

fn parse_op(s: &str) -> Op {
    let (c, r) = s.split_at(1);
    match c {
        "N" if r.is_empty() => Op::Next,
        "O" if r.is_empty() => Op::Owned,
        "M" => Op::Lines(r.to_string()),
        "S" => Op::Set(r.parse().unwrap()),
        "E" => {
            let p: Vec<&str> = r.split('.').collect();
            Op::SetExact(p[0].parse().unwrap(), p[1].parse().unwrap())
        }
        "I" => Op::Iter(r.parse().unwrap()),
        "K" => {
            let p: Vec<&str> = r.split('.').collect();
            Op::Seek(p[0].parse().unwrap(), p[1].parse().unwrap())
        }
        "J" => Op::SeekSaved(r.parse().unwrap()),
        "P" if r.is_empty() => Op::Pos,
        "Y" => Op::SetPolicy(parse_pol(r)),
        "Z" => Op::SerSet(r.parse().unwrap()),
        "Q" if r.is_empty() => Op::SerOwned,
        _ => Op::Bad,
    }
}

fn head_views<'a>(
    id_bytes: &[u8],
    desc_bytes: Option<&[u8]>,
    id: Result<&str, std::str::Utf8Error>,
    desc: Option<Result<&str, std::str::Utf8Error>>,
    id_desc: Result<(&str, Option<&str>), std::str::Utf8Error>,
    idb: (&[u8], Option<&[u8]>),
) -> String {
    let mut s = String::new();
    s.push_str(&format!(" id={}", hex(id_bytes)));
    s.push_str(&match desc_bytes {
        None => " desc=-".to_string(),
        Some(d) => format!(" desc=={}", hex(d)),
    });
    s.push_str(&match id {
        Ok(x) => format!(" ids={}", hex(x.as_bytes())),
        Err(_) => " ids=!".to_string(),
    });
    s.push_str(&match desc {
        None => " descs=-".to_string(),
        Some(Err(_)) => " descs=!".to_string(),
        Some(Ok(d)) => format!(" descs=={}", hex(d.as_bytes())),
    });
    s.push_str(&match id_desc {
        Err(_) => " idd=!".to_string(),
        Ok((i, None)) => format!(" idd={}:-", hex(i.as_bytes())),
        Ok((i, Some(d))) => format!(" idd={}:={}", hex(i.as_bytes()), hex(d.as_bytes())),
    });
    s.push_str(&match idb {
        (i, None) => format!(" idb={}:-", hex(i)),
        (i, Some(d)) => format!(" idb={}:={}", hex(i), hex(d)),
    });
    s
}

fn lines_str<'a, I: Iterator<Item = &'a [u8]>>(it: I) -> String {
    let mut s = String::new();
    for l in it {
        s.push('/');
        s.push_str(&hex(l));
    }
    s
}

fn dump_fa(rec: &fasta::RefRecord) -> String {
    use fasta::Record;
    let mut s = format!("rec h={}", hex(rec.head()));
    s.push_str(&format!(" l={}", lines_str(rec.seq_lines())));
    s.push_str(&format!(" rl={}", lines_str(rec.seq_lines().rev())));
    s.push_str(&format!(" raw={}", hex(rec.seq())));
    s.push_str(&format!(" n={}", rec.num_seq_lines()));
    s.push_str(&match rec.full_seq() {
        std::borrow::Cow::Borrowed(b) => format!(" full=B{}", hex(b)),
        std::borrow::Cow::Owned(o) => format!(" full=O{}", hex(&o)),
    });
    let o = rec.to_owned_record();
    // the owned record must expose the same values through the trait
    s.push_str(&format!(" own={}.{}", hex(o.head()), hex(o.seq())));
    s.push_str(&head_views(
        rec.id_bytes(),
        rec.desc_bytes(),
        rec.id(),
        rec.desc(),
        rec.id_desc(),
        rec.id_desc_bytes(),
    ));
    let mut v = ShortW::new();
    rec.write_unchanged(&mut v).unwrap();
    s.push_str(&format!(" wu={}", hex(&v.v)));
    let mut v = ShortW::new();
    rec.write(&mut v).unwrap();
    s.push_str(&format!(" w={}", hex(&v.v)));
    let mut v = ShortW::new();
    rec.write_wrap(&mut v, 3).unwrap();
    s.push_str(&format!(" ww={}", hex(&v.v)));
    // owned-record views must agree with the borrowed ones
    let ov = head_views(
        o.id_bytes(),
        o.desc_bytes(),
        o.id(),
        o.desc(),
        o.id_desc(),
        o.id_desc_bytes(),
    );
    let bv = head_views(
        rec.id_bytes(),
        rec.desc_bytes(),
        rec.id(),
        rec.desc(),
        rec.id_desc(),
        rec.id_desc_bytes(),
    );
    if ov != bv {
        s.push_str(" OWNED-VIEWS-DIFFER");
    }
    s
}

fn dump_fq(rec: &fastq::RefRecord) -> String {
    use fastq::Record;
    let mut s = format!("rec h={} s={} q={}", hex(rec.head()), hex(rec.seq()), hex(rec.qual()));
    s.push_str(&head_views(
        rec.id_bytes(),
        rec.desc_bytes(),
        rec.id(),
        rec.desc(),
        rec.id_desc(),
        rec.id_desc_bytes(),
    ));
    let mut v = ShortW::new();
    rec.write_unchanged(&mut v).unwrap();
    s.push_str(&format!(" wu={}", hex(&v.v)));
    let mut v = ShortW::new();
    rec.write(&mut v).unwrap();
    s.push_str(&format!(" w={}", hex(&v.v)));
    let o = rec.to_owned_record();
    if o.head() != rec.head() || o.seq() != rec.seq() || o.qual() != rec.qual() {
        s.push_str(" OWNED-DIFFERS");
    }
    let mut v2 = ShortW::new();
    o.write(&mut v2).unwrap();
    if v2.v != v.v {
        s.push_str(" OWNED-WRITE-DIFFERS");
    }
    s
}

fn id_str(id: &Option<String>) -> String {
    match id {
        None => "-".to_string(),
        Some(s) => format!("={}", hex(s.as_bytes())),
    }
}

fn fa_err(e: &fasta::Error) -> String {
    let m = format!(" m={}", hex(e.to_string().as_bytes()));
    match e {
        fasta::Error::Io(e) => format!("err io {}", kind_idx(e.kind())),
        fasta::Error::InvalidStart { line, found } => format!("err fa_is {} {}{}", line, found, m),
        fasta::Error::BufferLimit => format!("err buflimit{}", m),
    }
}

fn fq_err(e: &fastq::Error) -> String {
    let m = format!(" m={}", hex(e.to_string().as_bytes()));
    match e {
        fastq::Error::Io(e) => format!("err io {}", kind_idx(e.kind())),
        fastq::Error::BufferLimit => format!("err buflimit{}", m),
        fastq::Error::InvalidStart { found, pos } => {
            format!("err fq_is {} {} {}{}", found, pos.line, id_str(&pos.id), m)
        }
        fastq::Error::InvalidSep { found, pos } => {
            format!("err fq_sep {} {} {}{}", found, pos.line, id_str(&pos.id), m)
        }
        fastq::Error::UnequalLengths { seq, qual, pos } => {
            format!("err fq_len {} {} {} {}{}", seq, qual, pos.line, id_str(&pos.id), m)
        }
        fastq::Error::UnexpectedEnd { pos } => {
            format!("err fq_end {} {}{}", pos.line, id_str(&pos.id), m)
        }
    }
}

fn steps_str(steps: &str, rec: &fasta::RefRecord) -> String {
    let mut it = rec.seq_lines();
    let mut s = String::from("steps");
    for c in steps.chars() {
        match c {
            'f' => s.push_str(&match it.next() {
                None => " f-".to_string(),
                Some(l) => format!(" f={}", hex(l)),
            }),
            'b' => s.push_str(&match it.next_back() {
                None => " b-".to_string(),
                Some(l) => format!(" b={}", hex(l)),
            }),
            _ => {
                let (lo, hi) = it.size_hint();
                s.push_str(&format!(
                    " l{}:{}:{}",
                    it.len(),
                    lo,
                    match hi {
                        Some(h) => h.to_string(),
                        None => "-".to_string(),
                    }
                ));
            }
        }
    }
    s
}

fn set_str(n: usize, recs: Vec<String>) -> String {
    let _ = n;
    format!("set {} [{}]", recs.len(), recs.join("|"))
}

fn drain(log: &Log) -> String {
    let v: Vec<String> = log.borrow_mut().drain(..).collect();
    format!(" ev={}", v.join(","))
}

enum Outcome {
    Line(String),
    Panic,
    Hang,
}

fn guarded<F: FnOnce() -> String>(f: F) -> Outcome {
    match catch_unwind(AssertUnwindSafe(f)) {
        Ok(s) => Outcome::Line(s),
        Err(p) => {
            if p.downcast_ref::<HangBudget>().is_some() {
                Outcome::Hang
            } else {
                Outcome::Panic
            }
        }
    }
}

fn run_fa(out: &mut dyn Write, cap: usize, src: Src, pol: PolSpec, ops: &[Op], log: Log) {
    let hp = HPol { spec: pol, calls: 0, log: log.clone() };
    // the default constructor where the case asks for the default capacity (BUFSIZE = 64 KiB, Gen/ConstGen.v)
    let mut reader =
        Some(if cap == 65536 { fasta::Reader::new(src).set_policy(hp) } else { fasta::Reader::with_capacity(src, cap).set_policy(hp) });
    let mut sets = vec![fasta::RecordSet::default(), fasta::RecordSet::default()];
    let mut saved: Vec<fasta::Position> = vec![];
    for op in ops {
        let name;
        let res = {
            let rd = reader.as_mut().unwrap();
            match op {
                Op::Next => {
                    name = "N".to_string();
                    guarded(|| match rd.next() {
                        None => "none".to_string(),
                        Some(Err(e)) => fa_err(&e),
                        Some(Ok(rec)) => dump_fa(&rec),
                    })
                }
                Op::Owned => {
                    name = "O".to_string();
                    guarded(|| match rd.records().next() {
                        None => "none".to_string(),
                        Some(Err(e)) => fa_err(&e),
                        Some(Ok(o)) => format!("own {}.{}", hex(&o.head), hex(&o.seq)),
                    })
                }
                Op::Lines(steps) => {
                    name = "M".to_string();
                    guarded(|| match rd.next() {
                        None => "none".to_string(),
                        Some(Err(e)) => fa_err(&e),
                        Some(Ok(rec)) => steps_str(steps, &rec),
                    })
                }
                Op::Set(slot) => {
                    name = format!("S{}", slot);
                    let set = &mut sets[*slot];
                    guarded(|| match rd.read_record_set(set) {
                        None => "none".to_string(),
                        Some(Err(e)) => fa_err(&e),
                        Some(Ok(())) => {
                            let n = set.len();
                            let recs: Vec<String> = (&*set).into_iter().map(|r| dump_fa(&r)).collect();
                            if n != recs.len() || set.is_empty() != (n == 0) {
                                return format!("set-len-mismatch {} {}", n, recs.len());
                            }
                            if !iter_contract_ok((&*set).into_iter(), n) {
                                return "set-iter-contract-broken".to_string();
                            }
                            set_str(n, recs)
                        }
                    })
                }
                Op::SetExact(slot, n) => {
                    name = format!("E{}.{}", slot, n);
                    let set = &mut sets[*slot];
                    guarded(|| match rd.read_record_set_exact(set, Some(*n)) {
                        None => "none".to_string(),
                        Some(Err(e)) => fa_err(&e),
                        Some(Ok(())) => {
                            let n = set.len();
                            let recs: Vec<String> = (&*set).into_iter().map(|r| dump_fa(&r)).collect();
                            if n != recs.len() || set.is_empty() != (n == 0) {
                                return format!("set-len-mismatch {} {}", n, recs.len());
                            }
                            if !iter_contract_ok((&*set).into_iter(), n) {
                                return "set-iter-contract-broken".to_string();
                            }
                            set_str(n, recs)
                        }
                    })
                }
                Op::Iter(slot) => {
                    name = format!("I{}", slot);
                    let set = &mut sets[*slot];
                    guarded(|| {
                        // re-iteration of a kept set; releasing its spare capacity in between must not change what it holds
                        let before: Vec<String> = (&*set).into_iter().map(|r| dump_fa(&r)).collect();
                        set.shrink_buffer_to_fit();
                        let _ = set.buf_capacity();
                        let set = &*set;
                        let recs: Vec<String> = set.into_iter().map(|r| dump_fa(&r)).collect();
                        if recs != before {
                            return "set-iter-contract-broken: contents changed by shrink_buffer_to_fit".to_string();
                        }
                        if !iter_contract_ok(set.into_iter(), set.len()) {
                            return "set-iter-contract-broken".to_string();
                        }
                        set_str(set.len(), recs)
                    })
                }
                Op::Seek(l, b) => {
                    name = format!("K{}.{}", l, b);
                    guarded(|| match rd.seek(&fasta::Position::new(*l, *b)) {
                        Ok(()) => "ok".to_string(),
                        Err(e) => fa_err(&e),
                    })
                }
                Op::SeekSaved(i) => {
                    name = format!("J{}", i);
                    if saved.is_empty() {
                        Outcome::Line("nopos".to_string())
                    } else {
                        let p = saved[i % saved.len()].clone();
                        guarded(|| match rd.seek(&p) {
                            Ok(()) => "ok".to_string(),
                            Err(e) => fa_err(&e),
                        })
                    }
                }
                Op::Pos => {
                    name = "P".to_string();
                    if let Some(p) = rd.position() {
                        saved.push(p.clone());
                    }
                    Outcome::Line("pos".to_string())
                }
                Op::SerSet(slot) => {
                    name = format!("Z{}", slot);
                    let set = &sets[*slot];
                    guarded(|| {
                        let text = serde_json::to_string(set).unwrap();
                        let back: fasta::RecordSet = serde_json::from_str(&text).unwrap();
                        let recs: Vec<String> = (&back).into_iter().map(|r| dump_fa(&r)).collect();
                        set_str(back.len(), recs)
                    })
                }
                Op::SerOwned => {
                    name = "Q".to_string();
                    guarded(|| match rd.next() {
                        None => "none".to_string(),
                        Some(Err(e)) => fa_err(&e),
                        Some(Ok(rec)) => {
                            let o = rec.to_owned_record();
                            let text = serde_json::to_string(&o).unwrap();
                            let back: fasta::OwnedRecord = serde_json::from_str(&text).unwrap();
                            if back != o {
                                return "ser-owned-differs".to_string();
                            }
                            format!("own {}.{}", hex(&back.head), hex(&back.seq))
                        }
                    })
                }
                Op::SetPolicy(_) | Op::Bad => {
                    name = "Y".to_string();
                    Outcome::Line("ok".to_string())
                }
            }
        };
        if let Op::SetPolicy(p) = op {
            let hp = HPol { spec: p.clone(), calls: 0, log: log.clone() };
            reader = Some(reader.take().unwrap().set_policy(hp));
        }
        match res {
            Outcome::Line(s) => {
                let pos = match reader.as_ref().unwrap().position() {
                    None => " @-".to_string(),
                    Some(p) => format!(" @{}:{}", p.line(), p.byte()),
                };
                writeln!(out, "{} {}{}{}", name, s, pos, drain(&log)).unwrap();
            }
            Outcome::Panic => {
                writeln!(out, "{} panic", name).unwrap();
                return;
            }
            Outcome::Hang => {
                writeln!(out, "{} hang", name).unwrap();
                return;
            }
        }
    }
}

fn run_fq(out: &mut dyn Write, cap: usize, src: Src, pol: PolSpec, ops: &[Op], log: Log) {
    let hp = HPol { spec: pol, calls: 0, log: log.clone() };
    let mut reader =
        Some(if cap == 65536 { fastq::Reader::new(src).set_policy(hp) } else { fastq::Reader::with_capacity(src, cap).set_policy(hp) });
    let mut sets = vec![fastq::RecordSet::default(), fastq::RecordSet::default()];
    let mut saved: Vec<fastq::Position> = vec![];
    for op in ops {
        let name;
        let res = {
            let rd = reader.as_mut().unwrap();
            match op {
                Op::Next | Op::Lines(_) => {
                    name = "N".to_string();
                    guarded(|| match rd.next() {
                        None => "none".to_string(),
                        Some(Err(e)) => fq_err(&e),
                        Some(Ok(rec)) => dump_fq(&rec),
                    })
                }
                Op::Owned => {
                    name = "O".to_string();
                    guarded(|| match rd.records().next() {
                        None => "none".to_string(),
                        Some(Err(e)) => fq_err(&e),
                        Some(Ok(o)) => format!("own {}.{}.{}", hex(&o.head), hex(&o.seq), hex(&o.qual)),
                    })
                }
                Op::Set(slot) => {
                    name = format!("S{}", slot);
                    let set = &mut sets[*slot];
                    guarded(|| match rd.read_record_set(set) {
                        None => "none".to_string(),
                        Some(Err(e)) => fq_err(&e),
                        Some(Ok(())) => {
                            let n = set.len();
                            let recs: Vec<String> = (&*set).into_iter().map(|r| dump_fq(&r)).collect();
                            if n != recs.len() || set.is_empty() != (n == 0) {
                                return format!("set-len-mismatch {} {}", n, recs.len());
                            }
                            if !iter_contract_ok((&*set).into_iter(), n) {
                                return "set-iter-contract-broken".to_string();
                            }
                            set_str(n, recs)
                        }
                    })
                }
                Op::SetExact(slot, n) => {
                    name = format!("E{}.{}", slot, n);
                    let set = &mut sets[*slot];
                    guarded(|| match rd.read_record_set_exact(set, Some(*n)) {
                        None => "none".to_string(),
                        Some(Err(e)) => fq_err(&e),
                        Some(Ok(())) => {
                            let n = set.len();
                            let recs: Vec<String> = (&*set).into_iter().map(|r| dump_fq(&r)).collect();
                            if n != recs.len() || set.is_empty() != (n == 0) {
                                return format!("set-len-mismatch {} {}", n, recs.len());
                            }
                            if !iter_contract_ok((&*set).into_iter(), n) {
                                return "set-iter-contract-broken".to_string();
                            }
                            set_str(n, recs)
                        }
                    })
                }
                Op::Iter(slot) => {
                    name = format!("I{}", slot);
                    let set = &mut sets[*slot];
                    guarded(|| {
                        // re-iteration of a kept set; releasing its spare capacity in between must not change what it holds
                        let before: Vec<String> = (&*set).into_iter().map(|r| dump_fq(&r)).collect();
                        set.shrink_buffer_to_fit();
                        let _ = set.buf_capacity();
                        let set = &*set;
                        let recs: Vec<String> = set.into_iter().map(|r| dump_fq(&r)).collect();
                        if recs != before {
                            return "set-iter-contract-broken: contents changed by shrink_buffer_to_fit".to_string();
                        }
                        if !iter_contract_ok(set.into_iter(), set.len()) {
                            return "set-iter-contract-broken".to_string();
                        }
                        set_str(set.len(), recs)
                    })
                }
                Op::Seek(l, b) => {
                    name = format!("K{}.{}", l, b);
                    guarded(|| match rd.seek(&fastq::Position::new(*l, *b)) {
                        Ok(()) => "ok".to_string(),
                        Err(e) => fq_err(&e),
                    })
                }
                Op::SeekSaved(i) => {
                    name = format!("J{}", i);
                    if saved.is_empty() {
                        Outcome::Line("nopos".to_string())
                    } else {
                        let p = saved[i % saved.len()].clone();
                        guarded(|| match rd.seek(&p) {
                            Ok(()) => "ok".to_string(),
                            Err(e) => fq_err(&e),
                        })
                    }
                }
                Op::Pos => {
                    name = "P".to_string();
                    saved.push(rd.position().clone());
                    Outcome::Line("pos".to_string())
                }
                Op::SerSet(slot) => {
                    name = format!("Z{}", slot);
                    let set = &sets[*slot];
                    guarded(|| {
                        let text = serde_json::to_string(set).unwrap();
                        let back: fastq::RecordSet = serde_json::from_str(&text).unwrap();
                        let recs: Vec<String> = (&back).into_iter().map(|r| dump_fq(&r)).collect();
                        set_str(back.len(), recs)
                    })
                }
                Op::SerOwned => {
                    name = "Q".to_string();
                    guarded(|| match rd.next() {
                        None => "none".to_string(),
                        Some(Err(e)) => fq_err(&e),
                        Some(Ok(rec)) => {
                            let o = rec.to_owned_record();
                            let text = serde_json::to_string(&o).unwrap();
                            let back: fastq::OwnedRecord = serde_json::from_str(&text).unwrap();
                            if back != o {
                                return "ser-owned-differs".to_string();
                            }
                            format!("own {}.{}.{}", hex(&back.head), hex(&back.seq), hex(&back.qual))
                        }
                    })
                }
                Op::SetPolicy(_) | Op::Bad => {
                    name = "Y".to_string();
                    Outcome::Line("ok".to_string())
                }
            }
        };
        if let Op::SetPolicy(p) = op {
            let hp = HPol { spec: p.clone(), calls: 0, log: log.clone() };
            reader = Some(reader.take().unwrap().set_policy(hp));
        }
        match res {
            Outcome::Line(s) => {
                let p = reader.as_ref().unwrap().position();
                writeln!(out, "{} {} @{}:{}{}", name, s, p.line(), p.byte(), drain(&log)).unwrap();
            }
            Outcome::Panic => {
                writeln!(out, "{} panic", name).unwrap();
                return;
            }
            Outcome::Hang => {
                writeln!(out, "{} hang", name).unwrap();
                return;
            }
        }
    }
}

fn split_head(head: &[u8]) -> (&[u8], Option<&[u8]>) {
    match head.iter().position(|b| *b == b' ') {
        Some(i) => (&head[..i], Some(&head[i + 1..])),
        None => (head, None),
    }
}

/// A generated input that is never materialised: record k of the FASTA form is ">" + 14-digit k + LF + 15 letters
/// derived from k + LF (32 bytes); the FASTQ form appends "+" + 14-digit k + LF + 15 quality bytes + LF (64 bytes).
struct VirtSrc {
    pos: u64,
    nrec: u64,
    fq: bool,
}

impl VirtSrc {
    fn rec_len(&self) -> u64 {
        if self.fq {
            64
        } else {
            32
        }
    }
    fn byte_at(&self, off: u64) -> u8 {
        let k = off / self.rec_len();
        let i = (off % self.rec_len()) as usize;
        let digits = format!("{:014}", k);
        let part = i / 16;
        let j = i % 16;
        match (part, j) {
            (0, 0) => {
                if self.fq {
                    b'@'
                } else {
                    b'>'
                }
            }
            (2, 0) => b'+',
            (0, 15) | (1, 15) | (2, 15) | (3, 15) => b'\n',
            (0, j) | (2, j) => digits.as_bytes()[j - 1],
            (1, j) => b"ACGT"[((k as usize).wrapping_mul(7) + j) % 4],
            (_, j) => b'!' + (((k as usize) + j) % 40) as u8,
        }
    }
    fn total(&self) -> u64 {
        self.nrec * self.rec_len()
    }
}

impl io::Read for VirtSrc {
    fn read(&mut self, buf: &mut [u8]) -> io::Result<usize> {
        let left = self.total().saturating_sub(self.pos);
        let n = (buf.len() as u64).min(left) as usize;
        for (i, b) in buf[..n].iter_mut().enumerate() {
            *b = self.byte_at(self.pos + i as u64);
        }
        self.pos += n as u64;
        Ok(n)
    }
}

impl io::Seek for VirtSrc {
    fn seek(&mut self, to: io::SeekFrom) -> io::Result<u64> {
        let p = match to {
            io::SeekFrom::Start(p) => p as i128,
            io::SeekFrom::Current(d) => self.pos as i128 + d as i128,
            io::SeekFrom::End(d) => self.total() as i128 + d as i128,
        };
        if p < 0 {
            return Err(io::Error::new(io::ErrorKind::InvalidInput, "seek before start"));
        }
        self.pos = p as u64;
        Ok(self.pos)
    }
}

fn run_writer(out: &mut dyn Write, t: &[&str]) {
    use fasta::Record as FaRecord;
    use fastq::Record as FqRecord;
    let head = unhex(t[1]);
    let seq = unhex(t[2]);
    let qual = unhex(t[3]);
    let w: usize = match t[4] {
        "M" => usize::MAX,
        "H" => isize::MAX as usize,
        x => x.parse().unwrap(),
    };
    let lens: Vec<usize> = list(t[5]).iter().map(|x| x.parse().unwrap()).collect();
    let mut chunks: Vec<&[u8]> = vec![];
    let mut rest: &[u8] = &seq;
    for n in lens {
        let n = n.min(rest.len());
        let (a, b) = rest.split_at(n);
        chunks.push(a);
        rest = b;
    }
    chunks.push(rest);
    let (id, desc) = split_head(&head);
    let res = guarded(|| {
        let mut s = String::from("wr");
        let mut v = ShortW::new();
        fasta::write_to(&mut v, &head, &seq).unwrap();
        s.push_str(&format!(" to={}", hex(&v.v)));
        let mut v = ShortW::new();
        fasta::write_parts(&mut v, id, desc, &seq).unwrap();
        s.push_str(&format!(" pa={}", hex(&v.v)));
        let mut v = ShortW::new();
        fasta::write_wrap(&mut v, id, desc, &seq, w).unwrap();
        s.push_str(&format!(" wr={}", hex(&v.v)));
        let mut v = ShortW::new();
        fasta::write_wrap_seq(&mut v, &seq, w).unwrap();
        s.push_str(&format!(" ws={}", hex(&v.v)));
        let mut v = ShortW::new();
        fasta::write_seq_iter(&mut v, chunks.iter().copied()).unwrap();
        s.push_str(&format!(" si={}", hex(&v.v)));
        let mut v = ShortW::new();
        fasta::write_wrap_seq_iter(&mut v, chunks.iter().copied(), w).unwrap();
        s.push_str(&format!(" wi={}", hex(&v.v)));
        let o = fasta::OwnedRecord { head: head.clone(), seq: seq.clone() };
        let mut v = ShortW::new();
        o.write(&mut v).unwrap();
        s.push_str(&format!(" ow={}", hex(&v.v)));
        let mut v = ShortW::new();
        o.write_wrap(&mut v, w).unwrap();
        s.push_str(&format!(" oww={}", hex(&v.v)));
        let mut v = ShortW::new();
        fastq::write_to(&mut v, &head, &seq, &qual).unwrap();
        s.push_str(&format!(" qto={}", hex(&v.v)));
        let mut v = ShortW::new();
        fastq::write_parts(&mut v, id, desc, &seq, &qual).unwrap();
        s.push_str(&format!(" qpa={}", hex(&v.v)));
        let q = fastq::OwnedRecord { head: head.clone(), seq: seq.clone(), qual: qual.clone() };
        let mut v = ShortW::new();
        q.write(&mut v).unwrap();
        s.push_str(&format!(" qow={}", hex(&v.v)));
        // the pieces write_to / write_parts are made of
        let mut v = ShortW::new();
        fasta::write_head(&mut v, &head).unwrap();
        fasta::write_seq(&mut v, &seq).unwrap();
        s.push_str(&format!(" hs={}", hex(&v.v)));
        let mut v = ShortW::new();
        fasta::write_id_desc(&mut v, id, desc).unwrap();
        s.push_str(&format!(" idd={}", hex(&v.v)));
        s
    });
    match res {
        Outcome::Line(s) => writeln!(out, "{}", s).unwrap(),
        _ => writeln!(out, "wr panic").unwrap(),
    }
}

fn main() {
    std::panic::set_hook(Box::new(|_| {}));
    let path = std::env::args().nth(1).expect("usage: rh <case file>");
    let text = std::fs::read_to_string(&path).unwrap();
    let stdout = io::stdout();
    let mut out = io::BufWriter::new(stdout.lock());

    // watchdog: a case that runs longer than the limit is reported as a hang
    let cur = Arc::new(AtomicUsize::new(usize::MAX));
    let started = Arc::new(AtomicU64::new(0));
    // time limit of the current case in ms: 10 s, plus 1 s per 5 000 characters of the case line (the cases with inputs
    // of several hundred KB print tens of MB and may take seconds on a loaded machine)
    let limit = Arc::new(AtomicU64::new(10_000));
    let t0 = std::time::Instant::now();
    {
        let cur = cur.clone();
        let started = started.clone();
        let limit = limit.clone();
        std::thread::spawn(move || loop {
            std::thread::sleep(std::time::Duration::from_millis(200));
            let c = cur.load(Ordering::SeqCst);
            if c != usize::MAX {
                let now = t0.elapsed().as_millis() as u64;
                if now.saturating_sub(started.load(Ordering::SeqCst)) > limit.load(Ordering::SeqCst) {
                    // cannot use the locked writer: report on stderr and exit
                    eprintln!("#hang {}", c);
                    std::process::exit(3);
                }
            }
        });
    }

    let mut i = 0usize;
    for line in text.lines() {
        if line.is_empty() || line.starts_with('#') {
            continue;
        }
        writeln!(out, "#case {}", i).unwrap();
        out.flush().unwrap();
        limit.store(10_000 + (line.len() as u64) / 5, Ordering::SeqCst);
        started.store(t0.elapsed().as_millis() as u64, Ordering::SeqCst);
        cur.store(i, Ordering::SeqCst);
        let t: Vec<&str> = line.split(' ').collect();
        if t[0] == "wr" {
            run_writer(&mut out, &t);
        } else if t[0] == "vs" {
            // vs <fa|fq> <cap> <number of records> <ops>: a VIRTUAL source of fixed-size records generated on the fly
            // (32 bytes per FASTA record, 64 per FASTQ record), so that byte offsets beyond 2^32 can be visited;
            // ops: K<line>.<byte> (seek to Position::new), N (next), S (read_record_set: prints the first record and the count)
            let cap: usize = t[2].parse().unwrap();
            let nrec: u64 = t[3].parse().unwrap();
            let fq = t[1] == "fq";
            let res = guarded(|| {
                let mut lines: Vec<String> = vec![];
                macro_rules! drive {
                    ($m:ident, $src:expr, $ps:expr) => {{
                        let mut rd = $m::Reader::with_capacity($src, cap);
                        let mut set = $m::RecordSet::default();
                        for op in list(t[4]) {
                            if let Some(r) = op.strip_prefix('K') {
                                let p: Vec<&str> = r.split('.').collect();
                                let pos = $m::Position::new(p[0].parse().unwrap(), p[1].parse().unwrap());
                                lines.push(match rd.seek(&pos) {
                                    Ok(()) => "K ok".to_string(),
                                    Err(e) => format!("K err {:?}", e),
                                });
                            } else if op == "S" {
                                let r = rd.read_record_set(&mut set);
                                let first = (&set).into_iter().next().map(|r| {
                                    use $m::Record;
                                    String::from_utf8_lossy(r.head()).to_string()
                                });
                                lines.push(match r {
                                    None => "S none".to_string(),
                                    Some(Err(e)) => format!("S err {:?}", e),
                                    Some(Ok(())) => format!("S set {} {}", set.len(), first.unwrap_or_default()),
                                });
                            } else {
                                let line = match rd.next() {
                                    None => "N none".to_string(),
                                    Some(Err(e)) => format!("N err {:?}", e),
                                    Some(Ok(r)) => {
                                        use $m::Record;
                                        format!("N rec {} {}", String::from_utf8_lossy(r.head()), String::from_utf8_lossy(&r.seq()[..]))
                                    }
                                };
                                let p = rd.position();
                                lines.push(format!("{} @{}", line, $ps(p)));
                            }
                        }
                    }};
                }
                if fq {
                    let pos_str = |p: &fastq::Position| format!("{}:{}", p.line(), p.byte());
                    drive!(fastq, VirtSrc { pos: 0, nrec, fq: true }, pos_str);
                } else {
                    let pos_str = |p: Option<&fasta::Position>| p.map(|p| format!("{}:{}", p.line(), p.byte())).unwrap_or_else(|| "-".to_string());
                    drive!(fasta, VirtSrc { pos: 0, nrec, fq: false }, pos_str);
                }
                lines.join("\n")
            });
            match res {
                Outcome::Line(s) => writeln!(out, "{}", s).unwrap(),
                Outcome::Hang => writeln!(out, "vs hang").unwrap(),
                _ => writeln!(out, "vs panic").unwrap(),
            }
        } else if t[0] == "ir" {
            // ir <fa|fq> <cap|-> <hex input> <p|m>: the consuming iterator into_records() to its end (at most 1000
            // items), over a FILE opened with from_path / from_path_with_capacity (p) or over a slice (m)
            let inp = unhex(t[3]);
            let cap: Option<usize> = t[2].parse().ok();
            let file = format!("{}.input.{}", path, i);
            let from_file = t[4] == "p";
            if from_file {
                std::fs::write(&file, &inp).unwrap();
            }
            let res = guarded(|| {
                let mut lines: Vec<String> = vec![];
                macro_rules! drain {
                    ($rd:expr, $show:expr, $err:expr) => {{
                        let mut it = $rd.into_records();
                        let mut n = 0;
                        loop {
                            n += 1;
                            match it.next() {
                                None => {
                                    lines.push("none".to_string());
                                    // fused: asking again keeps reporting the end
                                    if it.next().is_some() {
                                        lines.push("item-after-end".to_string());
                                    }
                                    break;
                                }
                                Some(Err(e)) => lines.push($err(&e)),
                                Some(Ok(o)) => lines.push($show(&o)),
                            }
                            if n >= 1000 {
                                break;
                            }
                        }
                    }};
                }
                let show_fa = |o: &fasta::OwnedRecord| format!("own {}.{}", hex(&o.head), hex(&o.seq));
                let show_fq = |o: &fastq::OwnedRecord| format!("own {}.{}.{}", hex(&o.head), hex(&o.seq), hex(&o.qual));
                match (t[1], from_file, cap) {
                    ("fa", true, None) => drain!(fasta::Reader::from_path(&file).unwrap(), show_fa, fa_err),
                    ("fa", true, Some(c)) => drain!(fasta::Reader::from_path_with_capacity(&file, c).unwrap(), show_fa, fa_err),
                    ("fa", false, None) => drain!(fasta::Reader::new(&inp[..]), show_fa, fa_err),
                    ("fa", false, Some(c)) => drain!(fasta::Reader::with_capacity(&inp[..], c), show_fa, fa_err),
                    ("fq", true, None) => drain!(fastq::Reader::from_path(&file).unwrap(), show_fq, fq_err),
                    ("fq", true, Some(c)) => drain!(fastq::Reader::from_path_with_capacity(&file, c).unwrap(), show_fq, fq_err),
                    ("fq", false, None) => drain!(fastq::Reader::new(&inp[..]), show_fq, fq_err),
                    (_, _, Some(c)) => drain!(fastq::Reader::with_capacity(&inp[..], c), show_fq, fq_err),
                    (_, _, None) => drain!(fastq::Reader::new(&inp[..]), show_fq, fq_err),
                }
                lines.join("\n")
            });
            if from_file {
                let _ = std::fs::remove_file(&file);
            }
            match res {
                Outcome::Line(s) => writeln!(out, "{}", s).unwrap(),
                Outcome::Hang => writeln!(out, "ir hang").unwrap(),
                _ => writeln!(out, "ir panic").unwrap(),
            }
        } else if t[0] == "pol" {
            use seq_io::policy::BufPolicy;
            let cs: Vec<usize> = list(t[2]).iter().map(|x| x.parse().unwrap()).collect();
            let p: Vec<&str> = t[1].split('.').collect();
            let res: Vec<String> = cs
                .iter()
                .map(|c| {
                    let r = match p[0] {
                        "std" => seq_io::policy::StdPolicy.grow_to(*c),
                        "du" => seq_io::policy::DoubleUntil(p[1].parse().unwrap()).grow_to(*c),
                        "dul" => seq_io::policy::DoubleUntilLimited::new(p[1].parse().unwrap(), p[2].parse().unwrap()).grow_to(*c),
                        _ => None,
                    };
                    match r {
                        Some(n) => n.to_string(),
                        None => "n".to_string(),
                    }
                })
                .collect();
            writeln!(out, "pol {}", res.join(",")).unwrap();
        } else {
            let cap: usize = t[1].parse().unwrap();
            let inp = unhex(t[2]);
            let rs: VecDeque<RItem> = list(t[3])
                .iter()
                .map(|x| {
                    if let Some(n) = x.strip_prefix('D') {
                        RItem::Deliver(n.parse().unwrap())
                    } else if let Some(k) = x.strip_prefix('F') {
                        RItem::Fail(k.parse().unwrap())
                    } else if *x == "Z" {
                        RItem::Zero
                    } else {
                        RItem::Interrupt
                    }
                })
                .collect();
            let ss: VecDeque<SItem> = list(t[4])
                .iter()
                .map(|x| {
                    if let Some(k) = x.strip_prefix('F') {
                        SItem::Fail(k.parse().unwrap())
                    } else {
                        SItem::Ok
                    }
                })
                .collect();
            let pol = parse_pol(t[5]);
            let ops: Vec<Op> = list(t[6]).iter().map(|x| parse_op(x)).collect();
            let log: Log = Rc::new(RefCell::new(vec![]));
            let src = Src { data: inp, pos: 0, rs, ss, log: log.clone() };
            if t[0] == "fa" {
                run_fa(&mut out, cap, src, pol, &ops, log);
            } else {
                run_fq(&mut out, cap, src, pol, &ops, log);
            }
        }
        cur.store(usize::MAX, Ordering::SeqCst);
        i += 1;
    }
    out.flush().unwrap();
}
