//! parbb <seed> <n> [only-kind]
//!
//! Black-box runs against the REAL library (real threads, std mpsc, crossbeam,
//! scoped_threadpool): seq_io::parallel::{read_parallel, read_parallel_init,
//! parallel_fasta(_init), parallel_fastq(_init)}.  Prints one JSON line per run.
//! Each call runs in a helper thread under a 20 s watchdog (status "HANG"), panics are
//! caught (status "PANIC:<msg>").  Closures sleep/yield pseudo-randomly (seeded) to vary
//! the interleavings.
//!
//! kinds:  mock  read_parallel_init with a scripted reader (sets 0..k-1, then end or error)
//!         sets  read_parallel_init / read_parallel over a real FASTA/FASTQ reader (set level)
//!         rec   parallel_fasta/_fastq and the _init variants (record level)

#[path = "../common.rs"]
mod common;

use seq_io::parallel as par;
use std::panic::{catch_unwind, AssertUnwindSafe};
use std::sync::atomic::{AtomicU64 as AU, Ordering as O};
use std::sync::Arc;
use std::time::Duration;

static JSEED: AU = AU::new(1);
static JCOUNT: AU = AU::new(0);

/// seeded perturbation of the interleaving: mostly nothing, sometimes a yield, sometimes
/// a sleep of 20..400 microseconds
fn jitter(site: u64) {
    let c = JCOUNT.fetch_add(1, O::Relaxed);
    let r = common::mix(JSEED.load(O::Relaxed) ^ site.wrapping_mul(0x9E37), c);
    match r % 16 {
        0 | 1 => std::thread::sleep(Duration::from_micros(20 + (r >> 8) % 380)),
        2..=5 => std::thread::yield_now(),
        _ => {}
    }
}

include!("../reccase.rs");

// ---------------------------------------------------------------------------
// mock reader runs

#[derive(Clone, Debug, PartialEq)]
enum Consumer {
    Drain,
    StopErr,
    /// at most j calls of next(); 0 = never asks
    Stop(u64),
}

fn consumer_str(c: &Consumer) -> String {
    match c {
        Consumer::Drain => "drain".to_string(),
        Consumer::StopErr => "stoperr".to_string(),
        Consumer::Stop(j) => format!("stop:{}", j),
    }
}

#[derive(Clone, Debug)]
struct MockCfg {
    n: u32,
    q: usize,
    k: u64,
    script_err: bool,
    reader_init_fails: bool,
    dinit_fail_at: Option<u64>,
    consumer: Consumer,
    seed: u64,
}

#[derive(Default)]
struct BDS {
    tag: u64,
    content: u64,
    payload: Vec<u8>,
}

struct Counters {
    filled: AU,
    consumed: AU,
    max_ahead: AU,
}

impl Counters {
    fn new() -> Arc<Counters> {
        Arc::new(Counters { filled: AU::new(0), consumed: AU::new(0), max_ahead: AU::new(0) })
    }
    fn on_fill(&self) {
        let f = self.filled.fetch_add(1, O::SeqCst) + 1;
        let c = self.consumed.load(O::SeqCst);
        self.max_ahead.fetch_max(f.saturating_sub(c), O::SeqCst);
    }
    fn on_consume(&self) {
        self.consumed.fetch_add(1, O::SeqCst);
    }
}

struct BReader {
    k: u64,
    script_err: bool,
    n: u64,
    cnt: Arc<Counters>,
}

impl par::Reader for BReader {
    type DataSet = BDS;
    type Err = String;
    fn fill_data(&mut self, d: &mut BDS) -> Option<Result<(), String>> {
        jitter(10);
        if self.n < self.k {
            d.content = self.n;
            d.payload.clear();
            d.payload.extend(std::iter::repeat(b'x').take((self.n % 7) as usize));
            self.n += 1;
            self.cnt.on_fill();
            Some(Ok(()))
        } else if self.script_err {
            Some(Err(format!("mock-error-at-{}", self.k)))
        } else {
            None
        }
    }
}

fn mock_cfg_json(c: &MockCfg, o: &mut common::JObj) {
    o.s("kind", "mock").s("api", "read_parallel_init");
    o.u("n", c.n as u64).u("q", c.q as u64).u("k", c.k);
    o.b("script_err", c.script_err).b("reader_init_fails", c.reader_init_fails);
    o.raw("dinit_fail_at", common::jopt_u(c.dinit_fail_at));
    o.s("consumer", &consumer_str(&c.consumer));
    o.raw("seed", format!("\"{}\"", c.seed));
}

#[derive(Debug)]
enum MErr {
    ReaderInit,
    DatasetInit,
}
struct EReader;
struct EData;
impl From<EReader> for MErr {
    fn from(_: EReader) -> MErr {
        MErr::ReaderInit
    }
}
impl From<EData> for MErr {
    fn from(_: EData) -> MErr {
        MErr::DatasetInit
    }
}

fn run_mock(c: &MockCfg) -> common::JObj {
    let cnt = Counters::new();
    let cnt2 = cnt.clone();
    let n_dinit = AU::new(0);
    let n_rinit = AU::new(0);
    let mut delivered: Vec<(String, u64)> = Vec::new();
    let mut tags: Vec<u64> = Vec::new();
    let mut errs: Vec<String> = Vec::new();
    let mut none_seen = false;
    let mut after_err = 0u64;
    let mut calls = 0u64;
    let res: Result<(), MErr> = par::read_parallel_init::<BReader, MErr, _, EReader, u64, _, EData, _, _, ()>(
        c.n,
        c.q,
        || {
            jitter(11);
            n_rinit.fetch_add(1, O::SeqCst);
            if c.reader_init_fails {
                Err(EReader)
            } else {
                Ok(BReader { k: c.k, script_err: c.script_err, n: 0, cnt: cnt2 })
            }
        },
        || {
            jitter(12);
            let i = n_dinit.fetch_add(1, O::SeqCst);
            if c.dinit_fail_at == Some(i) {
                Err(EData)
            } else {
                Ok(BDS { tag: i, content: u64::MAX, payload: Vec::new() })
            }
        },
        |d: &mut BDS| {
            jitter(13);
            common::mock_work(d.content)
        },
        |rsets| loop {
            if let Consumer::Stop(j) = c.consumer {
                if calls >= j {
                    break;
                }
            }
            jitter(14);
            let r = rsets.next();
            calls += 1;
            match r {
                None => {
                    none_seen = true;
                    break;
                }
                Some(Err(e)) => {
                    errs.push(e);
                    if c.consumer == Consumer::StopErr {
                        break;
                    }
                }
                Some(Ok((d, o))) => {
                    cnt.on_consume();
                    if !errs.is_empty() {
                        after_err += 1;
                    }
                    tags.push(d.tag);
                    delivered.push((d.content.to_string(), o));
                }
            }
        },
    );
    let mut o = common::JObj::new();
    mock_cfg_json(c, &mut o);
    o.raw("delivered", common::jpairs(&delivered));
    o.raw("tags", format!("[{}]", tags.iter().map(|t| t.to_string()).collect::<Vec<_>>().join(",")));
    o.raw("errs", format!("[{}]", errs.iter().map(|e| common::jstr(e)).collect::<Vec<_>>().join(",")));
    o.b("none_seen", none_seen).u("after_err", after_err).u("next_calls", calls);
    o.u("dataset_init_calls", n_dinit.load(O::SeqCst)).u("reader_init_calls", n_rinit.load(O::SeqCst));
    o.u("nfilled", cnt.filled.load(O::SeqCst)).u("max_ahead", cnt.max_ahead.load(O::SeqCst));
    o.s(
        "ret",
        &match res {
            Ok(()) => "Ok".to_string(),
            Err(e) => format!("Err:{:?}", e),
        },
    );
    o
}

// ---------------------------------------------------------------------------
// set-level runs over a real reader

#[derive(Clone, Debug)]
struct SetsCfg {
    fastq: bool,
    /// read_parallel (true) or read_parallel_init (false)
    plain: bool,
    n: u32,
    q: usize,
    cap: usize,
    nrec: usize,
    wrap: usize,
    bad_at: Option<usize>,
    bad_kind: u64,
    reader_init_fails: bool,
    dinit_fail_at: Option<u64>,
    consumer: Consumer,
    seed: u64,
}

fn sets_as_rec(c: &SetsCfg) -> RecCfg {
    RecCfg {
        fastq: c.fastq,
        n: c.n,
        q: c.q,
        cap: c.cap,
        nrec: c.nrec,
        wrap: c.wrap,
        bad_at: c.bad_at,
        bad_kind: c.bad_kind,
        stop_after: None,
        init: false,
        generic: false,
        reader_init_fails: false,
        rset_fail_at: None,
        rec_fail_at: None,
        io_fail_at: None,
        seed: c.seed,
    }
}

fn sets_cfg_json(c: &SetsCfg, o: &mut common::JObj) {
    o.s("kind", "sets").s("api", if c.plain { "read_parallel" } else { "read_parallel_init" });
    o.s("fmt", if c.fastq { "fastq" } else { "fasta" });
    o.u("n", c.n as u64).u("q", c.q as u64).u("cap", c.cap as u64).u("nrec", c.nrec as u64);
    o.u("wrap", c.wrap as u64);
    o.raw("bad_at", common::jopt_u(c.bad_at.map(|x| x as u64)));
    o.u("bad_kind", c.bad_kind);
    o.b("reader_init_fails", c.reader_init_fails);
    o.raw("dinit_fail_at", common::jopt_u(c.dinit_fail_at));
    o.s("consumer", &consumer_str(&c.consumer));
    o.raw("seed", format!("\"{}\"", c.seed));
}

/// a real reader with its fills counted
struct CountR<R> {
    inner: R,
    cnt: Arc<Counters>,
}

macro_rules! count_reader_impl {
    ($fmt:ident) => {
        impl par::Reader for CountR<seq_io::$fmt::Reader<Cursor<Vec<u8>>>> {
            type DataSet = seq_io::$fmt::RecordSet;
            type Err = seq_io::$fmt::Error;
            fn fill_data(&mut self, d: &mut Self::DataSet) -> Option<Result<(), Self::Err>> {
                jitter(20);
                let r = self.inner.read_record_set(d);
                if let Some(Ok(())) = r {
                    self.cnt.on_fill();
                }
                r
            }
        }
    };
}
count_reader_impl!(fasta);
count_reader_impl!(fastq);

struct SetsObs {
    sets: Vec<Vec<(String, u64)>>,
    errs: Vec<String>,
    none_seen: bool,
    after_err: u64,
    calls: u64,
    bufcap_max: u64,
}

macro_rules! sets_body {
    ($c:ident, $text:ident, $fmt:ident, $seq:expr) => {{
        let cnt = Counters::new();
        let cnt2 = cnt.clone();
        let n_dinit = AU::new(0);
        let n_rinit = AU::new(0);
        let mut obs =
            SetsObs { sets: Vec::new(), errs: Vec::new(), none_seen: false, after_err: 0, calls: 0, bufcap_max: 0 };
        let consumer = $c.consumer.clone();
        let work = |rset: &mut seq_io::$fmt::RecordSet| -> Vec<u64> {
            jitter(21);
            use seq_io::$fmt::Record;
            let mut v = Vec::new();
            for rec in &*rset {
                let s = $seq(&rec);
                v.push(common::rec_out(rec.id_bytes(), &s));
            }
            v
        };
        macro_rules! consume {
            ($rsets:ident) => {
                loop {
                    if let Consumer::Stop(j) = consumer {
                        if obs.calls >= j {
                            break;
                        }
                    }
                    jitter(22);
                    let r = $rsets.next();
                    obs.calls += 1;
                    match r {
                        None => {
                            obs.none_seen = true;
                            break;
                        }
                        Some(Err(e)) => {
                            obs.errs.push(format!("{:?}", e));
                            if consumer == Consumer::StopErr {
                                break;
                            }
                        }
                        Some(Ok((rset, out))) => {
                            cnt.on_consume();
                            if !obs.errs.is_empty() {
                                obs.after_err += 1;
                            }
                            use seq_io::$fmt::Record;
                            obs.bufcap_max = std::cmp::max(obs.bufcap_max, rset.buf_capacity() as u64);
                            let mut set = Vec::new();
                            let mut outs = out.iter();
                            for rec in &*rset {
                                let o = outs.next().copied().unwrap_or(0);
                                set.push((String::from_utf8_lossy(rec.id_bytes()).to_string(), o));
                            }
                            // surplus outputs would be a defect of the work closure above
                            for extra in outs {
                                set.push(("<surplus-output>".to_string(), *extra));
                            }
                            obs.sets.push(set);
                        }
                    }
                }
            };
        }
        let reader = seq_io::$fmt::Reader::with_capacity(Cursor::new($text.clone()), $c.cap);
        let ret: String = if $c.plain {
            par::read_parallel(reader, $c.n, $c.q, work, |rsets| consume!(rsets));
            "Ok".to_string()
        } else {
            let rif = $c.reader_init_fails;
            let dfa = $c.dinit_fail_at;
            let r: Result<(), MErr> = par::read_parallel_init::<
                CountR<seq_io::$fmt::Reader<Cursor<Vec<u8>>>>,
                MErr,
                _,
                EReader,
                Vec<u64>,
                _,
                EData,
                _,
                _,
                (),
            >(
                $c.n,
                $c.q,
                || {
                    jitter(23);
                    n_rinit.fetch_add(1, O::SeqCst);
                    if rif {
                        Err(EReader)
                    } else {
                        Ok(CountR { inner: reader, cnt: cnt2 })
                    }
                },
                || {
                    jitter(24);
                    let i = n_dinit.fetch_add(1, O::SeqCst);
                    if dfa == Some(i) {
                        Err(EData)
                    } else {
                        Ok(seq_io::$fmt::RecordSet::default())
                    }
                },
                work,
                |rsets| consume!(rsets),
            );
            match r {
                Ok(()) => "Ok".to_string(),
                Err(e) => format!("Err:{:?}", e),
            }
        };
        (
            obs,
            ret,
            n_dinit.load(O::SeqCst),
            n_rinit.load(O::SeqCst),
            cnt.filled.load(O::SeqCst),
            cnt.max_ahead.load(O::SeqCst),
        )
    }};
}

fn run_sets(c: &SetsCfg) -> common::JObj {
    let rc = sets_as_rec(c);
    let (recs, text) = rec_input(&rc);
    let (seq_n, seq_err) = sequential(&rc, &text);
    let (obs, ret, n_dinit, n_rinit, nfilled, max_ahead) = if c.fastq {
        sets_body!(c, text, fastq, |r: &seq_io::fastq::RefRecord| r.seq().to_vec())
    } else {
        sets_body!(c, text, fasta, |r: &seq_io::fasta::RefRecord| r.full_seq().to_vec())
    };
    let mut o = common::JObj::new();
    sets_cfg_json(c, &mut o);
    o.raw("exp", common::jrecs(&recs));
    let sets: Vec<String> = obs.sets.iter().map(|s| common::jpairs(s)).collect();
    o.raw("sets", format!("[{}]", sets.join(",")));
    o.raw("errs", format!("[{}]", obs.errs.iter().map(|e| common::jstr(e)).collect::<Vec<_>>().join(",")));
    o.b("none_seen", obs.none_seen).u("after_err", obs.after_err).u("next_calls", obs.calls);
    o.u("bufcap_max", obs.bufcap_max);
    o.u("dataset_init_calls", n_dinit).u("reader_init_calls", n_rinit);
    o.u("nfilled", nfilled).u("max_ahead", max_ahead);
    o.s("ret", &ret);
    o.u("seq_n", seq_n);
    o.raw("seq_err", common::jopt_s(&seq_err));
    o
}

// ---------------------------------------------------------------------------
// case generation

#[derive(Clone, Debug)]
enum Case {
    Mock(MockCfg),
    Sets(SetsCfg),
    Rec(RecCfg),
}

fn pick_consumer(rng: &mut common::Rng) -> Consumer {
    match rng.below(8) {
        0 => Consumer::Stop(0),
        1 => Consumer::Stop(rng.range(1, 4)),
        2 => Consumer::StopErr,
        _ => Consumer::Drain,
    }
}

fn gen_case(seed: u64, i: u64, only: &Option<String>) -> Case {
    let mut rng = common::Rng::new(common::mix(seed, i));
    let kind = match only.as_deref() {
        Some("mock") => 0,
        Some("sets") => 1,
        Some("rec") => 2,
        _ => match rng.below(10) {
            0..=2 => 0,
            3..=5 => 1,
            _ => 2,
        },
    };
    let n = rng.range(1, 4) as u32;
    let q = rng.range(1, 3) as usize;
    let cseed = common::mix(seed ^ 0xB1AC_B0C5, i);
    let variant = rng.below(10);
    match kind {
        0 => {
            let mut c = MockCfg {
                n,
                q,
                k: match rng.below(4) {
                    0 => rng.range(0, 2),
                    _ => rng.range(3, 40),
                },
                script_err: false,
                reader_init_fails: false,
                dinit_fail_at: None,
                consumer: pick_consumer(&mut rng),
                seed: cseed,
            };
            match variant {
                0 | 1 | 2 => c.script_err = true,
                3 => c.reader_init_fails = true,
                4 | 5 => c.dinit_fail_at = Some(rng.range(0, q as u64 + 1)),
                _ => {}
            }
            Case::Mock(c)
        }
        1 => {
            let fastq = rng.chance(1, 2);
            let nrec = rng.range(0, 40) as usize;
            let mut c = SetsCfg {
                fastq,
                plain: rng.chance(1, 3),
                n,
                q,
                cap: rng.range(32, 256) as usize,
                nrec,
                wrap: if rng.chance(1, 3) { rng.range(5, 60) as usize } else { 0 },
                bad_at: None,
                bad_kind: rng.range(1, 5),
                reader_init_fails: false,
                dinit_fail_at: None,
                consumer: pick_consumer(&mut rng),
                seed: cseed,
            };
            match variant {
                0 | 1 | 2 => {
                    if fastq && nrec > 0 {
                        c.bad_at = Some(rng.below(nrec as u64) as usize);
                    } else if !fastq {
                        c.bad_at = Some(0);
                    }
                }
                3 if !c.plain => c.reader_init_fails = true,
                4 | 5 if !c.plain => c.dinit_fail_at = Some(rng.range(0, q as u64 + 1)),
                _ => {}
            }
            Case::Sets(c)
        }
        _ => {
            let fastq = rng.chance(1, 2);
            let nrec = rng.range(0, 40) as usize;
            let mut c = RecCfg {
                fastq,
                n,
                q,
                cap: rng.range(32, 256) as usize,
                nrec,
                wrap: if rng.chance(1, 3) { rng.range(5, 60) as usize } else { 0 },
                bad_at: None,
                bad_kind: rng.range(1, 5),
                stop_after: None,
                init: rng.chance(1, 2),
                generic: false,
                reader_init_fails: false,
                rset_fail_at: None,
                rec_fail_at: None,
                io_fail_at: None,
                seed: cseed,
            };
            match variant {
                0 | 1 => {
                    if fastq && nrec > 0 {
                        c.bad_at = Some(rng.below(nrec as u64) as usize);
                    } else if !fastq {
                        c.bad_at = Some(0);
                    }
                }
                2 => c.stop_after = Some(rng.range(1, 12) as usize),
                3 => {
                    c.init = true;
                    c.reader_init_fails = true;
                }
                4 => {
                    c.init = true;
                    c.rset_fail_at = Some(rng.range(0, q as u64 + 1));
                }
                5 => {
                    c.init = true;
                    c.rec_fail_at = Some(rng.range(0, 12));
                }
                6 => c.io_fail_at = Some(rng.range(0, 8)),
                _ => {}
            }
            // a third of the runs without initialisers go through the generic `parallel_records`
            c.generic = !c.init && c.seed % 3 == 0;
            Case::Rec(c)
        }
    }
}

fn case_cfg_json(c: &Case) -> common::JObj {
    let mut o = common::JObj::new();
    match c {
        Case::Mock(m) => mock_cfg_json(m, &mut o),
        Case::Sets(s) => sets_cfg_json(s, &mut o),
        Case::Rec(r) => rec_cfg_json(r, &mut o),
    }
    o
}

fn run_case(c: &Case) -> common::JObj {
    match c {
        Case::Mock(m) => run_mock(m),
        Case::Sets(s) => run_sets(s),
        Case::Rec(r) => run_rec_case(r),
    }
}

fn main() {
    let args: Vec<String> = std::env::args().collect();
    if args.len() < 3 {
        eprintln!("usage: parbb <seed> <n> [mock|sets|rec]");
        std::process::exit(2);
    }
    let seed: u64 = args[1].parse().unwrap();
    let n: u64 = args[2].parse().unwrap();
    let only = args.get(3).cloned();
    std::panic::set_hook(Box::new(|_| {}));
    let mut hangs = 0u32;
    for i in 0..n {
        if hangs >= 3 {
            // every hang costs the full watchdog time: three are evidence enough, stop this shard
            println!("{{\"type\":\"stat\",\"aborted_after_hangs\":{},\"at_run\":{}}}", hangs, i);
            break;
        }
        let case = gen_case(seed, i, &only);
        JSEED.store(common::mix(seed, i) | 1, O::Relaxed);
        let (tx, rx) = std::sync::mpsc::channel::<Result<String, String>>();
        let c2 = case.clone();
        let t0 = std::time::Instant::now();
        std::thread::spawn(move || {
            let r = catch_unwind(AssertUnwindSafe(|| run_case(&c2)));
            let _ = tx.send(match r {
                Ok(mut o) => {
                    o.s("status", "done");
                    Ok(o.finish())
                }
                Err(e) => Err(common::panic_msg(&e)),
            });
        });
        let line = match rx.recv_timeout(Duration::from_secs(10)) {
            Ok(Ok(s)) => s,
            Ok(Err(msg)) => {
                let mut o = case_cfg_json(&case);
                o.s("status", &format!("PANIC:{}", msg));
                o.finish()
            }
            Err(_) => {
                let mut o = case_cfg_json(&case);
                o.s("status", "HANG");
                hangs += 1;
                o.finish()
            }
        };
        // splice run index and duration
        let line = line.trim_end_matches('}').to_string();
        println!("{},\"run\":{},\"ms\":{}}}", line, i, t0.elapsed().as_millis());
    }
}
