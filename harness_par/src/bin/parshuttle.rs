//! parshuttle <seed> <iters> [tier] [shard_index shard_count]
//! parshuttle --one <seed> <tier> <cfg_index> <random|pct> <schedule_seed>
//!
//! Runs the text of $VERIF_REPO/src/parallel.rs (generated into src/parallel.rs by build.rs:
//! exactly three substitutions) on shuttle shims under controlled schedules.
//!  * protocol runs: read_parallel_init with a mock reader; prints the event log of every
//!    distinct schedule outcome in the vocabulary of Model/Par.v:
//!        CFG n q rinit_ok dinit_fail k script consumer
//!        SCHED kind seed cfg-index
//!        <one event per line>
//!        END
//!  * per-record runs: parallel_fasta/_fastq(/_init) over a real reader on in-memory input;
//!    prints `REC <json>` (what the consumer closure saw, return value, closure calls).
//!  * a deadlock or panic in one schedule is caught and reported as
//!        ABNORMAL <cfg> | <kind> | <sched-kind>:<sched-seed>:<cfg-index> | <message> | <partial log>
//! Every schedule is reproducible: schedule seed = mix(mix(seed, cfg_index), iteration);
//! iteration i uses the PCT scheduler (depth 3) if i % 4 == 3, else the random scheduler.

pub use seq_io::{fasta, fastq, policy};
#[path = "../common.rs"]
mod common;
#[allow(dead_code)]
#[path = "../parallel.rs"]
#[macro_use]
mod parallel;
#[path = "../shim.rs"]
mod shim;

use parallel as par;
use shim::{log, set_last_filled, take_log, DS, LOGGING};
use std::collections::HashSet;
use std::panic::{catch_unwind, AssertUnwindSafe};
use std::sync::atomic::Ordering;
use std::sync::Mutex as StdMutex;

/// closures of the per-record runs call this; under shuttle it is a scheduling point
fn jitter(_site: u64) {
    shuttle::thread::yield_now();
}

include!("../reccase.rs");

#[derive(Clone, Copy, Debug, PartialEq)]
enum Consumer {
    Drain,
    DrainStopErr,
    StopAfter(u64),
}

#[derive(Clone, Copy, Debug)]
struct Cfg {
    n: u32,
    q: usize,
    rinit_ok: bool,
    dinit_fail: Option<u64>,
    k: u64,
    script_err: bool,
    consumer: Consumer,
}

struct MockReader {
    k: u64,
    script_err: bool,
    filled: u64,
}

impl parallel::Reader for MockReader {
    type DataSet = DS;
    type Err = u8;
    fn fill_data(&mut self, d: &mut DS) -> Option<Result<(), u8>> {
        if self.filled < self.k {
            d.content = self.filled;
            self.filled += 1;
            set_last_filled(d.tag, d.content);
            log(format!("EFill {} FOk {}", d.tag, d.content));
            Some(Ok(()))
        } else if self.script_err {
            log(format!("EFill {} FErr", d.tag));
            Some(Err(7))
        } else {
            log(format!("EFill {} FEnd", d.tag));
            None
        }
    }
}

static RESULT: StdMutex<Option<String>> = StdMutex::new(None);

fn mock_run(cfg: Cfg) {
    let ncreated = std::sync::atomic::AtomicU64::new(0);
    let res: Result<(), u8> = parallel::read_parallel_init::<MockReader, u8, _, u8, u64, _, u8, _, _, ()>(
        cfg.n,
        cfg.q,
        || {
            log(format!("EReaderInit {}", cfg.rinit_ok));
            if cfg.rinit_ok {
                Ok(MockReader { k: cfg.k, script_err: cfg.script_err, filled: 0 })
            } else {
                Err(1u8)
            }
        },
        || {
            let i = ncreated.load(Ordering::SeqCst);
            if cfg.dinit_fail == Some(i) {
                log("EDatasetInit None".to_string());
                Err(2u8)
            } else {
                ncreated.store(i + 1, Ordering::SeqCst);
                log(format!("EDatasetInit Some {}", i));
                Ok(DS { tag: i, content: 0 })
            }
        },
        |d: &mut DS| {
            let o = common::mock_work(d.content);
            log(format!("EWork {} {} {}", d.tag, d.content, o));
            o
        },
        |rsets| {
            let mut calls = 0u64;
            loop {
                if let Consumer::StopAfter(k) = cfg.consumer {
                    if calls >= k {
                        break;
                    }
                }
                let r = rsets.next();
                calls += 1;
                match r {
                    None => {
                        log("EConsume CNone".to_string());
                        break;
                    }
                    Some(Err(_)) => {
                        log("EConsume CErr".to_string());
                        if cfg.consumer == Consumer::DrainStopErr {
                            break;
                        }
                    }
                    Some(Ok((d, o))) => {
                        log(format!("EConsume CData {} {} {}", d.tag, d.content, o));
                    }
                }
            }
        },
    );
    log(format!("EReturn {}", res.is_ok()));
}

fn cfg_line(c: &Cfg) -> String {
    let cons = match c.consumer {
        Consumer::Drain => "Drain".to_string(),
        Consumer::DrainStopErr => "DrainStopErr".to_string(),
        Consumer::StopAfter(k) => format!("StopAfter {}", k),
    };
    format!(
        "CFG {} {} {} {} {} {} {}",
        c.n,
        c.q,
        c.rinit_ok,
        match c.dinit_fail {
            Some(j) => format!("Some {}", j),
            None => "None".to_string(),
        },
        c.k,
        if c.script_err { "ScriptErr" } else { "ScriptEnd" },
        cons
    )
}

fn mock_configs(tier: &str) -> Vec<Cfg> {
    let thorough = tier == "thorough";
    let ns: &[u32] = if thorough { &[1, 2, 3, 4] } else { &[1, 2, 3] };
    let qs: &[usize] = if thorough { &[1, 2, 3, 4] } else { &[1, 2, 3] };
    let ks: &[u64] = if thorough { &[0, 1, 2, 3, 5, 8] } else { &[0, 1, 3, 5] };
    let mut inits: Vec<(bool, Option<u64>)> = vec![
        (true, None),
        (false, None),
        (true, Some(0)),
        (true, Some(1)),
        (true, Some(2)),
        (true, Some(3)),
        (false, Some(1)),
    ];
    if thorough {
        inits.push((true, Some(4)));
        inits.push((false, Some(0)));
    }
    let mut consumers = vec![
        Consumer::Drain,
        Consumer::DrainStopErr,
        Consumer::StopAfter(0),
        Consumer::StopAfter(1),
        Consumer::StopAfter(2),
    ];
    if thorough {
        consumers.push(Consumer::StopAfter(4));
        consumers.push(Consumer::StopAfter(9));
    }
    let mut cfgs = Vec::new();
    for &n in ns {
        for &q in qs {
            for &(rinit_ok, dinit_fail) in &inits {
                for &k in ks {
                    for &script_err in &[false, true] {
                        for &consumer in &consumers {
                            cfgs.push(Cfg { n, q, rinit_ok, dinit_fail, k, script_err, consumer });
                        }
                    }
                }
            }
        }
    }
    cfgs
}

fn rec_configs(seed: u64, tier: &str) -> Vec<RecCfg> {
    let count = if tier == "thorough" { 600 } else { 160 };
    let mut v = Vec::new();
    for i in 0..count {
        let mut rng = common::Rng::new(common::mix(seed ^ 0x5EC0_4D5, i as u64));
        let fastq = rng.chance(1, 2);
        let nrec = match rng.below(5) {
            0 => rng.range(0, 2) as usize,
            _ => rng.range(3, 14) as usize,
        };
        let variant = rng.below(10);
        let mut c = RecCfg {
            fastq,
            n: rng.range(1, 3) as u32,
            q: rng.range(1, 3) as usize,
            cap: rng.range(24, 96) as usize,
            nrec,
            wrap: if rng.chance(1, 3) { rng.range(5, 40) as usize } else { 0 },
            bad_at: None,
            bad_kind: rng.range(1, 5),
            stop_after: None,
            init: rng.chance(1, 2),
                generic: false,
            reader_init_fails: false,
            rset_fail_at: None,
            rec_fail_at: None,
            io_fail_at: None,
            seed: common::mix(seed, 1000 + i as u64),
        };
        match variant {
            0 | 1 => {
                // invalid record (FASTQ: at any index; FASTA: only the file start)
                if fastq && nrec > 0 {
                    c.bad_at = Some(rng.below(nrec as u64) as usize);
                } else if !fastq {
                    c.bad_at = Some(0);
                }
            }
            2 => c.stop_after = Some(rng.range(1, 4) as usize),
            3 => {
                c.init = true;
                c.reader_init_fails = true;
            }
            4 => {
                c.init = true;
                c.rset_fail_at = Some(rng.range(0, c.q as u64 + 1));
            }
            5 => {
                c.init = true;
                c.rec_fail_at = Some(rng.range(0, 6));
            }
            6 => c.io_fail_at = Some(rng.range(0, 6)),
            _ => {}
        }
        // a third of the runs without initialisers go through the generic `parallel_records`
        c.generic = !c.init && c.seed % 3 == 0;
        v.push(c);
    }
    v
}

#[derive(Clone, Debug)]
enum AnyCfg {
    Mock(Cfg),
    Rec(RecCfg),
}

fn all_configs(seed: u64, tier: &str) -> Vec<AnyCfg> {
    let mut v: Vec<AnyCfg> = mock_configs(tier).into_iter().map(AnyCfg::Mock).collect();
    v.extend(rec_configs(seed, tier).into_iter().map(AnyCfg::Rec));
    v
}

fn run_schedule(cfg: &AnyCfg, kind: &str, sseed: u64, catch: bool) -> Result<(), String> {
    let mut config = shuttle::Config::default();
    config.failure_persistence =
        if catch { shuttle::FailurePersistence::None } else { shuttle::FailurePersistence::Print };
    config.silence_warnings = true;
    let c = cfg.clone();
    let body = move || match &c {
        AnyCfg::Mock(m) => mock_run(*m),
        AnyCfg::Rec(r) => {
            let o = run_rec_case(r);
            *RESULT.lock().unwrap_or_else(|e| e.into_inner()) = Some(o.finish());
        }
    };
    let go = move || {
        if kind == "pct" {
            let s = shuttle::scheduler::PctScheduler::new_from_seed(sseed, 3, 1);
            shuttle::Runner::new(s, config).run(body);
        } else {
            let s = shuttle::scheduler::RandomScheduler::new_from_seed(sseed, 1);
            shuttle::Runner::new(s, config).run(body);
        }
    };
    if catch {
        catch_unwind(AssertUnwindSafe(go)).map(|_| ()).map_err(|e| common::panic_msg(&e))
    } else {
        go();
        Ok(())
    }
}

fn cfg_desc(cfg: &AnyCfg) -> String {
    match cfg {
        AnyCfg::Mock(m) => cfg_line(m),
        AnyCfg::Rec(r) => {
            let mut o = common::JObj::new();
            rec_cfg_json(r, &mut o);
            format!("REC {}", o.finish())
        }
    }
}

fn abnormal_kind(msg: &str) -> &'static str {
    if msg.contains("deadlock") {
        "deadlock"
    } else if msg.contains("exceeded max_steps") || msg.contains("step bound") {
        "livelock"
    } else {
        "panic"
    }
}

fn one(idx: usize, cfg: &AnyCfg, kind: &str, sseed: u64, catch: bool, seen: &mut HashSet<Vec<String>>) {
    let is_rec = matches!(cfg, AnyCfg::Rec(_));
    LOGGING.store(!is_rec, Ordering::SeqCst);
    take_log();
    *RESULT.lock().unwrap_or_else(|e| e.into_inner()) = None;
    let r = run_schedule(cfg, kind, sseed, catch);
    let l = take_log();
    match r {
        Err(msg) => {
            let msg1 = msg.replace('\n', " ").replace('|', "/");
            println!(
                "ABNORMAL {} | {} | {}:{}:{} | {} | {}",
                cfg_desc(cfg),
                abnormal_kind(&msg),
                kind,
                sseed,
                idx,
                msg1,
                l.join(";")
            );
        }
        Ok(()) => {
            if is_rec {
                let body = RESULT.lock().unwrap_or_else(|e| e.into_inner()).take().unwrap_or_default();
                let key = vec![body.clone()];
                if seen.insert(key) {
                    // splice the schedule into the JSON object
                    let body = body.trim_end_matches('}');
                    println!("REC {},\"sched\":\"{}:{}:{}\",\"status\":\"done\"}}", body, kind, sseed, idx);
                }
            } else if seen.insert(l.clone()) {
                println!("{}", cfg_desc(cfg));
                println!("SCHED {} {} {}", kind, sseed, idx);
                for e in &l {
                    println!("{}", e);
                }
                println!("END");
            }
        }
    }
}

fn main() {
    // shuttle's panic hook prints to stderr; keep our own panics quiet as well
    let args: Vec<String> = std::env::args().collect();
    if args.len() >= 2 && args[1] == "--one" {
        let seed: u64 = args[2].parse().unwrap();
        let tier = args[3].clone();
        let idx: usize = args[4].parse().unwrap();
        let kind = args[5].clone();
        let sseed: u64 = args[6].parse().unwrap();
        let cfgs = all_configs(seed, &tier);
        let mut seen = HashSet::new();
        one(idx, &cfgs[idx], &kind, sseed, false, &mut seen);
        return;
    }
    if args.len() < 3 {
        eprintln!("usage: parshuttle <seed> <iters> [quick|thorough] [shard_index shard_count]");
        std::process::exit(2);
    }
    let seed: u64 = args[1].parse().unwrap();
    let iters: usize = args[2].parse().unwrap();
    let tier = args.get(3).cloned().unwrap_or_else(|| "quick".to_string());
    let shard_i: usize = args.get(4).map(|s| s.parse().unwrap()).unwrap_or(0);
    let shard_m: usize = args.get(5).map(|s| s.parse().unwrap()).unwrap_or(1);
    std::panic::set_hook(Box::new(|_| {}));
    let cfgs = all_configs(seed, &tier);
    let mut nsched = 0usize;
    for (idx, cfg) in cfgs.iter().enumerate() {
        if idx % shard_m != shard_i {
            continue;
        }
        let is_rec = matches!(cfg, AnyCfg::Rec(_));
        // the per-record runs take many more steps each; give them fewer schedules
        let its = if is_rec { std::cmp::max(4, iters / 8) } else { iters };
        let mut seen: HashSet<Vec<String>> = HashSet::new();
        for it in 0..its {
            let sseed = common::mix(common::mix(seed, idx as u64), it as u64);
            let kind = if it % 4 == 3 { "pct" } else { "random" };
            one(idx, cfg, kind, sseed, true, &mut seen);
            nsched += 1;
        }
        println!("STAT {} {} {} {}", idx, its, seen.len(), cfg_desc(cfg));
    }
    println!("DONE shard {}/{} configs {} schedules {}", shard_i, shard_m, cfgs.len(), nsched);
}
