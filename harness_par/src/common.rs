//! Helpers shared by parshuttle and parbb (std only): seeded RNG, the record-output
//! function, input generators, JSON output.
#![allow(dead_code)]

/// xorshift64* seeded through splitmix64; no global state
#[derive(Clone, Debug)]
pub struct Rng(u64);

pub fn splitmix(mut z: u64) -> u64 {
    z = z.wrapping_add(0x9E37_79B9_7F4A_7C15);
    z = (z ^ (z >> 30)).wrapping_mul(0xBF58_476D_1CE4_E5B9);
    z = (z ^ (z >> 27)).wrapping_mul(0x94D0_49BB_1331_11EB);
    z ^ (z >> 31)
}

pub fn mix(a: u64, b: u64) -> u64 {
    splitmix(splitmix(a) ^ b.wrapping_mul(0x2545_F491_4F6C_DD1D))
}

impl Rng {
    pub fn new(seed: u64) -> Rng {
        let s = splitmix(seed);
        Rng(if s == 0 { 0x1234_5678_9ABC_DEF1 } else { s })
    }
    pub fn next_u64(&mut self) -> u64 {
        let mut x = self.0;
        x ^= x >> 12;
        x ^= x << 25;
        x ^= x >> 27;
        self.0 = x;
        x.wrapping_mul(0x2545_F491_4F6C_DD1D)
    }
    /// uniform in 0..n (n > 0)
    pub fn below(&mut self, n: u64) -> u64 {
        self.next_u64() % n
    }
    /// uniform in lo..=hi
    pub fn range(&mut self, lo: u64, hi: u64) -> u64 {
        lo + self.below(hi - lo + 1)
    }
    pub fn chance(&mut self, num: u64, den: u64) -> bool {
        self.below(den) < num
    }
}

/// The per-record output: FNV-1a (64 bit) of id, '|', seq with the top bit set (so it is
/// never 0 = the value record_data_init / Default produces).  The Python oracle recomputes
/// it from the generated input.
pub fn rec_out(id: &[u8], seq: &[u8]) -> u64 {
    let mut h: u64 = 0xcbf2_9ce4_8422_2325;
    for &b in id.iter().chain(b"|".iter()).chain(seq.iter()) {
        h ^= b as u64;
        h = h.wrapping_mul(0x0000_0100_0000_01b3);
    }
    h | (1u64 << 63)
}

/// the set-level work function of the mock runs
pub fn mock_work(content: u64) -> u64 {
    content * 3 + 1
}

// ---------------------------------------------------------------------------
// inputs

#[derive(Clone, Debug)]
pub struct Rec {
    pub id: String,
    pub seq: String,
}

/// `n` records with unique ids and sequences of very different lengths, so that record
/// sets read with a small buffer hold different numbers of records
pub fn gen_records(rng: &mut Rng, n: usize) -> Vec<Rec> {
    let mut v = Vec::with_capacity(n);
    // runs of short and of long records
    let mut long_run = rng.chance(1, 2);
    let mut left = rng.range(1, 6);
    for i in 0..n {
        if left == 0 {
            long_run = !long_run;
            left = rng.range(1, 6);
        }
        left -= 1;
        let len = if long_run { rng.range(25, 110) } else { rng.range(1, 8) };
        let seq: String = (0..len).map(|_| b"ACGT"[rng.below(4) as usize] as char).collect();
        v.push(Rec { id: format!("r{}", i), seq });
    }
    v
}

/// kinds of invalid records (FASTQ): 1 bad separator, 2 unequal lengths, 3 bad start byte
pub fn fastq_text(recs: &[Rec], bad_at: Option<usize>, bad_kind: u64) -> Vec<u8> {
    let mut out = Vec::new();
    for (i, r) in recs.iter().enumerate() {
        let bad = bad_at == Some(i);
        let qual: String = "I".repeat(r.seq.len());
        let (start, sep, qual) = match (bad, bad_kind) {
            (true, 1) => ('@', '-', qual),
            (true, 2) => ('@', '+', format!("{}II", qual)),
            (true, _) => ('>', '+', qual),
            _ => ('@', '+', qual),
        };
        if bad && bad_kind == 4 {
            // truncated file: the input ends inside the header line of record i
            out.extend_from_slice(format!("@{} d{}", r.id, i).as_bytes());
            return out;
        }
        if bad && bad_kind == 5 {
            // truncated file: the input ends inside the sequence line of record i
            out.extend_from_slice(format!("@{} d{}\n{}", r.id, i, &r.seq[..r.seq.len() / 2]).as_bytes());
            return out;
        }
        out.extend_from_slice(format!("{}{} d{}\n{}\n{}\n{}\n", start, r.id, i, r.seq, sep, qual).as_bytes());
    }
    out
}

/// FASTA with sequences wrapped at `wrap` (0 = single line); `bad_start`: the file does
/// not begin with '>' (the only parse error FASTA has)
pub fn fasta_text(recs: &[Rec], wrap: usize, bad_start: bool) -> Vec<u8> {
    let mut out = Vec::new();
    if bad_start {
        out.extend_from_slice(b"xr_bad\nACGT\n");
    }
    for (i, r) in recs.iter().enumerate() {
        out.extend_from_slice(format!(">{} d{}\n", r.id, i).as_bytes());
        if wrap == 0 {
            out.extend_from_slice(r.seq.as_bytes());
            out.push(b'\n');
        } else {
            for chunk in r.seq.as_bytes().chunks(wrap) {
                out.extend_from_slice(chunk);
                out.push(b'\n');
            }
        }
    }
    out
}

// ---------------------------------------------------------------------------
// JSON (hand written, output only)

pub fn jstr(s: &str) -> String {
    let mut o = String::with_capacity(s.len() + 2);
    o.push('"');
    for c in s.chars() {
        match c {
            '"' => o.push_str("\\\""),
            '\\' => o.push_str("\\\\"),
            '\n' => o.push_str("\\n"),
            '\r' => o.push_str("\\r"),
            '\t' => o.push_str("\\t"),
            c if (c as u32) < 0x20 => o.push_str(&format!("\\u{:04x}", c as u32)),
            c => o.push(c),
        }
    }
    o.push('"');
    o
}

pub fn jopt_u(v: Option<u64>) -> String {
    match v {
        Some(x) => x.to_string(),
        None => "null".to_string(),
    }
}

pub fn jopt_s(v: &Option<String>) -> String {
    match v {
        Some(x) => jstr(x),
        None => "null".to_string(),
    }
}

/// `[[id, out], ...]`; outputs are printed as decimal strings (they exceed 2^53)
pub fn jpairs(v: &[(String, u64)]) -> String {
    let items: Vec<String> = v.iter().map(|(a, b)| format!("[{},\"{}\"]", jstr(a), b)).collect();
    format!("[{}]", items.join(","))
}

pub fn jrecs(v: &[Rec]) -> String {
    let items: Vec<String> = v.iter().map(|r| format!("[{},{}]", jstr(&r.id), jstr(&r.seq))).collect();
    format!("[{}]", items.join(","))
}

pub struct JObj(Vec<String>);
impl JObj {
    pub fn new() -> JObj {
        JObj(Vec::new())
    }
    pub fn raw(&mut self, k: &str, v: String) -> &mut JObj {
        self.0.push(format!("{}:{}", jstr(k), v));
        self
    }
    pub fn s(&mut self, k: &str, v: &str) -> &mut JObj {
        self.raw(k, jstr(v))
    }
    pub fn u(&mut self, k: &str, v: u64) -> &mut JObj {
        self.raw(k, v.to_string())
    }
    pub fn b(&mut self, k: &str, v: bool) -> &mut JObj {
        self.raw(k, v.to_string())
    }
    pub fn finish(&self) -> String {
        format!("{{{}}}", self.0.join(","))
    }
}

pub fn panic_msg(e: &Box<dyn std::any::Any + Send>) -> String {
    if let Some(s) = e.downcast_ref::<&str>() {
        s.to_string()
    } else if let Some(s) = e.downcast_ref::<String>() {
        s.clone()
    } else {
        "non-string panic payload".to_string()
    }
}
