// Per-record layer cases (parallel_fasta / parallel_fastq and their _init variants).
// This file is `include!`d by both binaries; it expects in scope:
//   `par`        the parallel module under test (the generated one on shuttle shims, or
//                seq_io::parallel with real threads),
//   `jitter(u64)` a function called inside every closure (seeded sleep / no-op),
//   `common::*`.

use std::io::Cursor;
use std::sync::atomic::{AtomicU64, Ordering as AO};

#[derive(Clone, Debug)]
pub struct RecCfg {
    pub fastq: bool,
    pub n: u32,
    pub q: usize,
    pub cap: usize,
    pub nrec: usize,
    pub wrap: usize,
    pub bad_at: Option<usize>,
    pub bad_kind: u64,
    /// the consumer closure returns Some(..) at its j-th record (1-based)
    pub stop_after: Option<usize>,
    /// use parallel_*_init
    pub init: bool,
    /// (only without init) use the generic `parallel_records` instead of the macro-generated function
    pub generic: bool,
    pub reader_init_fails: bool,
    pub rset_fail_at: Option<u64>,
    pub rec_fail_at: Option<u64>,
    /// the underlying source fails (io::ErrorKind::Other) at its j-th `read` call (0-based)
    pub io_fail_at: Option<u64>,
    pub seed: u64,
}

/// an in-memory source whose j-th read call fails
pub struct FailRead {
    inner: Cursor<Vec<u8>>,
    calls: u64,
    fail_at: Option<u64>,
}
impl FailRead {
    pub fn new(data: Vec<u8>, fail_at: Option<u64>) -> FailRead {
        FailRead { inner: Cursor::new(data), calls: 0, fail_at }
    }
}
impl std::io::Read for FailRead {
    fn read(&mut self, buf: &mut [u8]) -> std::io::Result<usize> {
        let c = self.calls;
        self.calls += 1;
        if self.fail_at == Some(c) {
            return Err(std::io::Error::new(std::io::ErrorKind::Other, "injected read failure"));
        }
        self.inner.read(buf)
    }
}

#[derive(Debug)]
pub struct ErrRI;
#[derive(Debug)]
pub struct ErrRS;
#[derive(Debug)]
pub struct ErrRD;

#[derive(Debug)]
pub enum HErr {
    Parse(String),
    ReaderInit,
    RsetInit,
    RecInit,
}
impl From<seq_io::fasta::Error> for HErr {
    fn from(e: seq_io::fasta::Error) -> HErr {
        HErr::Parse(format!("{:?}", e))
    }
}
impl From<seq_io::fastq::Error> for HErr {
    fn from(e: seq_io::fastq::Error) -> HErr {
        HErr::Parse(format!("{:?}", e))
    }
}
impl From<ErrRI> for HErr {
    fn from(_: ErrRI) -> HErr {
        HErr::ReaderInit
    }
}
impl From<ErrRS> for HErr {
    fn from(_: ErrRS) -> HErr {
        HErr::RsetInit
    }
}
impl From<ErrRD> for HErr {
    fn from(_: ErrRD) -> HErr {
        HErr::RecInit
    }
}

fn herr_str(e: &HErr) -> String {
    match e {
        HErr::Parse(s) => format!("Err:Parse:{}", s),
        HErr::ReaderInit => "Err:ReaderInit".to_string(),
        HErr::RsetInit => "Err:RsetInit".to_string(),
        HErr::RecInit => "Err:RecInit".to_string(),
    }
}

pub fn rec_input(cfg: &RecCfg) -> (Vec<common::Rec>, Vec<u8>) {
    let mut rng = common::Rng::new(cfg.seed);
    let recs = common::gen_records(&mut rng, cfg.nrec);
    let text = if cfg.fastq {
        common::fastq_text(&recs, cfg.bad_at, cfg.bad_kind)
    } else {
        common::fasta_text(&recs, cfg.wrap, cfg.bad_at.is_some())
    };
    (recs, text)
}

/// what the sequential reader (same capacity) returns: number of records, then the error
pub fn sequential(cfg: &RecCfg, text: &[u8]) -> (u64, Option<String>) {
    let mut n = 0u64;
    if cfg.fastq {
        let mut r = seq_io::fastq::Reader::with_capacity(FailRead::new(text.to_vec(), cfg.io_fail_at), cfg.cap);
        loop {
            match r.next() {
                None => return (n, None),
                Some(Ok(_)) => n += 1,
                Some(Err(e)) => return (n, Some(format!("{:?}", e))),
            }
        }
    } else {
        let mut r = seq_io::fasta::Reader::with_capacity(FailRead::new(text.to_vec(), cfg.io_fail_at), cfg.cap);
        loop {
            match r.next() {
                None => return (n, None),
                Some(Ok(_)) => n += 1,
                Some(Err(e)) => return (n, Some(format!("{:?}", e))),
            }
        }
    }
}

pub fn rec_cfg_json(cfg: &RecCfg, o: &mut common::JObj) {
    o.s("kind", "rec");
    let api = match (cfg.fastq, cfg.init) {
        (_, false) if cfg.generic => "parallel_records",
        (true, false) => "parallel_fastq",
        (true, true) => "parallel_fastq_init",
        (false, false) => "parallel_fasta",
        (false, true) => "parallel_fasta_init",
    };
    o.s("api", api);
    o.s("fmt", if cfg.fastq { "fastq" } else { "fasta" });
    o.u("n", cfg.n as u64).u("q", cfg.q as u64).u("cap", cfg.cap as u64).u("nrec", cfg.nrec as u64);
    o.u("wrap", cfg.wrap as u64);
    o.raw("bad_at", common::jopt_u(cfg.bad_at.map(|x| x as u64)));
    o.u("bad_kind", cfg.bad_kind);
    o.raw("stop_after", common::jopt_u(cfg.stop_after.map(|x| x as u64)));
    o.b("reader_init_fails", cfg.reader_init_fails);
    o.raw("rset_fail_at", common::jopt_u(cfg.rset_fail_at));
    o.raw("rec_fail_at", common::jopt_u(cfg.rec_fail_at));
    o.raw("io_fail_at", common::jopt_u(cfg.io_fail_at));
    o.raw("seed", format!("\"{}\"", cfg.seed));
}

macro_rules! rec_case_body {
    ($cfg:ident, $text:ident, $fmt:ident, $plain:ident, $init:ident, $seq:expr) => {{
        let seen: std::cell::RefCell<Vec<(String, u64)>> = std::cell::RefCell::new(Vec::new());
        let n_reader_init = AtomicU64::new(0);
        let n_rset = AtomicU64::new(0);
        let n_rec = AtomicU64::new(0);
        let count = std::cell::Cell::new(0usize);
        let stop = $cfg.stop_after;
        let reader = seq_io::$fmt::Reader::with_capacity(FailRead::new($text.clone(), $cfg.io_fail_at), $cfg.cap);
        let ret: String = if !$cfg.init && $cfg.generic {
            let r = par::parallel_records(
                reader,
                $cfg.n,
                $cfg.q,
                |rec: seq_io::$fmt::RefRecord, d: &mut u64| {
                    jitter(1);
                    use seq_io::$fmt::Record;
                    let s = $seq(&rec);
                    *d = common::rec_out(rec.id_bytes(), &s);
                },
                |rec: seq_io::$fmt::RefRecord, d: &u64| {
                    jitter(2);
                    use seq_io::$fmt::Record;
                    seen.borrow_mut().push((String::from_utf8_lossy(rec.id_bytes()).to_string(), *d));
                    count.set(count.get() + 1);
                    if stop == Some(count.get()) {
                        Some(count.get())
                    } else {
                        None
                    }
                },
            );
            match r {
                Ok(None) => "Ok:None".to_string(),
                Ok(Some(j)) => format!("Ok:Some:{}", j),
                Err(e) => format!("Err:Parse:{:?}", e),
            }
        } else if !$cfg.init {
            let r = par::$plain(
                reader,
                $cfg.n,
                $cfg.q,
                |rec, d: &mut u64| {
                    jitter(1);
                    use seq_io::$fmt::Record;
                    let s = $seq(&rec);
                    *d = common::rec_out(rec.id_bytes(), &s);
                },
                |rec, d: &mut u64| {
                    jitter(2);
                    use seq_io::$fmt::Record;
                    seen.borrow_mut().push((String::from_utf8_lossy(rec.id_bytes()).to_string(), *d));
                    count.set(count.get() + 1);
                    if stop == Some(count.get()) {
                        Some(count.get())
                    } else {
                        None
                    }
                },
            );
            match r {
                Ok(None) => "Ok:None".to_string(),
                Ok(Some(j)) => format!("Ok:Some:{}", j),
                Err(e) => format!("Err:Parse:{:?}", e),
            }
        } else {
            let rif = $cfg.reader_init_fails;
            let rsf = $cfg.rset_fail_at;
            let rdf = $cfg.rec_fail_at;
            let mut reader_slot = Some(reader);
            let r: Result<Option<usize>, HErr> = par::$init(
                $cfg.n,
                $cfg.q,
                || {
                    jitter(3);
                    n_reader_init.fetch_add(1, AO::SeqCst);
                    if rif {
                        Err(ErrRI)
                    } else {
                        Ok(reader_slot.take().unwrap())
                    }
                },
                || {
                    jitter(4);
                    let i = n_rec.fetch_add(1, AO::SeqCst);
                    if rdf == Some(i) {
                        Err(ErrRD)
                    } else {
                        Ok(0u64)
                    }
                },
                || {
                    jitter(5);
                    let i = n_rset.fetch_add(1, AO::SeqCst);
                    if rsf == Some(i) {
                        Err(ErrRS)
                    } else {
                        Ok(0u64)
                    }
                },
                |rec, d: &mut u64, s: &mut u64| {
                    jitter(1);
                    use seq_io::$fmt::Record;
                    let sq = $seq(&rec);
                    *d = common::rec_out(rec.id_bytes(), &sq);
                    *s += 1;
                },
                |rec, d: &mut u64, _s: &mut u64| {
                    jitter(2);
                    use seq_io::$fmt::Record;
                    seen.borrow_mut().push((String::from_utf8_lossy(rec.id_bytes()).to_string(), *d));
                    count.set(count.get() + 1);
                    if stop == Some(count.get()) {
                        Some(count.get())
                    } else {
                        None
                    }
                },
            );
            match r {
                Ok(None) => "Ok:None".to_string(),
                Ok(Some(j)) => format!("Ok:Some:{}", j),
                Err(e) => herr_str(&e),
            }
        };
        (
            seen.into_inner(),
            ret,
            n_reader_init.load(AO::SeqCst),
            n_rset.load(AO::SeqCst),
            n_rec.load(AO::SeqCst),
        )
    }};
}

/// the largest number of records one record set holds when the input is read set by set with the same reader
/// configuration (the reader is deterministic, so these are the sets the parallel run works on)
pub fn max_set_len(cfg: &RecCfg, text: &[u8]) -> u64 {
    let mut m = 0u64;
    if cfg.fastq {
        let mut r = seq_io::fastq::Reader::with_capacity(FailRead::new(text.to_vec(), cfg.io_fail_at), cfg.cap);
        let mut set = seq_io::fastq::RecordSet::default();
        while let Some(Ok(())) = r.read_record_set(&mut set) {
            m = m.max(set.len() as u64);
        }
    } else {
        let mut r = seq_io::fasta::Reader::with_capacity(FailRead::new(text.to_vec(), cfg.io_fail_at), cfg.cap);
        let mut set = seq_io::fasta::RecordSet::default();
        while let Some(Ok(())) = r.read_record_set(&mut set) {
            m = m.max(set.len() as u64);
        }
    }
    m
}

/// runs one per-record case to completion and returns the JSON fields of the observation
/// (without status; the caller adds it)
pub fn run_rec_case(cfg: &RecCfg) -> common::JObj {
    let (recs, text) = rec_input(cfg);
    let (seq_n, seq_err) = sequential(cfg, &text);
    let (seen, ret, c_ri, c_rs, c_rd) = if cfg.fastq {
        rec_case_body!(cfg, text, fastq, parallel_fastq, parallel_fastq_init, |r: &seq_io::fastq::RefRecord| r
            .seq()
            .to_vec())
    } else {
        rec_case_body!(cfg, text, fasta, parallel_fasta, parallel_fasta_init, |r: &seq_io::fasta::RefRecord| r
            .full_seq()
            .to_vec())
    };
    let mut o = common::JObj::new();
    rec_cfg_json(cfg, &mut o);
    o.raw("exp", common::jrecs(&recs));
    o.raw("seen", common::jpairs(&seen));
    o.s("ret", &ret);
    o.u("seq_n", seq_n);
    o.raw("seq_err", common::jopt_s(&seq_err));
    o.u("reader_init_calls", c_ri).u("rset_init_calls", c_rs).u("rec_init_calls", c_rd);
    o.u("max_set", max_set_len(cfg, &text));
    o
}
