//! Shims for the three primitives of parallel.rs (std::sync::mpsc::sync_channel,
//! crossbeam_utils::thread::scope, scoped_threadpool::Pool) on top of shuttle, logging
//! one event per completed operation in the vocabulary of Model/Par.v.
//!
//! Logging discipline: shuttle switches threads only at the *start* of a channel
//! operation (and while blocked), never between the state change and the return, and
//! drops do not switch; so an event logged right after the shimmed call returns is
//! logged at the operation's linearisation point.  EJobStart is logged while the pool's
//! queue lock is still held (otherwise two workers could log their dequeues out of
//! queue order).
#![allow(dead_code)]
use std::any::type_name;
use std::sync::Mutex as StdMutex;

pub static LOG: StdMutex<Vec<String>> = StdMutex::new(Vec::new());
/// (tag, content) of the set most recently filled (the reader executes it next)
pub static LAST_FILLED: StdMutex<(u64, u64)> = StdMutex::new((0, 0));

/// event logging is switched off for the per-record runs (their channel payloads are
/// the library's own types; those runs are judged by what the consumer sees)
pub static LOGGING: std::sync::atomic::AtomicBool = std::sync::atomic::AtomicBool::new(true);

pub fn log(s: String) {
    if LOGGING.load(std::sync::atomic::Ordering::SeqCst) {
        LOG.lock().unwrap_or_else(|e| e.into_inner()).push(s);
    }
}

pub fn take_log() -> Vec<String> {
    std::mem::take(&mut *LOG.lock().unwrap_or_else(|e| e.into_inner()))
}

pub fn set_last_filled(t: u64, c: u64) {
    *LAST_FILLED.lock().unwrap_or_else(|e| e.into_inner()) = (t, c);
}

/// the mock data set
#[derive(Debug, Default)]
pub struct DS {
    pub tag: u64,
    pub content: u64,
}
pub type Out = u64;
pub type RErr = u8;
pub type DoneMsg = Option<Result<(DS, Out), RErr>>;

fn as_ds<T>(t: &T) -> Option<&DS> {
    if type_name::<T>() == type_name::<DS>() {
        Some(unsafe { &*(t as *const T as *const DS) })
    } else {
        None
    }
}
fn as_done<T>(t: &T) -> Option<&DoneMsg> {
    if type_name::<T>() == type_name::<DoneMsg>() {
        Some(unsafe { &*(t as *const T as *const DoneMsg) })
    } else {
        None
    }
}

pub mod mpsc {
    use super::*;
    use shuttle::sync::mpsc as inner;
    pub use std::sync::mpsc::{RecvError, SendError, TryRecvError, TrySendError};

    pub struct SyncSender<T>(inner::SyncSender<T>);
    pub struct Receiver<T>(inner::Receiver<T>);

    pub fn sync_channel<T>(n: usize) -> (SyncSender<T>, Receiver<T>) {
        let (s, r) = inner::sync_channel(n);
        (SyncSender(s), Receiver(r))
    }

    impl<T> Clone for SyncSender<T> {
        fn clone(&self) -> Self {
            SyncSender(self.0.clone())
        }
    }

    fn describe_send<T>(t: &T) -> String {
        if let Some(ds) = as_ds(t) {
            format!("EEmptySend {}", ds.tag)
        } else if let Some(m) = as_done(t) {
            match m {
                Some(Ok((ds, o))) => format!("EJobSend {} {} {}", ds.tag, ds.content, o),
                Some(Err(_)) => "ESendErr".to_string(),
                None => "ESendEnd".to_string(),
            }
        } else {
            // a channel of the per-record layer (logging is off in those runs)
            "EOther".to_string()
        }
    }

    impl<T> SyncSender<T> {
        pub fn send(&self, t: T) -> Result<(), SendError<T>> {
            let d = describe_send(&t);
            let r = self.0.send(t);
            // shuttle's send has no scheduling point after the state change, so logging
            // after it returns is logging at the linearisation point
            log(format!("{} {}", d, r.is_ok()));
            r
        }
    }

    impl<T> SyncSender<T> {
        /// non-blocking send (not used by the library as it stands; a rewrite may use it): logged like `send`
        /// when it succeeds or finds the channel closed, not at all when the channel is full
        pub fn try_send(&self, t: T) -> Result<(), TrySendError<T>> {
            let d = describe_send(&t);
            let r = self.0.try_send(t);
            match &r {
                Ok(()) => log(format!("{} true", d)),
                Err(TrySendError::Disconnected(_)) => log(format!("{} false", d)),
                Err(TrySendError::Full(_)) => {}
            }
            r
        }
    }

    impl<T> Receiver<T> {
        /// non-blocking receive: logged like `recv` unless the channel is empty
        pub fn try_recv(&self) -> Result<T, TryRecvError> {
            match self.0.try_recv() {
                Err(TryRecvError::Empty) => Err(TryRecvError::Empty),
                Ok(v) => {
                    let r = Ok(v);
                    log_recv(&r);
                    r.map_err(|_: RecvError| TryRecvError::Disconnected)
                }
                Err(TryRecvError::Disconnected) => {
                    log_recv::<T>(&Err(RecvError));
                    Err(TryRecvError::Disconnected)
                }
            }
        }
    }

    fn log_recv<T>(r: &Result<T, RecvError>) {
        if type_name::<T>() == type_name::<DS>() {
            match r {
                Ok(v) => log(format!("EEmptyRecv Some {}", as_ds(v).unwrap().tag)),
                Err(_) => log("EEmptyRecv None".to_string()),
            }
        } else if type_name::<T>() == type_name::<DoneMsg>() {
            match r {
                Ok(v) => match as_done(v).unwrap() {
                    Some(Ok((ds, o))) => log(format!("EDoneRecv RData {} {} {}", ds.tag, ds.content, o)),
                    Some(Err(_)) => log("EDoneRecv RErr".to_string()),
                    None => log("EDoneRecv REnd".to_string()),
                },
                Err(_) => log("EDoneRecv RClosed".to_string()),
            }
        }
    }

    impl<T> Receiver<T> {
        pub fn recv(&self) -> Result<T, RecvError> {
            let r = self.0.recv();
            if type_name::<T>() == type_name::<DS>() {
                match &r {
                    Ok(v) => log(format!("EEmptyRecv Some {}", as_ds(v).unwrap().tag)),
                    Err(_) => log("EEmptyRecv None".to_string()),
                }
            } else if type_name::<T>() == type_name::<DoneMsg>() {
                match &r {
                    Ok(v) => match as_done(v).unwrap() {
                        Some(Ok((ds, o))) => {
                            log(format!("EDoneRecv RData {} {} {}", ds.tag, ds.content, o))
                        }
                        Some(Err(_)) => log("EDoneRecv RErr".to_string()),
                        None => log("EDoneRecv REnd".to_string()),
                    },
                    Err(_) => log("EDoneRecv RClosed".to_string()),
                }
            }
            r
        }
    }

    impl<T> Drop for Receiver<T> {
        fn drop(&mut self) {
            // done_recv lives on the consumer side only: its drop is the drop of the handle
            if type_name::<T>() == type_name::<DoneMsg>() {
                log("EDropHandle".to_string());
            }
        }
    }
}

// ---------------------------------------------------------------------------
// crossbeam_utils::thread::scope stand-in
// ---------------------------------------------------------------------------
use shuttle::sync::{Arc, Mutex};
use shuttle::thread as sthread;
use std::any::Any;
use std::marker::PhantomData;

type JoinSlot = Arc<Mutex<Option<sthread::JoinHandle<()>>>>;

pub struct Scope<'env> {
    handles: Arc<Mutex<Vec<JoinSlot>>>,
    _marker: PhantomData<&'env mut &'env ()>,
}

pub struct ScopedJoinHandle<'scope, T> {
    slot: JoinSlot,
    result: Arc<Mutex<Option<T>>>,
    _marker: PhantomData<&'scope ()>,
}

impl<'scope, T> ScopedJoinHandle<'scope, T> {
    pub fn join(self) -> Result<T, Box<dyn Any + Send + 'static>> {
        let h = self.slot.lock().unwrap().take();
        if let Some(h) = h {
            h.join()?;
            log("EJoinReader".to_string());
        }
        Ok(self.result.lock().unwrap().take().unwrap())
    }
}

impl<'env> Scope<'env> {
    pub fn spawn<'scope, F, T>(&'scope self, f: F) -> ScopedJoinHandle<'scope, T>
    where
        F: FnOnce(&Scope<'env>) -> T + Send + 'env,
        T: Send + 'env,
    {
        let result: Arc<Mutex<Option<T>>> = Arc::new(Mutex::new(None));
        let result2 = result.clone();
        let handles = self.handles.clone();
        let closure: Box<dyn FnOnce() + Send + 'env> = Box::new(move || {
            let scope = Scope { handles, _marker: PhantomData };
            // f is consumed by the call: its captures are dropped when it returns
            let r = f(&scope);
            log("EReaderExit".to_string());
            *result2.lock().unwrap() = Some(r);
        });
        let closure: Box<dyn FnOnce() + Send + 'static> = unsafe { std::mem::transmute(closure) };
        let h = sthread::spawn(closure);
        let slot: JoinSlot = Arc::new(Mutex::new(Some(h)));
        self.handles.lock().unwrap().push(slot.clone());
        ScopedJoinHandle { slot, result, _marker: PhantomData }
    }
}

pub fn scope<'env, F, R>(f: F) -> Result<R, Box<dyn Any + Send + 'static>>
where
    F: FnOnce(&Scope<'env>) -> R,
{
    let scope = Scope { handles: Arc::new(Mutex::new(Vec::new())), _marker: PhantomData };
    // the closure's captures are dropped when it returns, then all threads are joined
    let r = f(&scope);
    let hs: Vec<JoinSlot> = scope.handles.lock().unwrap().drain(..).collect();
    for slot in hs {
        let h = slot.lock().unwrap().take();
        if let Some(h) = h {
            h.join()?;
            log("EJoinReader".to_string());
        }
    }
    Ok(r)
}

// ---------------------------------------------------------------------------
// scoped_threadpool 0.1.9 transcribed onto shuttle
// ---------------------------------------------------------------------------
use shuttle::sync::mpsc::{channel, sync_channel, Receiver as SReceiver, Sender as SSender, SyncSender as SSyncSender};

enum Message {
    NewJob(Thunk<'static>, u64, u64),
    Join,
}
type Thunk<'a> = Box<dyn FnOnce() + Send + 'a>;

pub struct Pool {
    threads: Vec<ThreadData>,
    job_sender: Option<SSender<Message>>,
}
struct ThreadData {
    _thread_join_handle: sthread::JoinHandle<()>,
    pool_sync_rx: SReceiver<()>,
    thread_sync_tx: SSyncSender<()>,
}
impl Drop for Pool {
    fn drop(&mut self) {
        self.job_sender = None;
    }
}
impl Pool {
    pub fn new(n: u32) -> Pool {
        assert!(n >= 1);
        let (job_sender, job_receiver) = channel();
        let job_receiver = Arc::new(Mutex::new(job_receiver));
        let mut threads = Vec::with_capacity(n as usize);
        for _ in 0..n {
            let job_receiver = job_receiver.clone();
            let (pool_sync_tx, pool_sync_rx) = sync_channel::<()>(0);
            let (thread_sync_tx, thread_sync_rx) = sync_channel::<()>(0);
            let thread = sthread::spawn(move || loop {
                let message = {
                    let lock = job_receiver.lock().unwrap();
                    let m = lock.recv();
                    // log the dequeue while the queue lock is still held
                    if let Ok(Message::NewJob(_, t, c)) = &m {
                        log(format!("EJobStart {} {}", t, c));
                    }
                    m
                };
                match message {
                    Ok(Message::NewJob(job, _, _)) => {
                        job();
                    }
                    Ok(Message::Join) => {
                        if pool_sync_tx.send(()).is_err() {
                            break;
                        }
                        if thread_sync_rx.recv().is_err() {
                            break;
                        }
                    }
                    Err(..) => break,
                }
            });
            threads.push(ThreadData { _thread_join_handle: thread, pool_sync_rx, thread_sync_tx });
        }
        Pool { threads, job_sender: Some(job_sender) }
    }

    pub fn scoped<'pool, 'scope, F, R>(&'pool mut self, f: F) -> R
    where
        F: FnOnce(&PoolScope<'pool, 'scope>) -> R,
    {
        let scope = PoolScope { pool: self, _marker: PhantomData };
        f(&scope)
    }
}

pub struct PoolScope<'pool, 'scope> {
    pool: &'pool mut Pool,
    _marker: PhantomData<::std::cell::Cell<&'scope mut ()>>,
}

impl<'pool, 'scope> PoolScope<'pool, 'scope> {
    pub fn execute<F>(&self, f: F)
    where
        F: FnOnce() + Send + 'scope,
    {
        let (t, c) = *LAST_FILLED.lock().unwrap_or_else(|e| e.into_inner());
        let b = unsafe { std::mem::transmute::<Thunk<'scope>, Thunk<'static>>(Box::new(f)) };
        self.pool.job_sender.as_ref().unwrap().send(Message::NewJob(b, t, c)).unwrap();
        log(format!("EExecute {} {}", t, c));
    }

    fn join_all_inner(&self) {
        for _ in 0..self.pool.threads.len() {
            self.pool.job_sender.as_ref().unwrap().send(Message::Join).unwrap();
        }
        let mut worker_panic = false;
        for thread_data in &self.pool.threads {
            if thread_data.pool_sync_rx.recv().is_err() {
                worker_panic = true;
            }
        }
        if worker_panic {
            panic!("Thread pool worker panicked");
        }
        for thread_data in &self.pool.threads {
            thread_data.thread_sync_tx.send(()).unwrap();
        }
    }

    pub fn join_all(&self) {
        self.join_all_inner();
        log("EJoinAll".to_string());
    }
}

impl<'pool, 'scope> Drop for PoolScope<'pool, 'scope> {
    fn drop(&mut self) {
        self.join_all_inner();
        log("EScopeEnd".to_string());
    }
}

/// `crossbeam_utils::…` and `scoped_threadpool::…` paths of the generated source are redirected here (build.rs)
pub mod cb {
    pub mod thread {
        pub use super::super::{scope, Scope, ScopedJoinHandle};
    }
}
pub mod stp {
    pub use super::{Pool, PoolScope as Scope};
}
