(* Driver for the extracted model: one case per input line, trace lines out.
   Everything but byte<->nat conversion and I/O is extracted Coq code. *)
open Model

let nat_tab = Array.make 256 O
let () = for i = 1 to 255 do nat_tab.(i) <- S nat_tab.(i-1) done

let rec to_int (n : nat) (acc : int) : int =
  match n with O -> acc | S m -> to_int m (acc + 1)

let bytes_of_string (s : string) : nat list =
  let r = ref [] in
  for i = String.length s - 1 downto 0 do
    r := nat_tab.(Char.code s.[i]) :: !r
  done; !r

let string_of_bytes (l : nat list) : string =
  let b = Buffer.create 256 in
  List.iter (fun n -> Buffer.add_char b (Char.chr ((to_int n 0) land 255))) l;
  Buffer.contents b

let () =
  let ic = if Array.length Sys.argv > 1 then open_in Sys.argv.(1) else stdin in
  let i = ref 0 in
  (try
    while true do
      let line = input_line ic in
      if String.length line > 0 && line.[0] <> '#' then begin
        Printf.printf "#case %d\n" !i;
        print_string (string_of_bytes (run_line (bytes_of_string line)));
        incr i
      end
    done
  with End_of_file -> ());
  flush stdout
