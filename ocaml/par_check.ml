(* par_check <logfile>

   Replays event logs of the real parallel.rs (printed by harness_par/parshuttle) on the
   model extracted from theories/Model/Par.v (par.ml, ExtrOcamlBasic only: nat is O | S).

   Input: blocks
       CFG n q rinit_ok (None | Some j) k (ScriptEnd|ScriptErr) (Drain|DrainStopErr|StopAfter k)
       SCHED kind seed cfg-index  (optional, echoed as kind:seed:index)
       <event> ...
       END
   other lines (REC.., ABNORMAL.., STAT.., DONE..) are ignored.

   Output: one line per block
       OK <sched> <cfg>
       REJECTED <k> <sched> <cfg>      the k-th event (0-based) is not enabled in the model
       NOTFINAL <sched> <cfg>          all events accepted but the run does not end in a final state
   and a last line  SUMMARY runs=.. ok=.. rejected=.. notfinal=.. parse_errors=..
   exit status 0 iff everything is OK. *)
open Par

let rec nat_of_int n = if n <= 0 then O else S (nat_of_int (n - 1))
let rec int_of_nat = function O -> 0 | S n -> 1 + int_of_nat n

(* the work function of the harness: content * 3 + 1 (common::mock_work) *)
let work c = nat_of_int (int_of_nat c * 3 + 1)

let words s = String.split_on_char ' ' s |> List.filter (fun w -> w <> "")
let b = function "true" -> true | "false" -> false | s -> failwith ("bool " ^ s)
let i s = nat_of_int (int_of_string s)

let parse_cfg ws =
  match ws with
  | "CFG" :: n :: q :: rok :: rest ->
    let df, rest =
      match rest with
      | "None" :: r -> (None, r)
      | "Some" :: j :: r -> (Some (i j), r)
      | _ -> failwith "cfg: dinit_fail" in
    (match rest with
     | k :: fe :: cons ->
       let fe = (match fe with
           | "ScriptEnd" -> ScriptEnd | "ScriptErr" -> ScriptErr | _ -> failwith "cfg: script") in
       let cons = (match cons with
           | ["Drain"] -> Drain
           | ["DrainStopErr"] -> DrainStopErr
           | ["StopAfter"; k] -> StopAfter (i k)
           | _ -> failwith "cfg: consumer") in
       { nworkers = i n; qlen = i q; rinit_ok = b rok; dinit_fail = df;
         fills = (i k, fe); consumer = cons; work = work }
     | _ -> failwith "cfg")
  | _ -> failwith "cfg"

let parse_ev ws =
  match ws with
  | ["EDatasetInit"; "None"] -> EDatasetInit None
  | ["EDatasetInit"; "Some"; t] -> EDatasetInit (Some (i t))
  | ["EEmptySend"; t; ok] -> EEmptySend (i t, b ok)
  | ["EDoneRecv"; "RData"; t; c; o] -> EDoneRecv (RData (i t, i c, i o))
  | ["EDoneRecv"; "RErr"] -> EDoneRecv RErr
  | ["EDoneRecv"; "REnd"] -> EDoneRecv REnd
  | ["EDoneRecv"; "RClosed"] -> EDoneRecv RClosed
  | ["EConsume"; "CData"; t; c; o] -> EConsume (CData (i t, i c, i o))
  | ["EConsume"; "CErr"] -> EConsume CErr
  | ["EConsume"; "CNone"] -> EConsume CNone
  | ["EDropHandle"] -> EDropHandle
  | ["EJoinReader"] -> EJoinReader
  | ["EReturn"; ok] -> EReturn (b ok)
  | ["EReaderInit"; ok] -> EReaderInit (b ok)
  | ["EEmptyRecv"; "None"] -> EEmptyRecv None
  | ["EEmptyRecv"; "Some"; t] -> EEmptyRecv (Some (i t))
  | ["EFill"; t; "FOk"; c] -> EFill (i t, FOk (i c))
  | ["EFill"; t; "FErr"] -> EFill (i t, FErr)
  | ["EFill"; t; "FEnd"] -> EFill (i t, FEnd)
  | ["EExecute"; t; c] -> EExecute (i t, i c)
  | ["ESendErr"; ok] -> ESendErr (b ok)
  | ["EJoinAll"] -> EJoinAll
  | ["ESendEnd"; ok] -> ESendEnd (b ok)
  | ["EScopeEnd"] -> EScopeEnd
  | ["EReaderExit"] -> EReaderExit
  | ["EJobStart"; t; c] -> EJobStart (i t, i c)
  | ["EWork"; t; c; o] -> EWork (i t, i c, i o)
  | ["EJobSend"; t; c; o; ok] -> EJobSend (i t, i c, i o, b ok)
  | _ -> failwith ("event: " ^ String.concat " " ws)

(* index of the first rejected event, or the final state *)
let replay cfg evs =
  let rec go s k = function
    | [] -> Ok s
    | e :: r -> (match apply cfg s e with Some s' -> go s' (k + 1) r | None -> Error k) in
  go init_state 0 evs

let () =
  if Array.length Sys.argv < 2 then (prerr_endline "usage: par_check <logfile>"; exit 2);
  let ic = if Sys.argv.(1) = "-" then stdin else open_in Sys.argv.(1) in
  let total = ref 0 and ok = ref 0 and bad = ref 0 and notfinal = ref 0 and perr = ref 0 in
  let cur_cfg = ref None and cur_line = ref "" and sched = ref "-" and evs = ref []
  and in_block = ref false and broken = ref false in
  (try
     while true do
       let l = input_line ic in
       let ws = words l in
       match ws with
       | "CFG" :: _ ->
         in_block := true; broken := false; evs := []; sched := "-"; cur_line := l;
         (try cur_cfg := Some (parse_cfg ws)
          with Failure m -> (broken := true; incr perr; Printf.printf "PARSE-ERROR %s: %s\n" m l))
       | "SCHED" :: rest when !in_block -> sched := String.concat ":" rest
       | ["END"] when !in_block ->
         in_block := false;
         if not !broken then begin
           incr total;
           let cfg = Option.get !cur_cfg in
           match replay cfg (List.rev !evs) with
           | Ok s when final s -> incr ok; Printf.printf "OK %s %s\n" !sched !cur_line
           | Ok _ -> incr notfinal; Printf.printf "NOTFINAL %s %s\n" !sched !cur_line
           | Error k -> incr bad; Printf.printf "REJECTED %d %s %s\n" k !sched !cur_line
         end
       | _ when !in_block && not !broken ->
         (try evs := parse_ev ws :: !evs
          with Failure m -> (broken := true; incr perr; Printf.printf "PARSE-ERROR %s: %s\n" m !cur_line))
       | _ -> ()
     done
   with End_of_file -> ());
  Printf.printf "SUMMARY runs=%d ok=%d rejected=%d notfinal=%d parse_errors=%d\n"
    !total !ok !bad !notfinal !perr;
  exit (if !bad = 0 && !notfinal = 0 && !perr = 0 then 0 else 1)
