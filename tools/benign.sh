#!/bin/bash
# applies every benign/*.diff to /repo in turn, runs the listed quick checks, undoes the edit
cd "$(dirname "$0")/.."
run() { b=$1; shift; git -C /repo apply "$PWD/benign/$b.diff" || { echo "$b: patch does not apply"; return; }
        for p in "$@"; do echo -n "$b $p: "; python3 tools/check $p quick 2>&1 | tail -2 | tr '\n' ' '; echo; done
        git -C /repo checkout -- .; }
run B1_policy_let C09
run B2_fill_buf_refactor C01 C14
run B3_display_reword C17
run B4_make_room_foreach C01 C18
run B5_parallel_rename C07 C15
run B6_new_method C02
run B7_serde_field_order C19
run B8_validate_helper C02 C17
run B9_write_head_explicit_ok C10
run B10_fq_display_reorder_reword C17
run B11_policy_some_inside C09
run B12_bufsize_shift C09 C01
# round 2 (fourteen larger refactorings from an independent worker; benign/README-round2.md has the equivalence arguments)
run N01_fasta_next_init_first_byte C01 C05
run N02_fasta_search_loop C01
run N03_fasta_resume_grow_make_room_seek C01 C05 C09
run N04_fasta_read_record_set_exact C04
run N05_fastq_search_unified C02
run N06_fastq_validate_error_pos C02 C17
run N07_fastq_resume_check_end_make_room_seek C02 C05
run N08_parallel_reader_loop C07 C08
run N09_parallel_next_and_record_loops C07 C15
run N10_lib_fill_buf_trim_cr_try_opt C01 C14
run N11_policy_shared_helper C09
run N12_writers_wrap_loop_shared_tail C10 C11
run N13_record_views_seq_lines_windows C13 C20
run N14_error_display_impls C17
git -C /repo status --short | head -3
run N15_parallel_imports C07 C16
run N16_seq_pos_vec_new C18 C01
