#!/bin/bash
# applies every benign/*.diff to /repo in turn, runs the listed quick checks, undoes the edit
cd "$(dirname "$0")/.."
run() { b=$1; shift; git -C /repo apply "$PWD/benign/$b.diff" || { echo "$b: patch does not apply"; return; }
        for p in "$@"; do echo -n "$b $p: "; python3 tools/check $p quick 2>&1 | tail -2 | tr '\n' ' '; echo; done
        git -C /repo checkout -- .; }
run B1_policy_let C09
run B2_fill_buf_refactor C01 C14
run B3_display_reword C17
run B4_make_room_foreach C01 C18
run B5_parallel_rename C07 C15
run B6_new_method C02
run B7_serde_field_order C19
run B8_validate_helper C02 C17
run B9_write_head_explicit_ok C10
run B10_fq_display_reorder_reword C17
run B11_policy_some_inside C09
run B12_bufsize_shift C09 C01
git -C /repo status --short | head -3
