"""Case generators for the correspondence checks (DESIGN.md section 9).
Every random choice comes from one SplitMix64 state (vlib.Rng)."""
import itertools

FA_ALPHA = [0x3e, 0x0a, 0x0d, 0x41, 0x20]
FQ_ALPHA = [0x40, 0x2b, 0x0a, 0x0d, 0x41]


def hx(b):
    return bytes(b).hex() or '-'


def lst(l):
    return ','.join(l) if l else '-'


def mkcase(fmt, cap, inp, rs=None, ss=None, pol='std', ops=None):
    return '%s %d %s %s %s %s %s' % (fmt, cap, hx(inp), lst(rs or []), lst(ss or []), pol, lst(ops or ['N']))


def chunkings(n):
    """read scripts: whole, one byte at a time, two bytes at a time"""
    return [[], ['D0'] * (n + 2), ['D1'] * (n // 2 + 2)]


def n_items_bound(fmt, inp):
    c = bytes(inp).count(b'>' if fmt == 'fa' else b'@')
    return c + 2


def exhaustive(fmt, L, ops_fn=None, caps=None, chunks=None):
    """all strings up to length L over the format alphabet x capacities 3..len+2 x chunkings"""
    alpha = FA_ALPHA if fmt == 'fa' else FQ_ALPHA
    out = []
    for n in range(0, L + 1):
        for s in itertools.product(alpha, repeat=n):
            k = n_items_bound(fmt, s)
            ops = ops_fn(s) if ops_fn else ['N'] * k
            for cap in (caps or range(3, n + 3)):
                for rs in (chunks if chunks is not None else chunkings(n)):
                    out.append(mkcase(fmt, cap, s, rs, None, 'std', ops))
    return out


# ---------------------------------------------------------------------------
# structured inputs

def rnd_line(rng, n, alpha=b'ACGTN'):
    return bytes(rng.choice(alpha) for _ in range(n))


def rnd_head(rng):
    kind = rng.below(10)
    if kind == 0:
        return b''
    idlen = rng.range(0, 4)
    h = rnd_line(rng, idlen, b'abcxyz01')
    if rng.chance(1, 2):
        h += b' ' + rnd_line(rng, rng.range(0, 5), b'desc =')
    if rng.chance(1, 8):
        h = b' ' + h
    if rng.chance(1, 8):
        # other ASCII whitespace than the space: only the first SPACE separates id and description
        ws = rng.choice([b'\t', b'\x0b', b'\x0c', b'\t '])
        k = rng.below(len(h) + 1)
        h = h[:k] + ws + h[k:]
    if rng.chance(1, 8):
        # the characters that START records / separator lines, inside a header: a reader that resumes a search at
        # a wrong offset finds "records" here
        k = rng.below(len(h) + 1)
        h = h[:k] + rng.choice([b'@', b'>', b'+', b'@c', b'>x']) + h[k:]
    if rng.chance(1, 10):
        # non-UTF-8 / multi-byte content
        h += rng.choice([b'\xff', b'\xc3\xa9', b'\xe2\x82', b'\x80', b'\xf0\x9f\x98\x80', b'\xed\xa0\x80', b'\x00'])
    return h


def fasta_file(rng, cap, nrec=None):
    """well-formed FASTA text; record sizes chosen relative to the capacity"""
    nrec = rng.range(1, 6) if nrec is None else nrec
    out = b''
    for _ in range(rng.below(3) if rng.chance(1, 3) else 0):
        out += rng.choice([b'\n', b'\r\n'])
    for r in range(nrec):
        term = lambda: rng.choice([b'\n', b'\n', b'\r\n'])
        out += b'>' + rnd_head(rng) + term()
        nlines = rng.choice([0, 1, 1, 2, 3, 4])
        target = rng.choice([cap - 2, cap - 1, cap, cap + 1, cap + 2, 2 * cap - 1, 2 * cap + 1, 3, 5, 8])
        per = max(0, target // max(1, nlines)) if rng.chance(2, 3) else rng.range(0, 6)
        for i in range(nlines):
            n = per if rng.chance(3, 4) else rng.range(0, 4)
            out += rnd_line(rng, n) + term()
            if rng.chance(1, 8):
                out += term()  # blank line inside the sequence
    if rng.chance(1, 3) and out.endswith(b'\n'):
        out = out[:-2] if out.endswith(b'\r\n') else out[:-1]
    return out


def fastq_record(rng, n, crlf, head=None):
    t = b'\r\n' if crlf else b'\n'
    head = rnd_head(rng) if head is None else head
    seq = rnd_line(rng, n)
    qual = rnd_line(rng, n, b'IJK@+!~')
    sep = b'+' + (head if rng.chance(1, 4) else b'')
    return b'@' + head + t + seq + t + sep + t + qual + t


def fastq_file(rng, cap, nrec=None):
    nrec = rng.range(1, 6) if nrec is None else nrec
    crlf = rng.chance(1, 3)
    out = b''
    for _ in range(nrec):
        target = rng.choice([cap - 2, cap - 1, cap, cap + 1, 2 * cap, 4, 9])
        n = max(0, (target - 8) // 2) if rng.chance(2, 3) else rng.range(0, 5)
        out += fastq_record(rng, n, crlf)
    k = rng.below(4)
    if k == 1:
        out = out[:-2] if crlf else out[:-1]      # no final terminator
    elif k == 2:
        for _ in range(rng.range(1, 2)):
            out += b'\r\n' if crlf else b'\n'      # blank tail
    return out


def malform(rng, fmt, text):
    """break one rule somewhere / sprinkle arbitrary bytes"""
    b = bytearray(text)
    if not b:
        return bytes([rng.below(256)])
    k = rng.below(6)
    i = rng.below(len(b))
    if k == 0:
        b[i] = rng.below(256)
    elif k == 1:
        del b[i]
    elif k == 2:
        b.insert(i, rng.choice([0x0a, 0x0d, 0x3e, 0x40, 0x2b, 0x00, 0xff, 0x20]))
    elif k == 3:
        b = b[:i]                                   # truncation
    elif k == 4:
        starts = [j for j in range(len(b)) if b[j] in (0x3e, 0x40, 0x2b)]
        if starts:
            b[rng.choice(starts)] = rng.choice([0x41, 0x3b, 0x0a, 0x2b, 0x40])
    else:
        for _ in range(rng.range(1, 4)):
            b[rng.below(len(b))] = rng.below(256)
    return bytes(b)


def rnd_chunking(rng, n):
    k = rng.below(4)
    if k == 0:
        return []
    if k == 1:
        return ['D0'] * (n + 2)
    if k == 2:
        return ['D%d' % rng.below(4) for _ in range(n + 2)]
    return ['D%d' % rng.below(3) if rng.chance(3, 4) else 'I' for _ in range(n + 4)]


def rnd_policy(rng, progressing=True):
    k = rng.below(5)
    if k == 0:
        return 'std'
    if k == 1:
        return 'du.%d' % rng.range(1, 40)
    if k == 2:
        return 'plus.%d.100000' % rng.range(1, 7)
    if k == 3:
        return 'dul.%d.100000' % rng.range(1, 30)
    return 'std'


def structured(fmt, rng, n, malformed_share=4, ops_fn=None):
    out = []
    for _ in range(n):
        cap = rng.choice([3, 4, 5, 6, 7, 8, 10, 13, 16, 24, 32, 64])
        text = fasta_file(rng, cap) if fmt == 'fa' else fastq_file(rng, cap)
        if rng.below(malformed_share) == 0:
            text = malform(rng, fmt, text)
        k = n_items_bound(fmt, text)
        ops = ops_fn(rng, text) if ops_fn else ['N'] * k
        out.append(mkcase(fmt, cap, text, rnd_chunking(rng, len(text)), None, rnd_policy(rng), ops))
    return out


def record_positions(fmt, text):
    """(line, byte) of the places where the format rules let a record start: every line beginning
    with '>' (FASTA), every fourth line from the first non-skipped one (FASTQ).  Used only to AIM
    seeks (K ops) at record positions without reading them first; the oracle decides from the
    Spec stream what a target is (a target that is no item start switches the cursor oracle off)."""
    text = bytes(text)
    out = []
    off = 0
    lines = text.split(b'\n')
    if fmt == 'fa':
        for i, l in enumerate(lines):
            if l.startswith(b'>'):
                out.append((i + 1, off))
            off += len(l) + 1
    else:
        for i, l in enumerate(lines):
            if i % 4 == 0 and off < len(text):
                out.append((i + 1, off))
            off += len(l) + 1
    return out


def kseek(rng, pos):
    l, b = rng.choice(pos)
    return 'K%d.%d' % (l, b)


def rnd_history(rng, text, fmt, with_seek=True, maxlen=12):
    """random operation list biased towards switches between kinds; seeks go to saved positions (J)
    and, without having read them, to record positions computed from the text (K) -- also as the
    very first operation on a new reader"""
    ops = []
    n = rng.range(2, maxlen)
    saved = 0
    pos = record_positions(fmt, text) if with_seek else []
    if pos and rng.chance(1, 5):
        ops.append(kseek(rng, pos))
    for _ in range(n):
        k = rng.below(13)
        if k == 12:
            if pos:
                ops.append(kseek(rng, pos))
            continue
        if k <= 2:
            ops.append('N')
        elif k == 3:
            ops.append('O')
        elif k <= 5:
            ops.append('S%d' % rng.below(2))
        elif k <= 7:
            ops.append('E%d.%d' % (rng.below(2), rng.range(1, 4)))
        elif k == 8:
            ops.append('I%d' % rng.below(2))
        elif k == 9:
            ops.append('P')
            saved += 1
        elif k == 10 and with_seek and saved:
            ops.append('J%d' % rng.below(8))
        else:
            ops.append('N')
            ops.append('P')
            saved += 1
    ops += ['N', 'N']
    return ops
