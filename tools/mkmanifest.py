#!/usr/bin/env python3
"""Writes /verif/MANIFEST.json from the table below (one entry per claimed property)."""
import json, os
ROOT = os.path.dirname(os.path.dirname(os.path.abspath(__file__)))

COMMON_NOTE = ('Trusted: Coq 8.16.1 kernel (no axioms: Print Assumptions of every theorem is checked to be closed under the '
               'global context on every run); the hand-written Gallina model of the code, tied to /repo by the differential '
               'correspondence run (extracted OCaml model vs the real API on the same cases, a sample re-evaluated by vm_compute '
               'inside Coq), by tools/translate.py for the declarative parts (Gen/*.v regenerated from /repo/src on every run), and - second tie for the '
               'reader logic - by tools/translate_core.py, which regenerates Gallina definitions of every reader method from the source (coq/core/CoreGen.v) '
               'that are proved equal to the hand-written model (coq/core/CoreGenP.v, 40 equalities), and tools/translate_views.py, which does the same for record views, '
               'SeqLines, owned copies, writer loops and the set / owned-record iterators (coq/core/ViewsGen.v, RecordsGen.v, 64 equalities), and tools/translate_par.py for the record-level closures of '
               'parallel.rs, parallel_records and ParallelRecordsets::next (coq/core/ParGen.v, 23 lemmas against Model/Par.v); when a translator tie is lost (also one of tools/translate.py) the correspondence run is deepened; '
               'extraction (ExtrOcamlBasic only); the Rust harness. Modelled, not verified: buffer_redux window semantics, memchr, '
               'std iterator adaptors, serde_derive, channel/thread-pool primitives (DESIGN.md section 8).')

CLAIMS = {
 'C01': dict(
    text='Theorem C01_fasta_next_refines_spec: for EVERY input, capacity >= 3, fault-free read script (any chunking, interrupted reads) and '
         'never-refusing policy, the outcomes of successive next() calls of the reader model are, one by one, the items of the line-based '
         'whole-input specification fa_spec (records with header, sequence lines and coordinates, or the single InvalidStart), then end of '
         'input for ever; proved by induction (window invariant, resumable search, termination measure). Tie: model vs real reader on all '
         'strings up to length 5-7 over the format alphabet x all capacities x 3 chunkings plus structured random files; the extracted fa_spec is the oracle.',
    technique='Coq refinement proof (reader model refines whole-input spec; induction over input/calls) + model/implementation differential run',
    ref='5 C01'),
 'C02': dict(
    text='Theorems C02_fastq_next_refines_spec (for every input, capacity, chunking, policy the fq_next outcomes are exactly the items of '
         'fq_spec_all: records with head/seq/qual and coordinates, then the single error with all fields, then end) and the Spec-level theorems '
         'of C02s.v (length verdict = trimmed lengths equal, for any terminators; error kinds and lines; blank tail; error terminal). '
         'Tie: exhaustive small scope + structured random files incl. malformed ones, model vs implementation vs extracted fq_spec.',
    technique='Coq refinement proof (FASTQ reader model refines fq_spec) + Spec-level theorems + differential run',
    ref='5 C02'),
 'C03': dict(
    text='Theorems C03_fasta_config_independence / C03_fastq_config_independence: two ARBITRARY configurations (capacity x read script incl. '
         'interrupts x policy) of the same input give, call by call, the same record contents, positions, error fields and end signal '
         '(corollary of the two refinement theorems; no reference run in the statement), and C03_fill_buf_chunking_invisible for the refill loop. '
         'Record sets (C03s.v): two arbitrary seek-free histories (any mixture of single, owned, plain and exact-count set reads) on two arbitrary configurations deliver '
         'the same contents (prefixes of one another; equal once both reported the end) - corollaries of the exactly-once theorems. "Every growth policy that permits the needed size" '
         '(C03p.v, 15 theorems): on an input whose records all fit into the initial capacity NO policy is ever consulted, so two ARBITRARY policies (refusing everything, answering nonsense) '
         'give identical observations, which are the Spec stream; more generally a run that logs no consultation is identical under every other policy (all operations, both formats). '
         'Run: pairwise comparison of implementation traces across 7-9 configurations per input (incl. refusing policies on buffers that hold the whole input, and limited policies that permit '
         'exactly the doubling chain the model needs), plus model/implementation comparison of the read-call and grow_to logs.',
    technique='Coq proof (corollary of the refinement theorems for next(); fill_buf lemma) + pairwise differential run across configurations',
    ref='5 C03'),
 'C04': dict(
    text='Theorems of C04fa.v (FASTA; 8): ANY history of single reads, owned reads, record-set reads, exact-count reads (n >= 1) into two slots, '
         're-iteration, position queries and seeks to record positions on one reader refines the abstract cursor machine over fa_spec (Spec/Cursor.v): '
         'exactly once and in order (C04_exactly_once), sets non-empty, exact counts = min n remaining, a refilled set shows only the new batch, the other '
         'slot is unchanged, position after a set read = next unread record; for every input, capacity >= 3, chunking and never-refusing policy. '
         'FASTQ: C04q.v (7) proves the same against the stricter machine Spec/CursorQ.v (and its bridge to Cursor.v), incl. "an invalid record ahead: only preceding records, then its error". Tie: random histories <= 12 ops and five '
         'fixed switch patterns over all strings up to length 5-7, judged by the cursor-machine oracle; set re-iteration compared.',
    technique='Coq refinement proof to an abstract cursor machine (induction over histories; both formats) + differential run with cursor oracle',
    ref='5 C04'),
 'C05': dict(
    text='Theorems C05_fasta_position_after_next / C05_fastq_position_after_next: the position reported after the k-th call is the (line, byte) '
         'the whole-input specification assigns to the k-th item, for every configuration (corollary of the refinement theorems); C05fa.v (FASTA; 6): '
         'seeking to the position of any record from any reachable state - in-buffer shortcut or real seek - restores the stream from that record, the '
         'offset invariant position.byte = start + window offset holds in every reachable state, position after a set read = next unread record; C05q.v (FASTQ; 6): '
         'the same, incl. seeking to the invalid record reproduces its error. Tie: seeks to every saved position from random histories, targets inside and '
         'outside the buffer, on new readers and on readers a source failure has left behind, judged by the Spec cursor machine; also after errors a position reported after a '
         'returned record must be that record\'s position in the Spec stream. C05i.v: a new reader never takes the in-buffer shortcut; the first call is resumable after an I/O error with the true line count. '
         'C05s.v (18): "from any reader state" includes the states a source failure leaves behind - from a reader whose buffer was dropped by a failed refill, or that is still new after a failed first read '
         '(nothing else is assumed about it), a seek to a record re-establishes the refinement invariant, the next read returns that record and the rest of the stream follows (both formats; FASTQ: seeking to the '
         'invalid record reproduces its error); end to end from a new reader with one failure anywhere in the read script (C05_*_io_error_then_seek_restores), the state after the failure being derived, not assumed.',
    technique='Coq proof (positions: corollary of refinement; seeks: history refinement) + differential run with cursor-machine oracle',
    ref='5 C05'),
 'C06': dict(
    text='Theorems: C06s.v (4) - an offset-sanity predicate holds for a new reader and is preserved by next / read_set / seek / set_policy for EVERY policy '
         '(refusing, non-growing, scripted) and EVERY fault script, and no call from a sane state returns a panic outcome (both formats); C06f.v (17) - an I/O error '
         'while refilling is final (reader Finished, later reads report the end), a failed source seek leaves the reader unchanged; the refinement theorems '
         '(C01/C02/C04) give: every record returned in fault-free histories is a record of the input, in order. C06t.v / C06tq.v (17): TERMINATION for every policy function, every read/seek '
         'fault script, every capacity and every history - with loop fuel 2|data|+4 and refill fuel |script|+2 no call ever runs out of fuel (the model\'s "hangs") or panics '
         '(C06_fa_terminates, C06_fq_terminates, C06_*_history_never_hangs_or_panics; measures: bytes not yet passed, capacity strictly growing at a full buffer). C06f also proves that after a failed '
         'refill the buffer is empty, so a later seek always reads again; C14p/C14pq: everything returned before the first source failure is what the fault-free run returns. '
         'C06g.v / C06gq.v (10): GENUINENESS for every history WHATEVER THE SOURCE DOES - arbitrary read and seek scripts (interrupts, short reads, any number of failures anywhere), any history of '
         'single, owned, set, exact-count reads, iteration, position queries and seeks to record positions: every record view, owned record and set member ever returned shows an item of the Spec stream '
         '(C06_fa/fq_every_returned_record_is_genuine), no accessor panic, no abnormal outcome, and between two seeks the byte offsets strictly increase (C06_*_returned_records_in_order); the invariant '
         '(new possibly after failed first calls / healthy up to cutting the scripts before their first failure / finished with the buffer dropped) is exposed in plain terms. '
         'The run adds membership + position oracles on the real code (10 s watchdog). Tie: random inputs incl. binary x faults x refusing/scripted policies x mixed histories with post-error calls, debug build.',
    technique='Coq invariant proof (sanity preserved for all policies/faults => no panic) + refinement corollaries + fault-injecting differential run with membership oracle',
    ref='5 C06'),
 'C09': dict(
    text='Theorems C09.v/C09n.v/C09p.v/C09q.v (57), for EVERY reader state, policy and fault script: the capacity changes only at a logged policy consultation with a '
         'larger answer, the policy is asked with the current capacity, the answer is adopted exactly when the buffer is full (the only situation in which the readers '
         'grow: every consultation happens at offset 0 with a full buffer), BufferLimit iff the policy refused in that call, set_policy changes only the policy, the '
         'built-in policies (definitions regenerated from policy.rs) compute the documented sizes and equal the executable ones; C18_fa_steady_run / C18_fq_steady_run '
         'add: input whose records all fit is read without any consultation; C09s.v (10): the same END-TO-END for ANY history of next(), owned reads, PLAIN record-set reads into two slots, '
         're-iteration and position queries, both formats: if every record\'s needed window fits the initial capacity (a property of the input alone: FaAllRecordsFit / FqAllRecordsFit) '
         'the policy is never consulted and the capacity never changes, for every input length; the threshold is exact (examples: one byte less and the log has a consultation). C09l.v (18): (d) with an ARBITRARY policy, everything returned before the first buffer-limit error is '
         'what the never-refusing completion of the policy makes the reader return - the Spec stream - and without a refusal nothing differs at all; (e) installing PolOk policies at any points leaves all outcomes '
         'unchanged, and after buffer-limit errors a generous policy delivers the SAME record and the rest of the stream (C09_*_limit_then_generous_policy_resumes), both formats. '
         'C09b.v (14): for the same histories WITHOUT the fit hypothesis every consultation is justified - the capacity at which the policy is asked is smaller than the needed window of '
         'some record of the input (C09_*_consultation_means_record_does_not_fit) - hence with a policy that at most doubles (pol_std, DoubleUntil: proved) the capacity never exceeds '
         'max(initial, 2*(W-1)) where W is the largest needed window, however long the input is (bound attained; exact-count reads are outside, with counter-examples). Tie: recording policies, grow_to log and offered read sizes compared with the model; '
         'oracle "no request when every needed window fits"; policies on a grid around thresholds.',
    technique='Coq structural proofs over all states + theorems over policy code generated from the source + differential run with recording policies',
    ref='5 C09'),
 'C14': dict(
    text='Theorems C14.v (12) and C14i.v (8), for EVERY reader state and fault script: a read or seek failure of kind k occurred during a call iff that call returns '
         'Io(k) (never the end, never a format error, never a record), it is the only failure of the call; fill_buf returns FillErr k iff a read failed; interrupted '
         'reads are invisible for fill_buf and for all six entry points (same outcome, corresponding successor state). C14p.v / C14pq.v (6): a run whose scripts contain failures is call by call IDENTICAL '
         '(outcome, set contents, position, reader state) to the run with the scripts cut before the first failure, up to the call that returns the I/O error; with the C04 refinement: the observations '
         'before the first I/O error are a run of the cursor machine over the Spec stream ("exactly the leading records"). Tie: a failure injected at every read-call index '
         'and at seek calls, random interrupt patterns compared with the interrupt-free run, records before the failure judged by the cursor oracle.',
    technique='Coq structural proofs over event traces (all states, all fault scripts) + fault-injecting differential run',
    ref='5 C14'),
 'C18': dict(
    text='PARTIAL (heap behaviour is measured, not proved). Theorems C18.v (17) over ghost high-water marks (Model/Alloc.v: a Vec that is only cleared and refilled '
         'allocates only when its length exceeds the largest length it ever had): a call of next()/read_record_set() that logs no policy consultation and stays within the marks '
         'raises no mark and keeps the capacity; returned records are views of the reader / set buffer (no copy); end-to-end: once the marks cover the remaining records '
         'and they fit the capacity, no later call can allocate or consult the policy (FASTA and FASTQ runs). Tie: a counting #[global_allocator] measures every call; '
         'wherever the extracted model predicts "no allocation" the measured count must be 0, and after the warm-up it must be 0 and grow_to must not be called.',
    technique='Coq proof over an allocation-site ghost model + counting-allocator measurement compared with the model prediction',
    ref='5 C18'),
 'C07': dict(
    text='Theorems of C07.v (12) over the transition-system model Par.v of read_parallel_init (threads, two bounded channels, job pool; one step per '
         'channel/closure/pool operation), for ALL thread counts >= 1, queue lengths >= 1, fill scripts, consumers and ALL schedules (induction over runs): content '
         'and token conservation (C07_inv), out = work(content) (C07_pairing), at most once, exactly once for a draining consumer, file order with one worker, '
         'end marker only after all jobs; per-record zips (C07_work_zip: old vector shorter/equal/longer). C07r.v (10): the per-record layer composed with the protocol and the readers - '
         'for all schedules, thread counts, queue lengths and WHATEVER the recycled output vectors contained, the consumer closure of parallel_fasta / parallel_fastq sees every record of every batch '
         'exactly once with the output computed for that very record (in file order with one worker); over a real reader: exactly the leading records of the Spec stream; early exit and '
         'erroring readers: at most once, always with its own output; the recycled vectors are tracked through the event traces (C07_tracked_*), and the hypothesis that the work closure '
         'overwrites its slot is shown necessary. Tie: the TEXT of /repo/src/parallel.rs runs on '
         'shuttle shims under seeded random/PCT schedules and every event log must be a trace of the model (Par.accepts, extracted); black-box runs of the real '
         'functions (real threads) check every record arrives once with its own output.',
    technique='Coq invariant proofs over a protocol model (all schedules) + trace acceptance of shuttle-scheduled runs of the real source text + black-box runs',
    ref='5 C07'),
 'C08': dict(
    text='Theorems of C08.v (7): no reachable non-final state of the protocol model is without an enabled step (C08_progress: no deadlock for any consumer '
         'behaviour, reader error, init failure), every step decreases a measure (C08_measure: every schedule is finite, no fairness needed), final states are '
         'clean, the recycle send never blocks. PARTIAL for the runtime part: that OS threads exit and blocked channel operations wake is a property of the '
         'primitives (trusted; exercised by black-box runs under a 20 s watchdog and by shuttle, which reports deadlocks deterministically).',
    technique='Coq progress + termination-measure proofs over the protocol model + shuttle deadlock detection on the real source text + watchdogged black-box runs',
    ref='5 C08'),
 'C15': dict(
    text='Theorems of C15.v (9): the reader error is enqueued at most once and only after exactly e successful fills, nothing past it is filled, a draining consumer '
         'sees it exactly once after all earlier sets; init-closure failures end the run with Err (no hang, no panic); reader_init failure -> recv sees Closed -> None. '
         'C15c.v (12): the COMPOSITION of the protocol model with the reader models - the fill script is instantiated with what read_record_set really does on an input '
         '(fq_fill_seq / fa_fill_seq; the recycled set passed in does not matter): for every input, configuration, thread count, queue length and ALL schedules a draining consumer '
         'receives every batch the reader produced exactly once with its work result (in file order with one worker), the batches concatenate to a prefix of the leading records of the Spec stream '
         '(all records when there is no invalid one; records parsed in the same call as the invalid record are dropped with the cleared set - counter-example kept), and the error received, exactly once, '
         'is the Spec error = the error sequential next() reading returns (C15_*_fill_seq_vs_sequential). Black-box runs additionally compare the real parallel functions with the real sequential reader.',
    technique='Coq invariant proofs over the protocol model, composed with the reader refinement theorems + trace acceptance + black-box comparison with the sequential reader',
    ref='5 C15'),
 'C16': dict(
    text='Theorems of C16.v (5): at most queue_len + 1 data sets are ever created, token conservation (every set is in exactly one place), the reader is never more '
         'than queue_len sets ahead, every fill reuses a created set; for all input lengths, thread counts, queue lengths and schedules. C16r.v (11): the per-record output '
         'vectors inside the data sets - along every accepted trace record_data_init() is called at most (queue_len+1) x (longest batch) times, exactly the sum over the created sets of '
         'the longest batch each worked on; a variant that truncates the recycled vector is shown to create slots without bound. Tie: trace acceptance; '
         'black-box counts of dataset_init / rset_data_init / record_data_init calls (the last against (queue_len+1) x the largest set of a sequential set-by-set read), '
         'fill-minus-consumed, and RecordSet buffer capacities; the generic parallel_records is run beside the macro-generated functions.',
    technique='Coq invariant proofs over the protocol model + trace acceptance + black-box counters',
    ref='5 C16'),
 'C10': dict(
    text='Theorems of C10.v (19): every FASTA writer entry point round-trips through fa_spec for all headers without LF / trailing CR and all '
         'sequences without LF, CR, ">" (C10_roundtrip_*, C10_many with coordinates), wrapped lines have width w except the last '
         '(C10_wrap_widths), chunking is irrelevant for non-empty sequences (C10_chunking_irrelevant), over the writer model whose straight-line '
         'parts are regenerated from the Rust source (Gen/WriteGen.v). Tie: every entry point run on random and exhaustive small cases, bytes compared '
         'with the model, outputs parsed back by the real reader.',
    technique='Coq proof (pure list induction over generated writer definitions) + differential run + re-parse by the implementation',
    ref='5 C10'),
 'C11': dict(
    text='Theorems C11_fq_roundtrip(_parts), C11_fq_many (FASTQ writers round-trip through fq_spec_all with exact coordinates, for all admissible '
         'fields); C11u.v (14): write_unchanged of every returned record = the input bytes of that record plus LF (line endings included), the concatenation over a '
         'well-formed FASTQ input = the input with the final terminator added and the blank tail dropped, the FASTA counterpart re-parses to the same record and '
         'reproduces the bytes up to the stated blank-line / final-LF normalisation - for every capacity, chunking and policy. Tie: concatenated outputs compared '
         'with the input bytes for LF/CRLF files with and without final terminator at capacities 3..64; re-parse.',
    technique='Coq proof (writers vs spec; write_unchanged via the refinement invariant) + differential run with byte comparison and re-parse',
    ref='5 C11'),
 'C12': dict(
    text='Theorems C12_fasta_parse_alike / C12_fasta_no_cr (any per-line LF/CRLF mixture, final terminator present or absent) and C12_fastq, '
         'C12_fastq_same, C12_fastq_no_cr (four uniform renderings) at Spec level for all well-formed files; lifted to the readers by the refinement '
         'theorems C01/C02. Tie: paired runs of the implementation on all renderings of generated files at a small and a large capacity.',
    technique='Coq proof (Spec-level invariance under line-ending rendering, composed with refinement) + paired differential runs',
    ref='5 C12'),
 'C13': dict(
    text='Theorems of C13.v (13): for every well-formed record view (FaRecWf/FqRecWf, which the refinement theorem establishes for returned records) all '
         'accessors succeed and agree (lines, owned_seq, full_seq with its borrowed flag, to_owned, num_seq_lines, both iteration directions, raw seq up to '
         'terminators), id/desc split laws, UTF-8 split theorem for the text accessors. Tie: every accessor of every record dumped and compared.',
    technique='Coq proof (views over an offset invariant; UTF-8 DFA lemma) + differential run over all accessors',
    ref='5 C13'),
 'C17': dict(
    text='Theorems C17_fasta_error_fields / C17_fastq_error_fields (the error returned is the specification error item field by field for every '
         'configuration), C02s error-kind/line theorems, and C17m.v (13 theorems: the rendered message, built from format strings regenerated from the Rust '
         'source, contains line, found byte, lengths and id). Tie: malformed inputs at every alignment, all fields and to_string() compared.',
    technique='Coq proof (refinement corollary + message rendering over generated format strings) + differential run',
    ref='5 C17'),
 'C19': dict(
    text='Theorems of C19.v (11): the six serialised structs (schemas regenerated from the Rust source) are plain and round-trip for ALL values incl. stale '
         'offsets; iteration of a deserialised set equals the original. serde_derive itself is trusted. Tie: real serde_json round trips of reused record sets '
         'and owned records in random histories.',
    technique='Coq proof over schemas generated from the source + real serde_json round trips in the harness',
    ref='5 C19'),
 'C20': dict(
    text='Theorems (Props/C20.v): for every record and every sequence of front/back steps the SeqLines model refines a '
         'double-ended queue over the record\'s lines (each line once, ends meet, len()/size_hint() exact after every step, fused, '
         'enumerate().rev() indices true); reader end is sticky. C20i.v (33) over Model/Iters.v: the record-set iterators (FASTA: Take over the position slice, '
         'stale entries beyond npos never shown; FASTQ) yield exactly the records of the set, are fused, and their (default) size hint brackets the remaining count after every step; '
         'the owned-record iterators records()/into_records() are next() mapped through to_owned_record, yield the owned Spec stream, and once they returned None they return None for ever '
         '(after which errors the end follows, and that BufferLimit is NOT an end, is stated exactly). Tie: all step sequences on records with up to 4-5 lines and random '
         'files are run on the real iterators and compared with the model and with the deque oracle.',
    technique='Coq proof (refinement of the iterator model to an abstract deque, induction over step sequences) + model/implementation differential run',
    ref='5 C20'),
}

NOT_YET = {}

def main():
    props = [json.loads(l)['id'] for l in open(os.path.join(ROOT, 'properties.jsonl'))]
    checks = []
    na = []
    for p in props:
        if p in CLAIMS:
            c = CLAIMS[p]
            checks.append({
                'property_id': p,
                'quick_cmd': 'python3 tools/check %s quick' % p,
                'thorough_cmd': 'python3 tools/check %s thorough' % p,
                'evidence_file': 'evidence/%s.json' % p,
                'replay_cmd_template': 'python3 tools/check replay {path}',
                'engine': 'coq+diff',
                'level_claimed': {'category': 'proof', 'text': c['text'], 'design_ref': c['ref']},
                'level_note': c.get('note', COMMON_NOTE),
                'technique': c['technique'],
            })
        else:
            na.append({'property_id': p, 'reason': NOT_YET.get(p, 'not claimed yet: theorems and check for this property are still being built (see DESIGN.md section 5 for the plan)')})
    m = {
        'version': 1,
        'setup_cmd': 'python3 tools/check setup',
        'hooks': {'guard': 'verif_hooks', 'enable': 'none needed: no hook commits (observability comes from the scripted Read+Seek source, recording policies and shims around the unmodified source text)',
                  'baseline_off_cmd': 'cd /repo && cargo test --workspace --no-fail-fast --offline',
                  'source_commits': [], 'add_only': True},
        'engines': [{'name': 'coq+diff', 'path': 'tools/check',
                     'serves_properties': [c['property_id'] for c in checks],
                     'kind_free_text': 'Coq 8.16 theorems over a Gallina model (coq/theories) + correspondence check of the extracted model against /repo (harness/) + translators: declarative parts (Gen/*.v) and the reader logic (coq/core, proved equal to the model)'}],
        'checks': checks,
        'notes': 'All checks rebuild the harness from /repo working tree, regenerate Gen/*.v from /repo/src, re-check the Coq development (make decides what to re-prove), and rewrite evidence/<id>.json.',
        'not_applicable': na,
    }
    with open(os.path.join(ROOT, 'MANIFEST.json'), 'w') as f:
        json.dump(m, f, indent=1)
        f.write('\n')

if __name__ == '__main__':
    main()
