#!/usr/bin/env python3
"""Writes /verif/MANIFEST.json from the table below (one entry per claimed property)."""
import json, os
ROOT = os.path.dirname(os.path.dirname(os.path.abspath(__file__)))

COMMON_NOTE = ('Trusted: Coq 8.16.1 kernel (no axioms: Print Assumptions of every theorem is checked to be closed under the '
               'global context on every run); the hand-written Gallina model of the code, tied to /repo by the differential '
               'correspondence run (extracted OCaml model vs the real API on the same cases, a sample re-evaluated by vm_compute '
               'inside Coq) and by tools/translate.py for the declarative parts (Gen/*.v regenerated from /repo/src on every run); '
               'extraction (ExtrOcamlBasic only); the Rust harness. Modelled, not verified: buffer_redux window semantics, memchr, '
               'std iterator adaptors, serde_derive, channel/thread-pool primitives (DESIGN.md section 8).')

CLAIMS = {
 'C20': dict(
    text='Theorems (Props/C20.v): for every record and every sequence of front/back steps the SeqLines model refines a '
         'double-ended queue over the record\'s lines (each line once, ends meet, len()/size_hint() exact after every step, fused, '
         'enumerate().rev() indices true); reader end is sticky. Tie: all step sequences on records with up to 4-5 lines and random '
         'files are run on the real iterators and compared with the model and with the deque oracle.',
    technique='Coq proof (refinement of the iterator model to an abstract deque, induction over step sequences) + model/implementation differential run',
    ref='5 C20'),
}

NOT_YET = {}

def main():
    props = [json.loads(l)['id'] for l in open(os.path.join(ROOT, 'properties.jsonl'))]
    checks = []
    na = []
    for p in props:
        if p in CLAIMS:
            c = CLAIMS[p]
            checks.append({
                'property_id': p,
                'quick_cmd': 'python3 tools/check %s quick' % p,
                'thorough_cmd': 'python3 tools/check %s thorough' % p,
                'evidence_file': 'evidence/%s.json' % p,
                'replay_cmd_template': 'python3 tools/check replay {path}',
                'engine': 'coq+diff',
                'level_claimed': {'category': 'proof', 'text': c['text'], 'design_ref': c['ref']},
                'level_note': c.get('note', COMMON_NOTE),
                'technique': c['technique'],
            })
        else:
            na.append({'property_id': p, 'reason': NOT_YET.get(p, 'not claimed yet: theorems and check for this property are still being built (see DESIGN.md section 5 for the plan)')})
    m = {
        'version': 1,
        'setup_cmd': 'python3 tools/check setup',
        'hooks': {'guard': 'verif_hooks', 'enable': 'none needed: no hook commits (observability comes from the scripted Read+Seek source, recording policies and shims around the unmodified source text)',
                  'baseline_off_cmd': 'cd /repo && cargo test --workspace --no-fail-fast --offline',
                  'source_commits': [], 'add_only': True},
        'engines': [{'name': 'coq+diff', 'path': 'tools/check',
                     'serves_properties': [c['property_id'] for c in checks],
                     'kind_free_text': 'Coq 8.16 theorems over a Gallina model (coq/theories) + correspondence check of the extracted model against /repo (harness/), + translator for declarative parts'}],
        'checks': checks,
        'notes': 'All checks rebuild the harness from /repo working tree, regenerate Gen/*.v from /repo/src, re-check the Coq development (make decides what to re-prove), and rewrite evidence/<id>.json.',
        'not_applicable': na,
    }
    with open(os.path.join(ROOT, 'MANIFEST.json'), 'w') as f:
        json.dump(m, f, indent=1)
        f.write('\n')

if __name__ == '__main__':
    main()
