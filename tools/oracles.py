"""Property oracles evaluated on the IMPLEMENTATION trace, with the item stream
printed by the extracted Coq Spec as the reference (DESIGN.md 2.5 step 5)."""
import re
from vlib import parse_line, rec_fields, set_records

POS_RE = re.compile(r'^(.*) @(\S+)$')


def parse_spec(fmt, spec_lines):
    """spec lines -> list of items"""
    items = []
    for l in spec_lines:
        m = POS_RE.match(l)
        body, pos = (m.group(1), m.group(2)) if m else (l, '-')
        if body.startswith('rec '):
            f = rec_fields(body)
            it = {'kind': 'rec', 'pos': pos, 'f': f}
        else:
            it = {'kind': 'err', 'pos': pos, 'text': body}
        items.append(it)
    return items


def rec_key(fmt, f):
    return (f.get('h'), f.get('l')) if fmt == 'fa' else (f.get('h'), f.get('s'), f.get('q'))


def split_err(text):
    """'err fq_is 65 1 =6964 m=...' -> (fields without message, message or None)"""
    toks = text.split(' ')
    msg = None
    if toks and toks[-1].startswith('m='):
        msg = toks[-1][2:]
        toks = toks[:-1]
    return toks, msg


def err_equal(spec_text, impl_text, level):
    """level 'kind': variant only; 'fields': + all fields; 'full': + message"""
    st, sm = split_err(spec_text)
    it, im = split_err(impl_text)
    if st[:2] != it[:2]:
        return False
    if level == 'kind':
        return True
    if len(st) != len(it):
        return False
    for a, b in zip(st, it):
        if a == '!':
            # id not valid UTF-8: the code converts lossily, not modelled
            if 'efbfbd' not in b:
                return False
        elif a != b:
            return False
    if level == 'full' and sm is not None and sm != '!' and '!' not in st:
        if sm != im:
            return False
    return True


class Cursor:
    """The abstract cursor machine over the Spec's item stream (Spec/Cursor in DESIGN 4)."""

    def __init__(self, fmt, items, level='full', check_pos=True):
        self.fmt = fmt
        self.items = items
        self.k = 0
        self.dead = False       # after the error or the end of input
        self.unknown = False    # the cursor is no longer tracked (after an I/O / buffer-limit error in a set read, ...)
        self.wild = False       # after a seek to something that is not an item start: nothing is claimed any more
        self.level = level
        self.check_pos = check_pos
        self.saved = []
        self.fails = []
        self.delivered = []     # indices delivered, in order
        self.starts = {it['pos']: i for i, it in reversed(list(enumerate(items))) if it['pos'] != '-'}

    def fail(self, i, msg):
        self.fails.append('op#%d %s' % (i, msg))

    def recs_ahead(self):
        r = 0
        while self.k + r < len(self.items) and self.items[self.k + r]['kind'] == 'rec':
            r += 1
        return r

    def expect_rec(self, i, dump, idx):
        f = rec_fields(dump)
        if rec_key(self.fmt, f) != rec_key(self.fmt, self.items[idx]['f']):
            self.fail(i, 'record differs from spec item %d: got %s' % (idx, dump[:80]))
            return False
        return True

    def step(self, i, pl):
        op, kind, out = pl['op'], pl['kind'], pl['out']
        if self.wild:
            return True          # after a seek to a place that is no item start nothing is claimed (DESIGN.md section 7)
        if kind in ('panic', 'hang', 'fuel') or op == '?':
            self.fail(i, 'abnormal outcome: %s %s' % (op, out))
            return False
        if self.unknown:
            # the cursor is not tracked, but C05 still holds for whatever is returned: a position reported
            # after a record has been returned is that record's true location (unless the caller has
            # seeked to a place that is no record start)
            if (not self.wild and self.check_pos and op[0] in 'NO' and kind in ('rec', 'own')
                    and pl['pos'] != '-'):
                idx = self.starts.get(pl['pos'])
                if idx is None or self.items[idx]['kind'] != 'rec':
                    self.fail(i, 'position %s reported after a record is not the position of a record of the input' % pl['pos'])
                elif kind == 'rec':
                    self.expect_rec(i, out, idx)
            if op[0] in 'KJ' and kind == 'ok':
                self.seek_ok(op)
            if op[0] == 'P' and pl['pos'] != '-':
                self.saved.append(pl['pos'])
            # a FORMAT error returned while the cursor is not tracked is still the error of the input: the stream has
            # at most one error item (its first invalid record), and C17 wants it identified identically in every history
            if (not self.wild and kind == 'err' and out.split(' ')[1:2] and out.split(' ')[1] not in ('buflimit', 'io')):
                errs = [it for it in self.items if it['kind'] == 'err']
                if not errs:
                    self.fail(i, 'error %s but the input has no invalid record' % out[:40])
                elif not err_equal(errs[0]['text'], out, self.level):
                    self.fail(i, 'error differs: got %s, spec %s' % (out[:90], errs[0]['text'][:90]))
            return True
        if kind == 'err' and out.split(' ')[1:2] and out.split(' ')[1] in ('buflimit', 'io'):
            # refused growth / injected source failure: legitimate outcomes that the cursor machine does
            # not describe (C09, C14 and C06 have their own oracles).  A single-record read that hits the
            # buffer limit has consumed nothing: the same record is still pending (and is delivered once a
            # more generous policy is installed).  In every other case nothing more is checked.
            if out.split(' ')[1] == 'buflimit' and op[0] in 'NOM':
                return True
            # a seek whose SOURCE seek failed leaves the reader as it was (nothing is read, nothing moves): the cursor
            # stays; a seek whose refill failed has finished the reader
            if op[0] in 'KJ' and not any(e.startswith('r') and ':F' in e for e in pl['ev']) \
                    and any(e.startswith('s') and ':F' in e for e in pl['ev']):
                return True
            self.unknown = True
            return True
        c = op[0]
        if c in 'NOM':
            if kind == 'none':
                if not self.dead and self.k < len(self.items):
                    self.fail(i, 'end of input reported but spec item %d is pending' % self.k)
                self.dead = True
            elif kind in ('rec', 'own', 'steps'):
                if self.dead or self.k >= len(self.items) or self.items[self.k]['kind'] != 'rec':
                    self.fail(i, 'record returned but spec has %s' % (
                        'nothing more' if self.dead or self.k >= len(self.items) else 'an error'))
                    return False
                if kind == 'rec':
                    self.expect_rec(i, out, self.k)
                elif kind == 'own':
                    f = self.items[self.k]['f']
                    exp = (f['h'] + '.' + f['l'].replace('/', '')) if self.fmt == 'fa' else \
                        (f['h'] + '.' + f['s'] + '.' + f['q'])
                    if out.split(' ')[1] != exp:
                        self.fail(i, 'owned record differs from spec item %d' % self.k)
                if self.check_pos and pl['pos'] != self.items[self.k]['pos']:
                    self.fail(i, 'position %s after record %d, spec says %s' % (pl['pos'], self.k, self.items[self.k]['pos']))
                self.delivered.append(self.k)
                self.k += 1
            elif kind == 'err':
                self.on_err(i, pl, allow_skip=False)
            else:
                self.fail(i, 'unexpected outcome %s' % out[:40])
        elif c in 'SE':
            n = None
            if c == 'E':
                n = int(op.split('.')[1])
            if kind == 'none':
                if not self.dead and self.k < len(self.items):
                    self.fail(i, 'set read reports end of input but spec item %d is pending' % self.k)
                self.dead = True
            elif kind == 'set':
                recs = set_records(out)
                m = len(recs)
                r = 0 if self.dead else self.recs_ahead()
                if m == 0:
                    self.fail(i, 'successful set read with no record')
                elif m > r:
                    self.fail(i, 'set has %d records but only %d remain' % (m, r))
                    return False
                else:
                    for j, d in enumerate(recs):
                        self.expect_rec(i, d, self.k + j)
                    if n is not None:
                        err_ahead = self.k + r < len(self.items)
                        want = min(n, r)
                        if m != want:
                            self.fail(i, 'exact read of %d yields %d records, %d remain' % (n, m, r))
                    self.delivered.extend(range(self.k, self.k + m))
                    self.k += m
                    if self.check_pos and pl['pos'] != '-' and self.k < len(self.items) \
                            and self.items[self.k]['kind'] == 'rec' and pl['pos'] != self.items[self.k]['pos']:
                        self.fail(i, 'position %s after set read, next unread record is at %s' % (
                            pl['pos'], self.items[self.k]['pos']))
            elif kind == 'err':
                self.on_err(i, pl, allow_skip=True)
            else:
                self.fail(i, 'unexpected outcome %s' % out[:40])
        elif c in 'KJ':
            if kind == 'ok':
                self.seek_ok(op)
            elif kind == 'nopos':
                pass
            elif kind == 'err':
                self.fail(i, 'seek failed: %s' % out[:40])
        elif c == 'P':
            if pl['pos'] != '-':
                self.saved.append(pl['pos'])
        return True

    def seek_ok(self, op):
        """a successful seek: the cursor is at the target when that is an item start (also when the
        cursor had been lost before); otherwise nothing is claimed from here on"""
        if op[0] == 'K':
            a, b = op[1:].split('.')
            target = '%s:%s' % (a, b)
        else:
            if not self.saved:
                return
            target = self.saved[int(op[1:]) % len(self.saved)]
        if target in self.starts:
            self.k = self.starts[target]
            self.dead = False
            self.unknown = False
        else:
            self.unknown = True
            self.wild = True

    def on_err(self, i, pl, allow_skip):
        if self.dead:
            self.fail(i, 'error after the end: %s' % pl['out'][:40])
            return
        r = self.recs_ahead()
        j = self.k + r
        if j >= len(self.items):
            self.fail(i, 'error %s but spec has no error ahead' % pl['out'][:40])
            self.dead = True
            return
        if r > 0 and not allow_skip:
            self.fail(i, 'error returned while %d valid records precede it' % r)
        lvl = self.level
        if not err_equal(self.items[j]['text'], pl['out'], lvl):
            self.fail(i, 'error differs: got %s, spec %s' % (pl['out'][:90], self.items[j]['text'][:90]))
        if self.check_pos and self.items[j]['pos'] != '-' and r == 0 and pl['pos'] != self.items[j]['pos']:
            self.fail(i, 'position %s after error, offending record is at %s' % (pl['pos'], self.items[j]['pos']))
        self.k = j + 1
        self.dead = True


def cursor_check(fmt, res, level='full', check_pos=True):
    """run the cursor machine over an implementation trace; returns list of failures"""
    items = parse_spec(fmt, res['spec'])
    cur = Cursor(fmt, items, level, check_pos)
    for i, l in enumerate(res['impl']):
        if not cur.step(i, parse_line(l)):
            break
    return cur.fails


# ---------------------------------------------------------------------------
# record views (C13)

def unhex(s):
    return bytes.fromhex(s)


def views_check(fmt, dump):
    """all views of one record dump agree with each other"""
    f = rec_fields(dump)
    bad = []
    h = unhex(f['h'])
    sp = h.find(b' ')
    idb = h if sp < 0 else h[:sp]
    desc = None if sp < 0 else h[sp + 1:]
    if unhex(f['id']) != idb:
        bad.append('id_bytes is not the header up to the first space')
    want_desc = '-' if desc is None else '=' + desc.hex()
    if f['desc'] != want_desc:
        bad.append('desc_bytes is not the rest of the header')
    if f['idb'] != idb.hex() + ':' + want_desc:
        bad.append('id_desc_bytes disagrees with id_bytes/desc_bytes')

    def valid(b):
        try:
            b.decode('utf-8')
            return True
        except UnicodeDecodeError:
            return False
    if f['ids'] != (idb.hex() if valid(idb) else '!'):
        bad.append('id() verdict/bytes wrong')
    wd = '-' if desc is None else ('=' + desc.hex() if valid(desc) else '!')
    if f['descs'] != wd:
        bad.append('desc() verdict/bytes wrong')
    wi = (idb.hex() + ':' + want_desc) if valid(h) else '!'
    if f['idd'] != wi:
        bad.append('id_desc() verdict/bytes wrong')
    if any(t in dump for t in ('OWNED-VIEWS-DIFFER', 'OWNED-DIFFERS', 'OWNED-WRITE-DIFFERS')):
        bad.append('owned copy exposes different values')
    if fmt == 'fa':
        lines = [unhex(x) for x in f['l'].split('/')[1:]]
        rl = [unhex(x) for x in f['rl'].split('/')[1:]]
        cat = b''.join(lines)
        own_h, own_s = f['own'].split('.')
        if unhex(own_s) != cat:
            bad.append('owned sequence != concatenated lines')
        if unhex(own_h) != h:
            bad.append('owned head != head')
        if unhex(f['full'][1:]) != cat:
            bad.append('full_seq != concatenated lines')
        if (f['full'][0] == 'B') != (len(lines) == 1):
            bad.append('full_seq borrowed iff exactly one line violated')
        if int(f['n']) != len(lines) or rl != lines[::-1]:
            bad.append('num_seq_lines / reverse iteration disagree with the lines')
        raw = unhex(f['raw'])
        # seq(): differs from the sequence only by line terminators (LF, or CR directly before LF)
        if raw.replace(b'\r\n', b'').replace(b'\n', b'') != cat:
            bad.append('raw sequence differs from the lines by more than terminators')
        if any(10 in l for l in lines):
            bad.append('LF inside a sequence line')
    return bad
