# usage: PAR_SRC=<dir with the HEAD sources> PAR_SCRATCH=<scratch dir> bash all_mut.sh
# single-edit semantic mutations of src/parallel.rs: every line must print REFUSED or PROOF-FAILS
R="python3 $(dirname "$0")/run_mut.py"
# ---- worker closure of parallel_record_impl! / $name_init
$R M01_truncate_before_surplus '                    for record in record_iter {' '                    out.truncate(1);
                    for record in record_iter {'
$R M02a_loops_swapped '                    for mut d in out.iter_mut().zip(&mut record_iter) {
                        work(d.1, &mut d.0, rset_data);
                    }
                    for record in record_iter {
                        out.push(record_data_init()?);
                        work(record, out.last_mut().unwrap(), rset_data);
                    }' '                    for record in record_iter {
                        out.push(record_data_init()?);
                        work(record, out.last_mut().unwrap(), rset_data);
                    }
                    for mut d in out.iter_mut().zip(&mut record_iter) {
                        work(d.1, &mut d.0, rset_data);
                    }'
$R M02b_loops_swapped_by_ref '                    for mut d in out.iter_mut().zip(&mut record_iter) {
                        work(d.1, &mut d.0, rset_data);
                    }
                    for record in record_iter {
                        out.push(record_data_init()?);
                        work(record, out.last_mut().unwrap(), rset_data);
                    }' '                    for record in &mut record_iter {
                        out.push(record_data_init()?);
                        work(record, out.last_mut().unwrap(), rset_data);
                    }
                    for mut d in out.iter_mut().zip(&mut record_iter) {
                        work(d.1, &mut d.0, rset_data);
                    }'
$R M03_zip_operands_exchanged '                    for mut d in out.iter_mut().zip(&mut record_iter) {
                        work(d.1, &mut d.0, rset_data);' '                    for mut d in (&mut record_iter).zip(out.iter_mut()) {
                        work(d.0, &mut d.1, rset_data);'
$R M04_insert_front 'out.push(record_data_init()?);' 'out.insert(0, record_data_init()?);'
$R M05_work_on_slot0 'work(record, out.last_mut().unwrap(), rset_data);' 'work(record, &mut out[0], rset_data);'
$R M07_surplus_without_work '                        out.push(record_data_init()?);
                        work(record, out.last_mut().unwrap(), rset_data);' '                        out.push(record_data_init()?);'
$R M08_work_twice '                        work(d.1, &mut d.0, rset_data);' '                        work(d.1, &mut d.0, rset_data);
                        work(d.1, &mut d.0, rset_data);'
$R M09_push_twice '                        out.push(record_data_init()?);' '                        out.push(record_data_init()?);
                        out.push(record_data_init()?);'
$R M10_fresh_iterator_in_zip 'for mut d in out.iter_mut().zip(&mut record_iter) {' 'for mut d in out.iter_mut().zip(recordset.into_iter()) {'
$R M11_init_unwrap 'out.push(record_data_init()?);' 'out.push(record_data_init().unwrap());'
$R M12_init_before_loop '                    for record in record_iter {
                        out.push(record_data_init()?);' '                    let fresh = record_data_init()?;
                    for record in record_iter {
                        out.push(fresh);'
# ---- consumer closure of parallel_record_impl! / $name_init
$R M06_consumer_skip1 'for x in records.into_iter().zip(out.iter_mut()) {' 'for x in records.into_iter().zip(out.iter_mut().skip(1)) {'
$R M13_worker_error_ignored '                        res?;
' ''
$R M14_return_none '                                return Ok(Some(out));' '                                return Ok(None);'
$R M15_reader_error_ignored '                        let (r, res) = result?;' '                        let (r, res) = result.unwrap();'
$R M16_no_early_return '                            if let Some(out) = func(x.0, x.1, rset_data) {
                                return Ok(Some(out));
                            }' '                            func(x.0, x.1, rset_data);'
$R M17_one_set_only '                        for x in records.into_iter().zip(out.iter_mut()) {
                            if let Some(out) = func(x.0, x.1, rset_data) {
                                return Ok(Some(out));
                            }
                        }' '                        for x in records.into_iter().zip(out.iter_mut()) {
                            if let Some(out) = func(x.0, x.1, rset_data) {
                                return Ok(Some(out));
                            }
                        }
                        return Ok(None);'
# ---- parallel_records
$R M18_rec_zip_exchanged '            for x in out.iter_mut().zip(&mut iter) {
                work(x.1, x.0);' '            for x in (&mut iter).zip(out.iter_mut()) {
                work(x.0, x.1);'
$R M19_rec_push_twice '                out.push(O::default());' '                out.push(O::default());
                out.push(O::default());'
$R M20_rec_clear_first '            for x in out.iter_mut().zip(&mut iter) {' '            out.clear();
            for x in out.iter_mut().zip(&mut iter) {'
$R M21_rec_consumer_rev '                for x in r.0.into_iter().zip(&r.1) {' '                for x in r.0.into_iter().zip(r.1.iter().rev()) {'
$R M22_rec_consumer_ignores_err '                let (r, _) = result?;' '                let (r, _) = match result { Ok(x) => x, Err(_) => continue };'
# ---- ParallelRecordsets::next
$R M26_next_no_recycle '                    self.empty_send.send(prev_rset).ok(); // error: channel closed is not a problem, happens after calling stop()
' ''
$R M27_next_unwrap 'self.done_recv.recv().unwrap_or(None).map(move |result| {' 'self.done_recv.recv().unwrap().map(move |result| {'
$R M28_next_keeps_current '                    let prev_rset = ::std::mem::replace(&mut self.current_recordset, r);
                    self.empty_send.send(prev_rset).ok();' '                    self.empty_send.send(r).ok();'
$R M29_next_swallows_err '                Err(e) => Err(e),' '                Err(_) => return None,'
# ---- the pinned surroundings
$R M23_vec_not_empty '|| rset_data_init().map(|d| (<$dataset>::default(), (vec![], d))),' '|| rset_data_init().map(|d| (<$dataset>::default(), (Vec::with_capacity(1), d))),'
$R M24_closures_exchanged_name '                |record, record_out, _| work(record, record_out),' '                |record, record_out, _| { work(record, record_out); work(record, record_out) },'
$R M25_second_macro_rule '    ($name:ident, $name_init:ident, $io_r:tt, $rdr:ty, $dataset:ty, $record:ty, $err:ty) => {' '    ($name:ident, $name_init:ident, $io_r:tt, $rdr:ty, $dataset:ty, $record:ty, $err:ty, $extra:tt) => {'
