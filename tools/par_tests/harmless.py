"""harmless edits of src/parallel.rs: ParGen.v must stay byte-identical (or at least the proofs must pass)
usage: PAR_SRC=<dir with the HEAD sources> PAR_SCRATCH=<scratch dir> python3 harmless.py"""
import os, sys
sys.path.insert(0, os.path.dirname(os.path.abspath(__file__)))
from run_mut import build

def run(name, edits):
    print('%-30s %s' % (name, build(name, edits)))

run('H1_comments_whitespace', [
 ("                    for mut d in out.iter_mut().zip(&mut record_iter) {\n                        work(d.1, &mut d.0, rset_data);",
  "                    // recycled slots first\n                    for mut d in out\n                        .iter_mut()\n                        .zip( &mut record_iter ) /* left: the slots */ {\n\n                        work( d.1, &mut d.0, rset_data );"),
 ("                        res?;\n", "                        // error of the worker\n                        res ? ;\n"),
 ("                out.push(O::default());", "                out . push ( O::default() ) ; // a fresh slot"),
])
run('H2_renamed_locals_params', [
 ("                |&mut (ref mut recordset, (ref mut out, ref mut rset_data))| {\n                    let mut record_iter = recordset.into_iter();",
  "                |&mut (ref mut set, (ref mut slots, ref mut extra))| {\n                    let mut rest = set.into_iter();"),
 ("                    for mut d in out.iter_mut().zip(&mut record_iter) {\n                        work(d.1, &mut d.0, rset_data);\n                    }\n                    for record in record_iter {\n                        out.push(record_data_init()?);\n                        work(record, out.last_mut().unwrap(), rset_data);\n                    }",
  "                    for mut pair in slots.iter_mut().zip(&mut rest) {\n                        work(pair.1, &mut pair.0, extra);\n                    }\n                    for rec in rest {\n                        slots.push(record_data_init()?);\n                        work(rec, slots.last_mut().unwrap(), extra);\n                    }"),
 ("                |records| {\n                    while let Some(result) = records.next() {\n                        let (r, res) = result?;\n                        res?;\n                        let &mut (ref records, (ref mut out, ref mut rset_data)) = r;\n                        for x in records.into_iter().zip(out.iter_mut()) {\n                            if let Some(out) = func(x.0, x.1, rset_data) {\n                                return Ok(Some(out));",
  "                |sets| {\n                    while let Some(msg) = sets.next() {\n                        let (data, worker_result) = msg?;\n                        worker_result?;\n                        let &mut (ref recs, (ref mut slots, ref mut extra)) = data;\n                        for p in recs.into_iter().zip(slots.iter_mut()) {\n                            if let Some(found) = func(p.0, p.1, extra) {\n                                return Ok(Some(found));"),
 ("        |d| {\n            let mut iter = d.0.into_iter();\n            let out: &mut Vec<O> = &mut d.1;\n            for x in out.iter_mut().zip(&mut iter) {\n                work(x.1, x.0);\n            }\n            for i in iter {\n                out.push(O::default());\n                work(i, out.last_mut().unwrap())",
  "        |data| {\n            let mut records = data.0.into_iter();\n            let slots: &mut Vec<O> = &mut data.1;\n            for p in slots.iter_mut().zip(&mut records) {\n                work(p.1, p.0);\n            }\n            for rec in records {\n                slots.push(O::default());\n                work(rec, slots.last_mut().unwrap())"),
 ("        |records| {\n            while let Some(result) = records.next() {\n                let (r, _) = result?;\n                for x in r.0.into_iter().zip(&r.1) {\n                    if let Some(out) = func(x.0, x.1) {\n                        return Ok(Some(out));",
  "        |sets| {\n            while let Some(msg) = sets.next() {\n                let (data, _) = msg?;\n                for p in data.0.into_iter().zip(&data.1) {\n                    if let Some(found) = func(p.0, p.1) {\n                        return Ok(Some(found));"),
])
run('H3_tuple_destructuring', [
 ("                    for mut d in out.iter_mut().zip(&mut record_iter) {\n                        work(d.1, &mut d.0, rset_data);",
  "                    for (slot, record) in out.iter_mut().zip(&mut record_iter) {\n                        work(record, slot, rset_data);"),
 ("                        for x in records.into_iter().zip(out.iter_mut()) {\n                            if let Some(out) = func(x.0, x.1, rset_data) {",
  "                        for (record, slot) in records.into_iter().zip(out.iter_mut()) {\n                            if let Some(out) = func(record, slot, rset_data) {"),
 ("            for x in out.iter_mut().zip(&mut iter) {\n                work(x.1, x.0);", "            for (slot, record) in out.iter_mut().zip(&mut iter) {\n                work(record, slot);"),
 ("                for x in r.0.into_iter().zip(&r.1) {\n                    if let Some(out) = func(x.0, x.1) {", "                for (record, slot) in r.0.into_iter().zip(&r.1) {\n                    if let Some(out) = func(record, slot) {"),
])
run('H4_explicit_tail_and_blocks', [
 ("                work(i, out.last_mut().unwrap())\n", "                work(i, out.last_mut().unwrap());\n"),
 ("                        let (r, res) = result?;\n                        res?;\n", "                        let (r, res) = result?;\n                        { res?; }\n"),
])
run('H5_next_renamed', [
 ("        self.done_recv.recv().unwrap_or(None).map(move |result| {\n            match result {\n                Ok((r, o)) => {\n                    let prev_rset = ::std::mem::replace(&mut self.current_recordset, r);\n                    self.empty_send.send(prev_rset).ok();",
  "        self.done_recv.recv().unwrap_or(None).map(move |msg| {\n            match msg {\n                Ok((set, value)) => {\n                    let old = ::std::mem::replace(&mut self.current_recordset, set);\n                    self.empty_send.send(old).ok();"),
 ("                    Ok((&mut self.current_recordset, o))\n                }\n                Err(e) => Err(e),", "                    Ok((&mut self.current_recordset, value))\n                }\n                // reader error\n                Err(err) => Err(err),"),
])
