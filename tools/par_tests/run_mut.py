#!/usr/bin/env python3
"""run_mut.py <name> <old> <new> [<old2> <new2> ..] : copy the HEAD sources, apply ONE textual edit to src/parallel.rs (each
<old> must match exactly once, or the n-th occurrence with old prefixed by '#n:'; several old/new pairs are the parts of one
edit), run translate_par.py and build ParGen.v + ParGenP.v in a scratch directory.
Prints REFUSED (translator), PROOF-FAILS (first failing lemma of ParGenP.v), or `build OK` (IDENTICAL / DIFFERENT output)."""
import os, re, shutil, subprocess, sys
VERIF = os.path.dirname(os.path.dirname(os.path.dirname(os.path.abspath(__file__))))
HEAD = os.environ.get('PAR_SRC', '/repo/src')              # the sources to mutate (a directory with parallel.rs)
SCRATCH = os.environ.get('PAR_SCRATCH', '/tmp/par_mut')    # scratch directory (never the repository)


def apply_edit(s, old, new):
    nth = None
    m = re.match(r'^#(\d+):', old)
    if m:
        nth = int(m.group(1)); old = old[m.end():]
    cnt = s.count(old)
    if nth is None:
        if cnt != 1:
            print('EDIT-ERROR: %d occurrences of %r' % (cnt, old)); sys.exit(2)
        return s.replace(old, new)
    idx = -1
    for _ in range(nth):
        idx = s.find(old, idx + 1)
        if idx < 0:
            print('EDIT-ERROR: fewer than %d occurrences of %r' % (nth, old)); sys.exit(2)
    return s[:idx] + new + s[idx + len(old):]


def build(name, edits):
    d = os.path.join(SCRATCH, name)
    shutil.rmtree(d, ignore_errors=True)
    os.makedirs(os.path.join(d, 'src'))
    shutil.copy(os.path.join(HEAD, 'parallel.rs'), os.path.join(d, 'src', 'parallel.rs'))
    p = os.path.join(d, 'src', 'parallel.rs')
    s = open(p).read()
    for old, new in edits:
        s = apply_edit(s, old, new)
    open(p, 'w').write(s)
    core = os.path.join(d, 'core')
    os.makedirs(core)
    r = subprocess.run([sys.executable, os.path.join(VERIF, 'tools/translate_par.py'), d, core], capture_output=True, text=True)
    out = r.stdout.strip()
    if r.returncode != 0:
        return 'REFUSED   %s' % out[:230]
    same = open(os.path.join(core, 'ParGen.v')).read() == open(os.path.join(VERIF, 'coq/core/ParGen.v')).read()
    subprocess.run(['cp', '-p', os.path.join(VERIF, 'coq/core/ParGenP.v'), core])
    open(os.path.join(core, '_CoqProject'), 'w').write(
        '-Q %s/coq/theories SeqIO\n-Q . SeqIOCore\n-arg -w -arg -notation-overridden,-deprecated-hint-without-locality\nParGen.v\nParGenP.v\n' % VERIF)
    subprocess.run(['coq_makefile', '-f', '_CoqProject', '-o', 'Makefile'], cwd=core, capture_output=True)
    r = subprocess.run(['make'], cwd=core, capture_output=True, text=True, timeout=1200)
    out = r.stdout + r.stderr
    if r.returncode == 0:
        return '%s ParGen.v, build OK%s' % ('IDENTICAL' if same else 'DIFFERENT', '' if 'Axioms:' not in out else ' (AXIOMS!)')
    m = re.search(r'File "\./(\w+\.v)", line (\d+), characters [^\n]*\nError', out)
    lemma = '?'
    if m:
        ln = int(m.group(2))
        for i, l in enumerate(open(os.path.join(core, m.group(1))), 1):
            mm = re.match(r'^\s*(?:Lemma|Theorem|Example|Definition|Fixpoint)\s+(\w+)', l)
            if mm and i <= ln:
                lemma = mm.group(1)
    lines = out.split('\n')
    e = [(l + ' ' + (lines[i + 1] if i + 1 < len(lines) else '')).strip() for i, l in enumerate(lines) if l.startswith('Error')]
    return 'PROOF-FAILS  %s line %s: %s   [%s]' % (m.group(1) if m else '?', m.group(2) if m else '?', lemma, (e[0] if e else '')[:110])


if __name__ == '__main__':
    a = sys.argv[1:]
    if len(a) < 3 or len(a) % 2 == 0:
        print(__doc__); sys.exit(2)
    print('%-30s %s' % (a[0], build(a[0], list(zip(a[1::2], a[2::2])))))
