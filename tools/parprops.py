"""Check machinery for the parallel module of seq_io (properties C07, C08, C15, C16).

Layout below `root` (e.g. /verif):
    harness_par/            Rust crate: parshuttle (the text of parallel.rs on shuttle shims,
                            controlled schedules, event logs) and parbb (black box, real threads)
    ocaml/par.ml, par.mli   extraction of theories/Model/Par.v (ExtrOcamlBasic only)
    ocaml/par_check.ml      replays event logs on the extracted model
    work/par/               scratch output of the runs

The oracles below look at the IMPLEMENTATION's observations only (event logs of the real
parallel.rs text under shuttle, and observations of the real library with real threads);
the model's verdict on an event log is reported separately in run['model'].

Python 3 standard library only.
"""
import json
import os
import subprocess
import sys
import time

NPROC = 16
WORK_FN = lambda c: 3 * c + 1          # common::mock_work

TIERS = {
    # iters: schedules per protocol config (per-record configs get iters/8)
    # bb: number of black-box runs
    'quick': {'iters': 1000, 'bb': 32000},
    'thorough': {'iters': 1200, 'bb': 200000},
}


def describe():
    return (
        "parallel module: (a) parshuttle compiles the text of $VERIF_REPO/src/parallel.rs (copied at build "
        "time by build.rs; exactly three substitutions std::sync::mpsc / crossbeam_utils::thread::scope / "
        "scoped_threadpool::Pool -> shuttle shims, each required to occur exactly once) and runs "
        "read_parallel_init with a scripted reader for every configuration n in 1..3(4), queue 1..3(4), "
        "k sets in {0,1,3,5(,2,8)}, script ending normally or with an error, reader_init ok/failing, "
        "dataset_init failing at call 0..3(4) or never, consumer Drain / stop-at-first-error / "
        "StopAfter 0,1,2(,4,9) (quick: 2520 configurations, thorough: 12096) under `iters` schedules each: "
        "3/4 shuttle RandomScheduler, 1/4 PCT (depth 3), every schedule seeded by "
        "mix(mix(seed, config index), iteration) and therefore replayable "
        "(parshuttle --one seed tier index kind schedule-seed); each distinct event log (one event per "
        "channel operation, closure call and pool operation) is replayed on the extracted Coq model by "
        "ocaml/par_check; the same binary runs parallel_fasta/_fastq(/_init) of the macro "
        "parallel_record_impl! over real readers on generated in-memory inputs (160/600 random "
        "configurations: 0..14 records of very different lengths, capacity 24..96, invalid record at a "
        "random index, early stop, each init closure failing at a random call). "
        "(b) parbb calls the real library (real threads) read_parallel / read_parallel_init / "
        "parallel_fasta(_init) / parallel_fastq(_init): random configurations with threads 1..4, queue 1..3, "
        "0..40 records with runs of short (1..8) and long (25..110) sequences, reader capacity 32..256 (so "
        "record sets differ in length and recycled output vectors are longer/shorter than the next set), "
        "FASTA line wrapping, seeded sleeps/yields in every closure, consumer draining / stopping after j / "
        "never asking, scripted reader erroring at set e, invalid FASTQ record at index e (bad separator, "
        "unequal lengths, bad start byte), FASTA file not starting with '>', reader_init failing, "
        "dataset_init / rset_data_init / record_data_init failing at call j; each call under a 20 s "
        "watchdog with panics caught; the sequential reader is run on the same input for the error "
        "comparison. Record outputs are FNV-1a(id|seq) recomputed independently in Python.")


# ---------------------------------------------------------------------------
# builds

def _run(cmd, cwd=None, timeout=3600, env=None):
    try:
        p = subprocess.run(cmd, cwd=cwd, stdout=subprocess.PIPE, stderr=subprocess.STDOUT,
                           timeout=timeout, env=env)
        return p.returncode, p.stdout.decode('utf-8', 'replace')
    except subprocess.TimeoutExpired as e:
        return 124, (e.stdout or b'').decode('utf-8', 'replace') + '\nTIMEOUT'


def _env():
    env = dict(os.environ)
    env['CARGO_NET_OFFLINE'] = 'true'
    env.setdefault('VERIF_REPO', '/repo')
    return env


def gen_and_build(root):
    """Point harness_par/repo at $VERIF_REPO (default /repo), build the crate (its build.rs
    regenerates src/parallel.rs from the repository and fails unless each of the three
    patterns occurs exactly once), and build ocaml/par_check.  Returns (ok, log)."""
    env = _env()
    repo = os.path.abspath(env['VERIF_REPO'])
    hp = os.path.join(root, 'harness_par')
    link = os.path.join(hp, 'repo')
    log = []
    try:
        cur = os.path.realpath(link) if os.path.lexists(link) else None
        if cur != os.path.realpath(repo):
            if os.path.lexists(link):
                os.remove(link)
            os.symlink(repo, link)
            log.append('relinked harness_par/repo -> %s' % repo)
    except OSError as e:
        return False, 'cannot link %s -> %s: %s' % (link, repo, e)
    rc, out = _run(['cargo', 'build', '--release', '--offline', '--quiet'], cwd=hp, env=env)
    # keep the generator's diagnostics, drop the library's lint noise
    keep = [l for l in out.split('\n') if 'GEN-ERROR' in l or l.startswith('error')]
    log.append('cargo build rc=%d %s' % (rc, ' / '.join(keep)[:2000]))
    if rc != 0:
        return False, '\n'.join(log) + '\n' + out[-3000:]
    ok, olog = build_checker(root)
    log.append(olog)
    return ok, '\n'.join(log)


def build_bb_only(root):
    """build only the black-box runner (it uses the real seq_io::parallel, not the shims)"""
    env = _env()
    hp = os.path.join(root, 'harness_par')
    rc, out = _run(['cargo', 'build', '--release', '--offline', '--quiet', '--bin', 'parbb'], cwd=hp, env=env)
    return rc == 0, out[-2000:]


def build_checker(root):
    oc = os.path.join(root, 'ocaml')
    ml, mli, chk = (os.path.join(oc, f) for f in ('par.ml', 'par.mli', 'par_check.ml'))
    exe = os.path.join(oc, 'par_check')
    for f in (ml, mli, chk):
        if not os.path.exists(f):
            return False, 'missing %s (extraction did not run?)' % f
    if os.path.exists(exe) and os.path.getmtime(exe) >= max(os.path.getmtime(f) for f in (ml, mli, chk)):
        return True, 'par_check up to date'
    rc, out = _run(['ocamlfind', 'ocamlopt', '-w', '-a', 'par.mli', 'par.ml', 'par_check.ml',
                    '-o', 'par_check'], cwd=oc, timeout=600)
    return rc == 0, 'ocamlopt par_check rc=%d %s' % (rc, out[-1500:])


# ---------------------------------------------------------------------------
# running

def _workdir(root):
    d = os.path.join(root, 'work', 'par')
    os.makedirs(d, exist_ok=True)
    return d


def _parallel(cmds, outs, timeout):
    """run the commands concurrently, stdout of each into the corresponding file"""
    procs = []
    for cmd, out in zip(cmds, outs):
        f = open(out, 'wb')
        procs.append((subprocess.Popen(cmd, stdout=f, stderr=subprocess.DEVNULL, env=_env()), f))
    t0 = time.time()
    rcs = []
    for p, f in procs:
        try:
            rcs.append(p.wait(timeout=max(1, timeout - (time.time() - t0))))
        except subprocess.TimeoutExpired:
            p.kill()
            rcs.append(124)
        f.close()
    return rcs


def parse_cfg_line(line):
    """'CFG n q rinit_ok (None|Some j) k script consumer..' -> dict"""
    w = line.split()
    assert w[0] == 'CFG'
    i = 4
    if w[i] == 'None':
        dinit, i = None, i + 1
    else:
        dinit, i = int(w[i + 1]), i + 2
    k, script = int(w[i]), w[i + 1]
    cons = ' '.join(w[i + 2:])
    return {'n': int(w[1]), 'q': int(w[2]), 'rinit_ok': w[3] == 'true', 'dinit_fail': dinit,
            'k': k, 'script_err': script == 'ScriptErr', 'consumer': cons}


def run_shuttle(root, seed, tier='quick', iters=None, shards=NPROC):
    """-> list of runs.
    protocol runs:  {'type':'proto','cfg':str,'sched':str,'events':[str],'model':'OK'|'REJECTED k'|'NOTFINAL'}
    per-record runs: {'type':'rec', ...observation fields..., 'sched':str, 'model':None}
    abnormal:        {'type':'abnormal','cfg':str,'kind':'deadlock'|'livelock'|'panic','sched':str,
                      'msg':str,'events':[str],'model':None}
    plus one {'type':'stat', 'schedules':int, 'configs':int, 'shards_failed':[..]} entry at the end."""
    iters = iters or TIERS[tier]['iters']
    wd = _workdir(root)
    exe = os.path.join(root, 'harness_par', 'target', 'release', 'parshuttle')
    chk = os.path.join(root, 'ocaml', 'par_check')
    logs = [os.path.join(wd, 'shuttle_%d_%d.log' % (seed, i)) for i in range(shards)]
    cmds = [[exe, str(seed), str(iters), tier, str(i), str(shards)] for i in range(shards)]
    rcs = _parallel(cmds, logs, timeout=3600)
    verd = [l + '.chk' for l in logs]
    _parallel([[chk, l] for l in logs], verd, timeout=3600)
    runs = []
    nsched = 0
    nconf = 0
    failed = [i for i, rc in enumerate(rcs) if rc != 0]
    for i, (lf, vf) in enumerate(zip(logs, verd)):
        verdicts = [l.rstrip('\n') for l in open(vf, errors='replace')
                    if l.startswith(('OK ', 'REJECTED ', 'NOTFINAL ', 'PARSE-ERROR '))]
        vi = 0
        cur = None
        done = False
        for line in open(lf, errors='replace'):
            line = line.rstrip('\n')
            if line.startswith('CFG '):
                cur = {'type': 'proto', 'cfg': line, 'sched': '-', 'events': [], 'model': None}
            elif line.startswith('SCHED ') and cur is not None:
                w = line.split()
                cur['sched'] = ':'.join(w[1:4])      # kind:schedule-seed:config-index
            elif line == 'END' and cur is not None:
                v = verdicts[vi] if vi < len(verdicts) else 'MISSING'
                vi += 1
                w = v.split()
                cur['model'] = 'OK' if w[0] == 'OK' else ('REJECTED ' + w[1] if w[0] == 'REJECTED' else w[0])
                runs.append(cur)
                cur = None
            elif line.startswith('REC '):
                try:
                    o = json.loads(line[4:])
                except ValueError:
                    o = {'status': 'UNPARSABLE', 'raw': line[:300]}
                o['type'] = 'rec'
                o['model'] = None
                o['under'] = 'shuttle'
                runs.append(o)
            elif line.startswith('ABNORMAL '):
                parts = line[len('ABNORMAL '):].split(' | ')
                parts += [''] * (5 - len(parts))
                runs.append({'type': 'abnormal', 'cfg': parts[0], 'kind': parts[1], 'sched': parts[2],
                             'msg': parts[3], 'events': [e for e in parts[4].split(';') if e],
                             'model': None})
            elif line.startswith('STAT '):
                nconf += 1
            elif line.startswith('DONE '):
                done = True
                nsched += int(line.split()[-1])
            elif cur is not None:
                cur['events'].append(sys.intern(line))
        if not done and i not in failed:
            failed.append(i)
        if not os.environ.get('VERIF_KEEP_LOGS'):
            for fn in (lf, vf):
                try:
                    os.remove(fn)
                except OSError:
                    pass
    runs.append({'type': 'stat', 'schedules': nsched, 'configs': nconf, 'shards_failed': sorted(failed),
                 'iters': iters, 'tier': tier, 'seed': seed})
    return runs


def run_bb(root, seed, tier='quick', n=None, shards=NPROC):
    """-> list of parsed black-box observations (dicts, 'type': 'bb'); a shard that died
    contributes {'type':'bb','status':'CRASH',...}"""
    n = n or TIERS[tier]['bb']
    wd = _workdir(root)
    exe = os.path.join(root, 'harness_par', 'target', 'release', 'parbb')
    per = (n + shards - 1) // shards
    outs = [os.path.join(wd, 'bb_%d_%d.jsonl' % (seed, i)) for i in range(shards)]
    cmds = [[exe, str(seed * 1000 + i), str(per)] for i in range(shards)]
    rcs = _parallel(cmds, outs, timeout=3600)
    obs = []
    for i, (f, rc) in enumerate(zip(outs, rcs)):
        cnt = 0
        aborted = False
        for line in open(f, errors='replace'):
            line = line.strip()
            if not line:
                continue
            try:
                o = json.loads(line)
            except ValueError:
                o = {'status': 'UNPARSABLE', 'raw': line[:300]}
            if o.get('type') == 'stat' and 'aborted_after_hangs' in o:
                aborted = True          # the shard stopped after three hangs (each costs the watchdog time)
                continue
            o['type'] = 'bb'
            o['under'] = 'threads'
            o['shard_seed'] = seed * 1000 + i
            obs.append(o)
            cnt += 1
        if rc != 0 or (cnt != per and not aborted):
            obs.append({'type': 'bb', 'kind': 'shard', 'status': 'CRASH', 'rc': rc, 'lines': cnt,
                        'expected': per, 'shard_seed': seed * 1000 + i})
        if not os.environ.get('VERIF_KEEP_LOGS'):
            try:
                os.remove(f)
            except OSError:
                pass
    return obs


# ---------------------------------------------------------------------------
# helpers for the oracles

def rec_out(rid, seq):
    """FNV-1a 64 of id|seq with the top bit set (common::rec_out), recomputed here"""
    h = 0xcbf29ce484222325
    for b in (rid + '|' + seq).encode():
        h ^= b
        h = (h * 0x100000001b3) & 0xFFFFFFFFFFFFFFFF
    return h | (1 << 63)


def _proto(run):
    """decode a protocol run's event log"""
    c = parse_cfg_line(run['cfg'])
    ev = [e.split() for e in run['events']]
    c['ev'] = ev
    c['filled'] = [int(e[3]) for e in ev if e[0] == 'EFill' and e[2] == 'FOk']
    c['delivered'] = [(int(e[3]), int(e[4])) for e in ev if e[0] == 'EConsume' and e[1] == 'CData']
    c['dinit_failed'] = any(e[0] == 'EDatasetInit' and e[1] == 'None' for e in ev)
    c['nerr_seen'] = sum(1 for e in ev if e[0] == 'EConsume' and e[1] == 'CErr')
    c['patient'] = c['consumer'] == 'Drain' or (c['consumer'] == 'DrainStopErr' and not c['script_err'])
    c['no_failure'] = c['rinit_ok'] and not c['dinit_failed']
    return c


def _expected(o):
    """records the reader can deliver before the invalid one, with their outputs"""
    exp = o.get('exp', [])
    bad = o.get('bad_at')
    if bad is not None:
        exp = exp[:bad] if o.get('fmt') == 'fastq' else []
    return [(rid, str(rec_out(rid, seq))) for rid, seq in exp]


def _seen_records(o):
    if o.get('kind') == 'sets':
        return [tuple(p) for s in o.get('sets', []) for p in s]
    return [tuple(p) for p in o.get('seen', [])]


def _failure_free(o):
    return (not o.get('reader_init_fails') and o.get('dinit_fail_at') is None
            and o.get('rset_fail_at') is None and o.get('rec_fail_at') is None)


def _drains(o):
    if o.get('kind') == 'rec':
        return o.get('stop_after') is None
    return o.get('consumer') == 'drain' or (o.get('consumer') == 'stoperr' and not _has_error(o))


def _has_error(o):
    if o.get('kind') == 'mock':
        return bool(o.get('script_err'))
    # an invalid record, or a source failure that the sequential reader meets too (io_fail_at beyond the last
    # read call never happens: then seq_err is None)
    return o.get('bad_at') is not None or (o.get('io_fail_at') is not None and o.get('seq_err') is not None)


def _done(o):
    return o.get('status') == 'done'


# ---------------------------------------------------------------------------
# C07  every record set exactly once with its own result

def oracle_C07(run):
    f = []
    t = run.get('type')
    if t == 'abnormal':
        # a run that deadlocks / panics while the consumer is draining a stream without errors: the record
        # sets the reader produced never reach the consumer (C08 reports the same run as non-termination)
        cfg = run.get('cfg', '')
        if (' Drain' in cfg or 'DrainStopErr' in cfg) and 'ScriptEnd' in cfg and ' true None ' in cfg:
            f.append('%s in schedule %s of %s: the draining consumer never receives the remaining record sets'
                     % (run.get('kind'), run.get('sched'), cfg[:120]))
        return f
    if t in ('bb', 'rec') and run.get('kind') in ('rec', 'sets', 'mock') and not _done(run):
        o = run
        if _drains(o) and _failure_free(o) and not _has_error(o) and not o.get('script_err') \
                and str(o.get('status', '')).split(':')[0] in ('HANG', 'PANIC'):
            f.append('call did not return (%s): the draining consumer never receives all record sets (%s)'
                     % (o.get('status'), _cfg_brief(o)))
        return f
    if t == 'proto':
        c = _proto(run)
        k = c['k']
        seen = set()
        for (cont, out) in c['delivered']:
            if out != WORK_FN(cont):
                f.append('delivered content %d with out %d != work(%d)' % (cont, out, cont))
            if cont in seen:
                f.append('content %d delivered twice' % cont)
            seen.add(cont)
            if cont not in c['filled']:
                f.append('content %d delivered but never filled' % cont)
        for e in c['ev']:
            if e[0] in ('EWork', 'EJobSend') and int(e[3]) != WORK_FN(int(e[2])):
                f.append('%s carries out %s for content %s' % (e[0], e[3], e[2]))
        if c['filled'] != list(range(len(c['filled']))):
            f.append('fill order is not 0,1,2,..: %s' % c['filled'])
        if c['patient'] and c['no_failure']:
            if sorted(x for x, _ in c['delivered']) != list(range(k)):
                f.append('draining consumer received contents %s, expected every one of 0..%d once'
                         % ([x for x, _ in c['delivered']], k - 1))
        if c['n'] == 1:
            conts = [x for x, _ in c['delivered']]
            if conts != list(range(len(conts))):
                f.append('single worker: delivery order %s is not the fill order' % conts)
        # the end marker only after every executed job has sent its result
        ex = js = 0
        for e in c['ev']:
            if e[0] == 'EExecute':
                ex += 1
            elif e[0] == 'EJobSend':
                js += 1
            elif e[0] == 'ESendEnd' and ex != js:
                f.append('end marker sent while %d job(s) unfinished' % (ex - js))
        return f
    if t in ('rec', 'bb') and run.get('kind') in ('rec', 'sets') and _done(run):
        o = run
        exp = _expected(o)
        expd = dict(exp)
        order = {rid: i for i, (rid, _) in enumerate(exp)}
        seen = _seen_records(o)
        ids = [rid for rid, _ in seen]
        for rid, out in seen:
            if rid not in expd:
                f.append('record %r delivered but not expected (not in the input / after the invalid record)' % rid)
            elif out != expd[rid]:
                f.append('record %s delivered with output %s, its own output is %s' % (rid, out, expd[rid]))
        if len(set(ids)) != len(ids):
            f.append('a record was delivered more than once: %s' % ids)
        full = _drains(o) and _failure_free(o)
        if full and not _has_error(o) and sorted(ids) != sorted(expd):
            f.append('draining consumer saw %d of %d records: missing %s' %
                     (len(ids), len(expd), sorted(set(expd) - set(ids))[:5]))
        if o.get('kind') == 'sets':
            flat_first = []
            for s in o.get('sets', []):
                idx = [order.get(rid, -1) for rid, _ in s]
                if idx and idx != list(range(idx[0], idx[0] + len(idx))):
                    f.append('records inside a set are not consecutive in file order: %s' % idx)
                if idx:
                    flat_first.append(idx[0])
            if o.get('n') == 1 and flat_first != sorted(flat_first):
                f.append('single worker: sets delivered out of file order %s' % flat_first)
        elif o.get('n') == 1:
            idx = [order.get(rid, -1) for rid in ids]
            if idx != list(range(len(idx))):
                f.append('single worker: records delivered out of file order %s' % idx[:20])
        if o.get('kind') == 'rec' and o.get('stop_after') is not None and _failure_free(o) \
                and not _has_error(o):
            j = o['stop_after']
            want = min(j, len(expd))
            if len(ids) != want:
                f.append('consumer stopping at record %d saw %d records' % (j, len(ids)))
            ret = 'Ok:Some:%d' % j if len(expd) >= j else 'Ok:None'
            if o.get('ret') != ret:
                f.append('return value %s, expected %s' % (o.get('ret'), ret))
        return f
    if t == 'bb' and run.get('kind') == 'mock' and _done(run):
        o = run
        k = o['k']
        conts = [int(c) for c, _ in o['delivered']]
        for c, out in o['delivered']:
            if int(out) != WORK_FN(int(c)):
                f.append('set %s delivered with out %s' % (c, out))
        if len(set(conts)) != len(conts):
            f.append('a set was delivered twice: %s' % conts)
        if any(c >= k for c in conts):
            f.append('a set beyond the script was delivered: %s' % conts)
        if _drains(o) and _failure_free(o) and sorted(conts) != list(range(k)):
            f.append('draining consumer received sets %s, expected every one of 0..%d once' % (conts, k - 1))
        if o['n'] == 1 and conts != list(range(len(conts))):
            f.append('single worker: delivery order %s' % conts)
        return f
    return f


# ---------------------------------------------------------------------------
# C08  always terminates

def oracle_C08(run):
    f = []
    t = run.get('type')
    if t == 'abnormal':
        f.append('%s in schedule %s of %s: %s' % (run['kind'], run['sched'], run['cfg'][:200], run['msg'][:200]))
    elif t == 'proto':
        ev = run['events']
        if not ev or not ev[-1].startswith('EReturn'):
            f.append('event log does not end with EReturn: %s' % (ev[-1] if ev else '<empty>'))
        if sum(1 for e in ev if e.startswith('EReturn')) != 1:
            f.append('EReturn logged %d times' % sum(1 for e in ev if e.startswith('EReturn')))
        if 'EReaderExit' not in ev or 'EJoinReader' not in ev:
            f.append('reader thread not joined before the return')
    elif t in ('bb', 'rec'):
        st = run.get('status')
        if st != 'done':
            f.append('call did not return normally: %s (%s)' % (st, _cfg_brief(run)))
        elif 'ret' not in run:
            f.append('no return value recorded')
    elif t == 'stat':
        if run.get('shards_failed'):
            f.append('parshuttle shards died: %s' % run['shards_failed'])
    return f


def _cfg_brief(o):
    keys = ('kind', 'api', 'fmt', 'n', 'q', 'cap', 'nrec', 'k', 'consumer', 'stop_after', 'bad_at',
            'bad_kind', 'script_err', 'reader_init_fails', 'dinit_fail_at', 'rset_fail_at', 'rec_fail_at', 'io_fail_at',
            'seed', 'sched', 'shard_seed', 'run')
    return ' '.join('%s=%s' % (k, o[k]) for k in keys if k in o and o[k] is not None)


# ---------------------------------------------------------------------------
# C15  errors reach the caller

def oracle_C15(run):
    f = []
    t = run.get('type')
    if t == 'abnormal':
        # "... is returned to the caller as an error rather than causing a hang or a panic"
        try:
            c = parse_cfg_line(run['cfg']) if run.get('cfg', '').startswith('CFG') else None
        except Exception:
            c = None
        if c is None:
            if any(k in run.get('cfg', '') for k in ('fail', 'bad_at', 'bad_kind')):
                f.append('%s on an error path (per-record run): %s' % (run['kind'], run['cfg'][:160]))
        elif (not c['rinit_ok']) or c['dinit_fail'] is not None or c['script_err']:
            f.append('%s instead of a returned error: schedule %s of %s' % (run['kind'], run['sched'], run['cfg'][:160]))
        return f
    if t in ('rec', 'bb') and not _done(run) and str(run.get('status', '')).split(':')[0] in ('HANG', 'PANIC'):
        if not _failure_free(run) or _has_error(run):
            f.append('%s instead of a returned error (%s)' % (run.get('status'), _cfg_brief(run)))
        return f
    if t == 'proto':
        c = _proto(run)
        ev = c['ev']
        if c['nerr_seen'] > 1:
            f.append('consumer saw the reader error %d times' % c['nerr_seen'])
        if sum(1 for e in ev if e[0] == 'ESendErr') > 1:
            f.append('error sent more than once')
        # nothing is filled after the failing fill, nothing beyond the script
        if any(x >= c['k'] for x in c['filled']):
            f.append('content beyond the error index filled: %s' % c['filled'])
        names = [e[0] + (' ' + e[2] if e[0] == 'EFill' else '') for e in ev]
        if 'EFill FErr' in names and any(n.startswith('EFill') for n in names[names.index('EFill FErr') + 1:]):
            f.append('fill_data called again after it returned an error')
        if c['script_err'] and c['no_failure'] and c['consumer'] in ('Drain', 'DrainStopErr'):
            if c['nerr_seen'] != 1:
                f.append('reader error at index %d: consumer saw it %d times' % (c['k'], c['nerr_seen']))
        if c['script_err'] and c['no_failure'] and c['consumer'] == 'Drain' and any(e[0] == 'EReturn' for e in ev):
            # "a consumer that keeps draining receives all earlier sets and then the end marker"
            got = sorted(x for x, _ in c['delivered'])
            if got != list(range(c['k'])):
                f.append('draining consumer received the sets %s, the reader produced 0..%d before its error' % (got, c['k'] - 1))
            cons = [e for e in ev if e[0] == 'EConsume']
            if cons and cons[-1][1] != 'CNone':
                f.append('draining consumer did not get the end marker last')
        if c['consumer'] == 'DrainStopErr' and c['nerr_seen']:
            i = max(j for j, e in enumerate(ev) if e[0] == 'EConsume' and e[1] == 'CErr')
            if any(e[0] in ('EConsume', 'EDoneRecv') for e in ev[i + 1:]):
                f.append('consumer that stops at the error called next() again')
        ret = [e[1] for e in ev if e[0] == 'EReturn']
        want = 'true' if c['no_failure'] else 'false'
        if ret and ret[-1] != want:
            f.append('returned %s although reader_init ok=%s, dataset_init failed=%s'
                     % ('Ok' if ret[-1] == 'true' else 'Err', c['rinit_ok'], c['dinit_failed']))
        if not c['rinit_ok']:
            if any(e[0] == 'EDoneRecv' and e[1] != 'RClosed' for e in ev) or \
                    any(e[0] == 'EConsume' and e[1] != 'CNone' for e in ev):
                f.append('reader_init failed but next() returned something else than None')
        return f
    if t in ('rec', 'bb') and _done(run):
        o = run
        kind = o.get('kind')
        ret = o.get('ret', '')
        if kind == 'mock':
            k = o['k']
            errs = o.get('errs', [])
            if len(errs) > 1:
                f.append('consumer saw %d errors' % len(errs))
            if errs and errs[0] != 'mock-error-at-%d' % k:
                f.append('consumer saw error %r' % errs[0])
            if o['nfilled'] > k:
                f.append('%d sets filled, script has %d' % (o['nfilled'], k))
            if o['script_err'] and _failure_free(o) and o['consumer'] in ('drain', 'stoperr') and len(errs) != 1:
                f.append('reader error at set %d: consumer saw it %d times' % (k, len(errs)))
            if o['script_err'] and _failure_free(o) and o['consumer'] == 'drain':
                got = sorted(int(x[0]) if isinstance(x, (list, tuple)) else int(x) for x in o.get('delivered', o.get('seen', [])))
                if o.get('delivered') is not None and got != list(range(k)):
                    f.append('draining consumer received the sets %s, the reader produced 0..%d before its error' % (got, k - 1))
            if o['consumer'] == 'stoperr' and o.get('after_err'):
                f.append('sets delivered after the consumer stopped at the error')
            f += _init_ret(o, ret)
        elif kind == 'sets':
            errs = o.get('errs', [])
            if len(errs) > 1:
                f.append('consumer saw %d errors' % len(errs))
            if errs and errs[0] != o.get('seq_err'):
                f.append('parallel reader error %r differs from the sequential reader\'s %r' % (errs[0], o.get('seq_err')))
            if o.get('seq_err') is not None and _failure_free(o) and o['consumer'] in ('drain', 'stoperr') \
                    and len(errs) != 1:
                f.append('input has a parse error (%s) but the consumer saw %d errors' % (o['seq_err'], len(errs)))
            if o.get('seq_err') is None and errs:
                f.append('valid input but the consumer saw %r' % errs[0])
            f += _init_ret(o, ret)
        elif kind == 'rec':
            se = o.get('seq_err')
            if _failure_free(o) and o.get('stop_after') is None:
                want = ('Err:Parse:' + se) if se is not None else 'Ok:None'
                if ret != want:
                    f.append('returned %r, the sequential reader gives %r' % (ret, want))
            if o.get('reader_init_fails') and ret != 'Err:ReaderInit':
                f.append('reader_init failed but returned %r' % ret)
            j = o.get('rset_fail_at')
            if j is not None:
                happened = o.get('rset_init_calls', 0) >= j + 1
                if happened and ret != 'Err:RsetInit':
                    f.append('rset_data_init call %d failed but returned %r' % (j, ret))
                if not happened and ret.startswith('Err:RsetInit'):
                    f.append('Err:RsetInit although call %d never happened' % j)
            j = o.get('rec_fail_at')
            if j is not None:
                happened = o.get('rec_init_calls', 0) >= j + 1
                if happened and ret != 'Err:RecInit':
                    f.append('record_data_init call %d failed but returned %r' % (j, ret))
                if not happened and ret.startswith('Err:RecInit'):
                    f.append('Err:RecInit although call %d never happened' % j)
        return f
    return f


def _init_ret(o, ret):
    f = []
    if o.get('api') == 'read_parallel':
        return f
    if o.get('reader_init_fails'):
        if ret != 'Err:ReaderInit':
            f.append('reader_init failed but returned %r' % ret)
        if o.get('delivered') or o.get('sets') or o.get('errs'):
            f.append('reader_init failed but the consumer received something')
    elif o.get('dinit_fail_at') is not None:
        happened = o.get('dataset_init_calls', 0) >= o['dinit_fail_at'] + 1
        if happened and ret != 'Err:DatasetInit':
            f.append('dataset_init call %d failed but returned %r' % (o['dinit_fail_at'], ret))
        if not happened and ret != 'Ok':
            f.append('returned %r although no init closure failed' % ret)
    elif ret != 'Ok':
        f.append('returned %r although no init closure failed' % ret)
    return f


# ---------------------------------------------------------------------------
# C16  fixed number of recycled data sets

def _rec_bytes(o):
    """largest record of the generated input, in bytes of file text"""
    m = 0
    for i, (rid, seq) in enumerate(o.get('exp', [])):
        head = len(rid) + len(' d%d' % i) + 2
        if o.get('fmt') == 'fastq':
            n = head + 2 * (len(seq) + 1) + 2 + 2      # +2: the invalid variant's longer quality
        else:
            w = o.get('wrap') or 0
            lines = 1 if not w else max(1, -(-len(seq) // w))
            n = head + len(seq) + lines
        m = max(m, n)
    return m


def _buf_bound(o):
    """bound on the reader buffer: it doubles from `cap` until the largest record (+ look-ahead)
    fits, independent of the number of records"""
    need = _rec_bytes(o) + 16
    b = o.get('cap', 0)
    while b < need:
        b *= 2
    return max(b, 1)


def oracle_C16(run):
    f = []
    t = run.get('type')
    if t == 'proto':
        c = _proto(run)
        q = c['q']
        created = 0
        inflight = 0
        for e in c['ev']:
            if e[0] == 'EDatasetInit' and e[1] == 'Some':
                if int(e[2]) != created:
                    f.append('data set tags not consecutive')
                created += 1
                if created > q + 1:
                    f.append('%d data sets created with queue_len %d' % (created, q))
            elif e[0] == 'EFill':
                if int(e[1]) >= created:
                    f.append('fill_data got a data set (tag %s) that dataset_init never created' % e[1])
                if e[2] == 'FOk':
                    inflight += 1
                    if inflight > q:
                        f.append('%d filled sets not yet received by the consumer (queue_len %d)' % (inflight, q))
            elif e[0] == 'EDoneRecv' and e[1] == 'RData':
                inflight -= 1
        return f
    if t in ('rec', 'bb') and _done(run):
        o = run
        kind = o.get('kind')
        q = o.get('q', 0)
        if kind in ('mock', 'sets') and o.get('api') != 'read_parallel':
            if o.get('dataset_init_calls', 0) > q + 1:
                f.append('dataset_init called %d times with queue_len %d' % (o['dataset_init_calls'], q))
            # counted outside next(): the set next() is about to return is not yet "consumed"
            if o.get('max_ahead', 0) > q + 1:
                f.append('reader was %d sets ahead of the consumer (queue_len %d)' % (o['max_ahead'], q))
        if kind == 'mock' and len(set(o.get('tags', []))) > q + 1:
            f.append('%d distinct data sets seen by the consumer' % len(set(o['tags'])))
        if kind == 'sets' and o.get('bufcap_max', 0) > 4 * _buf_bound(o):
            f.append('RecordSet buffer capacity %d exceeds 4 x the reader buffer bound %d'
                     % (o['bufcap_max'], _buf_bound(o)))
        if kind == 'rec' and o.get('api', '').endswith('_init'):
            if o.get('rset_init_calls', 0) > q + 1:
                f.append('rset_data_init called %d times with queue_len %d' % (o['rset_init_calls'], q))
            minrec = 13 if o.get('fmt') == 'fastq' else 9
            per_set = _buf_bound(o) // minrec + 1
            if 'max_set' in o and o.get('rec_init_calls', 0) > (q + 1) * o['max_set']:
                f.append('record_data_init called %d times: the %d data sets hold at most %d records each, so output slots '
                         'were created again instead of being reused' % (o['rec_init_calls'], q + 1, o['max_set']))
            if o.get('rec_init_calls', 0) > (q + 1) * per_set:
                f.append('record_data_init called %d times: more than (queue_len+1) x the largest possible '
                         'record set (%d)' % (o['rec_init_calls'], per_set))
        return f
    return f


ORACLES = {'C07': oracle_C07, 'C08': oracle_C08, 'C15': oracle_C15, 'C16': oracle_C16}


def nontrivial(run):
    """does the run exercise more than the empty path?"""
    t = run.get('type')
    if t == 'proto':
        ev = run['events']
        return any(e.startswith(('EConsume CData', 'EConsume CErr', 'EDatasetInit None', 'EReaderInit false',
                                 'EEmptyRecv None', 'EJobSend')) for e in ev)
    if t in ('rec', 'bb'):
        return bool(run.get('seen') or run.get('sets') or run.get('delivered') or run.get('errs')
                    or (run.get('ret') or 'Ok').startswith('Err') or run.get('status') != 'done')
    return t == 'abnormal'


def summarize(runs):
    """-> dict: counts, model verdicts, failures per property (first 10 each)"""
    s = {'runs': 0, 'proto': 0, 'rec_shuttle': 0, 'bb': 0, 'abnormal': 0, 'nontrivial': 0,
         'model': {'OK': 0, 'REJECTED': 0, 'NOTFINAL': 0, 'other': 0},
         'failures': {p: [] for p in ORACLES}, 'nfail': {p: 0 for p in ORACLES}, 'first_rejected': [],
         'nfail_by_source': {p: {} for p in ORACLES}}
    for r in runs:
        t = r.get('type')
        if t == 'stat':
            s['stat'] = r
        else:
            s['runs'] += 1
            s['nontrivial'] += 1 if nontrivial(r) else 0
            key = {'proto': 'proto', 'rec': 'rec_shuttle', 'bb': 'bb', 'abnormal': 'abnormal'}.get(t)
            if key:
                s[key] += 1
        if t == 'proto':
            m = (r.get('model') or 'other').split()[0]
            s['model'][m if m in s['model'] else 'other'] += 1
            if m != 'OK' and len(s['first_rejected']) < 5:
                s['first_rejected'].append((r['model'], r['cfg'], r['sched']))
        for p, orc in ORACLES.items():
            try:
                fl = orc(r)
            except Exception as e:                  # an oracle must never take the check down
                fl = ['oracle crashed: %r' % e]
            if fl:
                s['nfail'][p] += 1
                src = 'shuttle-' + t if t != 'bb' else 'blackbox-' + str(r.get('kind'))
                s['nfail_by_source'][p][src] = s['nfail_by_source'][p].get(src, 0) + 1
                if len(s['failures'][p]) < 10:
                    where = r.get('cfg') if t in ('proto', 'abnormal') else _cfg_brief(r)
                    s['failures'][p].append('%s [%s %s]' % (fl[0], where, r.get('sched', '')))
    return s


def main(argv):
    root = os.path.abspath(argv[1]) if len(argv) > 1 else os.path.dirname(os.path.abspath(__file__))
    seed = int(argv[2]) if len(argv) > 2 else 1
    tier = argv[3] if len(argv) > 3 else 'quick'
    t0 = time.time()
    ok, log = gen_and_build(root)
    print('build: %s (%.0f s)\n%s' % ('ok' if ok else 'FAILED', time.time() - t0, log))
    if not ok:
        return 2
    t1 = time.time()
    runs = run_shuttle(root, seed, tier)
    t2 = time.time()
    runs += run_bb(root, seed, tier)
    t3 = time.time()
    s = summarize(runs)
    t4 = time.time()
    print('shuttle %.0f s, black box %.0f s, oracles %.0f s' % (t2 - t1, t3 - t2, t4 - t3))
    print(json.dumps({k: v for k, v in s.items() if k != 'failures'}, indent=1))
    bad = False
    for p in sorted(ORACLES):
        print('%s: %d failing runs' % (p, s['nfail'][p]))
        for l in s['failures'][p]:
            print('   ' + l[:400])
        bad = bad or s['nfail'][p] > 0
    bad = bad or s['model']['REJECTED'] + s['model']['NOTFINAL'] + s['model']['other'] > 0
    return 1 if bad else 0


if __name__ == '__main__':
    sys.exit(main(sys.argv))
