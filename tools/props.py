"""Per-property definitions: case families, projections, oracles (DESIGN.md section 5)."""
import os
import re
import subprocess

import gen
import oracles
import vlib
from vlib import parse_line, rec_fields, set_records, ROOT, WORK

ALL_CRATES = ['harness']
CRATE_EXTRA = {}

ASSUME_COMMON = [
    'the hand-written Coq model corresponds to the code only as far as the differential run explored (cases listed in coverage)',
    'buffer_redux / memchr / std iterator adaptors behave as modelled (DESIGN.md section 8)',
    'sizes and offsets stay below 2^63 (no machine-integer overflow modelled)',
]


def fmt_of(case):
    return case.split(' ')[0]


def content_proj(pl):
    """operation + what was delivered (record contents, error variant, end)"""
    k = pl['kind']
    fmt_keys = ('h', 'l', 's', 'q')
    if k == 'rec':
        f = rec_fields(pl['out'])
        return '%s rec %s' % (pl['op'], ' '.join('%s=%s' % (x, f[x]) for x in fmt_keys if x in f))
    if k == 'set':
        recs = set_records(pl['out']) or []
        return '%s set %d %s' % (pl['op'], len(recs), '|'.join(
            ' '.join('%s=%s' % (x, rec_fields(r)[x]) for x in fmt_keys if x in rec_fields(r)) for r in recs))
    if k == 'err':
        return '%s %s' % (pl['op'], ' '.join(pl['out'].split(' ')[:2]))
    if k == 'own':
        return '%s %s' % (pl['op'], pl['out'])
    return '%s %s' % (pl['op'], k)


def full_proj(pl):
    """everything but the environment events"""
    return '%s %s @%s' % (pl['op'], norm_lossy(pl['out']), pl['pos'])


def ev_proj(pl):
    return '%s %s @%s ev=%s' % (pl['op'], norm_lossy(pl['out']), pl['pos'], ','.join(pl['ev']))


def norm_lossy(out):
    """ids that are not valid UTF-8: the model prints '!' (lossy conversion not modelled)"""
    if out.startswith('err fq_') and ('efbfbd' in out):
        toks = out.split(' ')
        toks = [('!' if (t.startswith('=') and 'efbfbd' in t) else t) for t in toks]
        toks = [('m=!' if t.startswith('m=') else t) for t in toks]
        return ' '.join(toks)
    return out


class Prop:
    id = ''
    level = 'proof'
    uses_model = True
    reader_cases = True
    crates = ['harness']
    cargo_extra = {}
    fmts = ('fa', 'fq')
    assumptions = ASSUME_COMMON

    def accepts_case(self, line):
        return fmt_of(line) in self.fmts

    def cases(self, tier, rng):
        return []

    def widen(self, rng, seeds, rnd):
        out = []
        for c in seeds:
            t = c.split(' ')
            if t[0] not in ('fa', 'fq'):
                continue
            n = 0 if t[2] == '-' else len(t[2]) // 2
            for cap in range(3, n + 4):
                for rs in gen.chunkings(n):
                    out.append(' '.join([t[0], str(cap), t[2], gen.lst(rs)] + t[4:]))
        for f in self.fmts:
            out += gen.structured(f, rng, 3000)
        if rnd == 1:
            for f in self.fmts:
                out += gen.exhaustive(f, 6, chunks=[[], ['D0'] * 8])
        return out

    def project(self, pl):
        return content_proj(pl)

    def oracle(self, res):
        return []

    def cross(self, results):
        return []

    def extra(self, tier, rng, stats):
        return [], {}

    def nontrivial(self, res):
        return len(res['spec']) > 0

    def rule(self, tier):
        return ''

    def exhaustive_part(self, tier):
        return None


def abnormal(res):
    bad = []
    for i, l in enumerate(res['impl']):
        pl = parse_line(l)
        if pl['kind'] in ('panic', 'hang') or pl['op'] == '?':
            bad.append('op#%d %s' % (i, l[:60]))
    return bad


def mix_owned(rng, ops):
    return [('O' if (o == 'N' and rng.chance(1, 5)) else o) for o in ops]


# ---------------------------------------------------------------------------

class C01(Prop):
    id = 'C01'
    fmts = ('fa',)
    L = {'quick': 5, 'thorough': 7}
    N = {'quick': 3000, 'thorough': 60000}

    def cases(self, tier, rng):
        f = self.fmts[0]
        out = gen.exhaustive(f, self.L[tier])
        out += gen.structured(f, rng, self.N[tier],
                              ops_fn=lambda r, t: mix_owned(r, ['N'] * gen.n_items_bound(f, t)))
        return out

    def oracle(self, res):
        return abnormal(res) + oracles.cursor_check(self.fmts[0], res, level='kind', check_pos=False)

    def rule(self, tier):
        return ('all byte strings up to length %d over the 5-letter format alphabet x capacities 3..len+2 x chunkings '
                '{whole, 1 byte, 2 bytes}, then %d structured random files (1/4 malformed) with random capacity, chunking '
                '(incl. interrupted reads) and policy; read with next()/records() until end is reported twice; '
                'non-trivial = the Spec stream has at least one item; distinct = distinct case line' % (self.L[tier], self.N[tier]))

    def exhaustive_part(self, tier):
        return 'strings of length <= %d over {>,LF,CR,A,SP} (FASTA) / {@,+,LF,CR,A} (FASTQ) x capacities 3..len+2 x 3 chunkings' % self.L[tier]


class C02(C01):
    id = 'C02'
    fmts = ('fq',)


class C03(Prop):
    id = 'C03'

    def configs(self, n):
        caps = sorted(set([3, 4, 5, 7, max(3, n), max(3, n + 2), 64]))
        out = []
        for i, cap in enumerate(caps):
            rs = [[], ['D0'] * (n + 2), ['I', 'D1', 'I', 'I', 'D0'] * (n // 2 + 2)][i % 3]
            pol = ['std', 'plus.1.100000', 'du.5'][(i // 2) % 3]
            out.append((cap, rs, pol))
        return out

    def cases(self, tier, rng):
        out = []
        L = 4 if tier == 'quick' else 6
        import itertools
        inputs = []
        for f in self.fmts:
            alpha = gen.FA_ALPHA if f == 'fa' else gen.FQ_ALPHA
            for n in range(0, L + 1):
                for s in itertools.product(alpha, repeat=n):
                    inputs.append((f, bytes(s)))
            for _ in range(400 if tier == 'quick' else 6000):
                cap = rng.choice([3, 5, 8, 13])
                t = gen.fasta_file(rng, cap) if f == 'fa' else gen.fastq_file(rng, cap)
                if rng.chance(1, 4):
                    t = gen.malform(rng, f, t)
                inputs.append((f, t))
        for f, t in inputs:
            k = gen.n_items_bound(f, t)
            for which, ops in (('n', ['N'] * k), ('s', ['S0'] * k)):
                if which == 's' and len(t) <= 4:
                    continue
                for cap, rs, pol in self.configs(len(t)):
                    out.append(gen.mkcase(f, cap, t, rs, None, pol, ops))
        return out

    def project(self, pl):
        return ev_proj(pl)

    def oracle(self, res):
        return abnormal(res)

    def cross(self, results):
        """pairwise: same input and operations => same observable outcome, whatever the configuration"""
        groups = {}
        for r in results:
            t = r['case'].split(' ')
            groups.setdefault((t[0], t[2], t[6]), []).append(r)
        bad = []
        for key, rs in groups.items():
            if len(rs) < 2:
                continue
            sets = key[2].startswith('S')

            def obs(r):
                if not sets:
                    return [full_proj(parse_line(l)) for l in r['impl']]
                # set reads: batch boundaries depend on the configuration by design; the
                # concatenated records, the error and the end signal must agree
                recs, tail = [], []
                for l in r['impl']:
                    pl = parse_line(l)
                    if pl['kind'] == 'set':
                        recs.extend(' '.join(x.split(' ')[:3]) for x in set_records(pl['out']))
                    elif pl['kind'] == 'none':
                        if not tail or tail[-1] != 'none':
                            tail.append('none')
                    else:
                        tail.append(norm_lossy(pl['out']))
                return recs + tail
            ref = obs(rs[0])
            for r in rs[1:]:
                o = obs(r)
                if sets and any(x.startswith('err') for x in o + ref):
                    # an invalid record ahead: set reads deliver only records preceding it, how many of them
                    # depends on the batch boundaries (records sharing the invalid record's batch are not
                    # delivered, DESIGN.md section 7); the error and the end signal must agree
                    ra, rb = [x for x in o if x.startswith('rec') or x.startswith('h=')], [x for x in ref if x.startswith('rec') or x.startswith('h=')]
                    ta, tb = [x for x in o if x not in ra], [x for x in ref if x not in rb]
                    k = min(len(ra), len(rb))
                    if ra[:k] == rb[:k] and ta == tb:
                        continue
                if o != ref:
                    k = next((i for i, (a, b) in enumerate(zip(ref, o)) if a != b), min(len(ref), len(o)))
                    bad.append(({'case': r['case'], 'impl': r['impl'], 'spec': r['spec'], 'model': r['model'],
                                 'other_case': rs[0]['case'], 'other_impl': rs[0]['impl'], 'noshrink': True},
                                ['outcome differs between two configurations of the same input at item %d: %s  vs  %s'
                                 % (k, (o[k] if k < len(o) else '<nothing>')[:100], (ref[k] if k < len(ref) else '<nothing>')[:100])]))
                    break
        return bad

    def rule(self, tier):
        return ('every input (all strings up to length %d over both alphabets + structured random files) is read under 5-7 '
                'configurations (capacity x chunking incl. interrupted reads x policy); implementation traces of the same input '
                'are compared pairwise on the full outcome (contents, error fields, positions, end), set reads on the '
                'concatenation; additionally model/implementation are compared including the read-call and grow_to logs; '
                'non-trivial = at least one spec item' % (4 if tier == 'quick' else 6))

    def exhaustive_part(self, tier):
        return 'strings of length <= %d over both alphabets x the configuration family' % (4 if tier == 'quick' else 6)


def set_discipline(res):
    """a refilled set contains only the new batch; the other set stays unchanged; re-iteration is stable"""
    slots = {}
    bad = []
    for i, l in enumerate(res['impl']):
        pl = parse_line(l)
        c = pl['op'][0]
        if c in 'SE' and pl['kind'] == 'set':
            slots[pl['op'][1]] = pl['out']
        elif c in 'SE':
            slots.pop(pl['op'][1], None)        # a failed / empty read may legitimately change (empty) the set
        elif c == 'I':
            s = pl['op'][1]
            if s in slots:
                if pl['out'] != slots[s]:
                    bad.append('op#%d iterating set %s again gives different records than when it was filled' % (i, s))
    return bad


class C04(Prop):
    id = 'C04'

    def cases(self, tier, rng):
        out = []
        n = 2500 if tier == 'quick' else 40000
        for f in self.fmts:
            out += gen.structured(f, rng, n, malformed_share=6,
                                  ops_fn=lambda r, t: gen.rnd_history(r, t, f))
            # fixed switch patterns on the exhaustive small scope
            pats = [['S0', 'N', 'S0', 'N', 'N'], ['N', 'S0', 'S1', 'I0', 'N'], ['E0.1', 'N', 'E0.2', 'I0', 'E1.3', 'N'],
                    ['E0.2', 'E0.2', 'E0.2', 'N'], ['O', 'E0.3', 'O', 'S0', 'N']]
            L = 5 if tier == 'quick' else 7
            for p in pats:
                out += gen.exhaustive(f, L, ops_fn=lambda s, p=p: p, chunks=[[]])
        return out

    def oracle(self, res):
        f = fmt_of(res['case'])
        return abnormal(res) + oracles.cursor_check(f, res, level='kind', check_pos=False) + set_discipline(res)

    def rule(self, tier):
        return ('structured random files x random histories (<= 12 ops over next, records(), read_record_set, '
                'read_record_set_exact n=1..3, re-iteration of a kept set, position, seek to a saved position) and five fixed '
                'switch patterns over all strings up to length %d; the Spec cursor machine decides every outcome; '
                'non-trivial = at least one spec item' % (5 if tier == 'quick' else 7))

    def exhaustive_part(self, tier):
        return 'five fixed histories x all strings of length <= %d x capacities 3..len+2' % (5 if tier == 'quick' else 7)


class C05(Prop):
    id = 'C05'

    def hist(self, rng, text, f):
        k = gen.n_items_bound(f, text)
        ops = []
        for i in range(k):
            ops.append(rng.choice(['N', 'N', 'N', 'S0', 'E0.2']))
            ops.append('P')
        for _ in range(rng.range(1, 4)):
            ops.append('J%d' % rng.below(16))
            ops += [rng.choice(['N', 'N', 'S0', 'O'])] * rng.range(1, 3)
            if rng.chance(1, 2):
                ops.append('P')
        return ops + ['N']

    def cases(self, tier, rng):
        out = []
        n = 2500 if tier == 'quick' else 40000
        for f in self.fmts:
            out += gen.structured(f, rng, n, malformed_share=5, ops_fn=lambda r, t: self.hist(r, t, f))
            L = 5 if tier == 'quick' else 7
            out += gen.exhaustive(f, L, ops_fn=lambda s: ['N', 'P', 'N', 'P', 'N', 'J0', 'N', 'J1', 'N', 'N'], chunks=[[]])
        return out

    def project(self, pl):
        return full_proj(pl)

    def oracle(self, res):
        f = fmt_of(res['case'])
        return abnormal(res) + oracles.cursor_check(f, res, level='kind', check_pos=True)

    def rule(self, tier):
        return ('structured random files: read with next / set / exact-set, position saved after every call, then 1-3 seeks '
                'to saved positions (inside / outside the buffer depending on the capacity) each followed by reads; '
                'plus a fixed read-seek pattern over all strings up to length %d; positions after every call and everything '
                'read after a seek are decided by the Spec coordinates; non-trivial = at least one spec item'
                % (5 if tier == 'quick' else 7))

    def exhaustive_part(self, tier):
        return 'one read/seek pattern x all strings of length <= %d x capacities 3..len+2' % (5 if tier == 'quick' else 7)


class C13(Prop):
    id = 'C13'

    def cases(self, tier, rng):
        out = []
        n = 2500 if tier == 'quick' else 40000
        for f in self.fmts:
            out += gen.structured(f, rng, n, malformed_share=8,
                                  ops_fn=lambda r, t: r.choice([['N'] * gen.n_items_bound(f, t),
                                                                ['S0', 'N', 'O', 'S0', 'I0', 'N', 'N']]))
            out += gen.exhaustive(f, 5 if tier == 'quick' else 6, chunks=[[]])
        return out

    def project(self, pl):
        return full_proj(pl)

    def oracle(self, res):
        f = fmt_of(res['case'])
        bad = abnormal(res)
        for i, l in enumerate(res['impl']):
            pl = parse_line(l)
            dumps = [pl['out']] if pl['kind'] == 'rec' else (set_records(pl['out']) or []) if pl['kind'] == 'set' else []
            for d in dumps:
                for b in oracles.views_check(f, d):
                    bad.append('op#%d %s' % (i, b))
        return bad

    def nontrivial(self, res):
        return any(l.split(' ')[1] in ('rec', 'set') for l in res['impl'] if ' ' in l)

    def rule(self, tier):
        return ('every record returned by next(), by record sets and by owned conversion is dumped through all accessors '
                '(head, seq, seq_lines forwards/backwards, num_seq_lines, full_seq with its Cow tag, owned_seq, to_owned_record, '
                'id/desc in all variants incl. UTF-8 verdicts, the three writers) and the dump is checked for internal agreement; '
                'inputs: structured random (non-UTF-8 bytes, empty headers, leading/multiple spaces, empty lines) + all strings '
                'up to length %d; non-trivial = at least one record dumped' % (5 if tier == 'quick' else 6))

    def exhaustive_part(self, tier):
        return 'all strings of length <= %d over both alphabets x capacities' % (5 if tier == 'quick' else 6)


class C17(Prop):
    id = 'C17'

    def cases(self, tier, rng):
        out = []
        n = 3000 if tier == 'quick' else 50000
        for f in self.fmts:
            out += gen.structured(f, rng, n, malformed_share=1)
            out += gen.exhaustive(f, 5 if tier == 'quick' else 7)
        return out

    def project(self, pl):
        if pl['kind'] == 'err':
            return '%s %s' % (pl['op'], norm_lossy(pl['out']))
        return '%s %s' % (pl['op'], pl['kind'])

    def oracle(self, res):
        f = fmt_of(res['case'])
        bad = abnormal(res) + oracles.cursor_check(f, res, level='full', check_pos=False)
        # the message contains the values
        for i, l in enumerate(res['impl']):
            pl = parse_line(l)
            if pl['kind'] == 'err' and ' m=' in pl['out']:
                toks, msg = oracles.split_err(pl['out'])
                text = bytes.fromhex(msg)
                kind = toks[1]
                nums = {'fa_is': toks[2:3], 'fq_is': toks[3:4], 'fq_sep': toks[3:4], 'fq_len': toks[2:5],
                        'fq_end': toks[2:3]}.get(kind, [])
                for x in nums:
                    if x.encode() not in text:
                        bad.append('op#%d message does not contain the value %s' % (i, x))
        return bad

    def nontrivial(self, res):
        return any(' err ' in l for l in res['impl'])

    def rule(self, tier):
        return ('malformed inputs (one rule broken at a random record / random bytes / truncation) and all strings up to length %d, '
                'all capacities 3..len+2 and three chunkings: every error field (line, found byte, lengths, id) and the message text '
                'are compared with the Spec error item; non-trivial = the run produced an error'
                % (5 if tier == 'quick' else 7))

    def exhaustive_part(self, tier):
        return 'all strings of length <= %d over both alphabets x capacities x 3 chunkings' % (5 if tier == 'quick' else 7)


class C20(Prop):
    id = 'C20'
    fmts = ('fa',)

    def cases(self, tier, rng):
        import itertools
        out = []
        maxn = 4 if tier == 'quick' else 5
        for n in range(0, maxn + 1):
            lines = [b'A' * (i + 1) for i in range(n)]
            text = b'>h\n' + b''.join(l + b'\n' for l in lines)
            for k in range(0, n + 3):
                for steps in itertools.product('fb', repeat=k):
                    s = 'l' + ''.join(c + 'l' for c in steps)
                    out.append(gen.mkcase('fa', 64, text, None, None, 'std', ['M' + s]))
        # record sets and owned iterators after the end
        for _ in range(300 if tier == 'quick' else 3000):
            cap = rng.choice([3, 5, 8, 16, 64])
            t = gen.fasta_file(rng, cap)
            steps = ''.join(rng.choice('fbl') for _ in range(rng.range(1, 9)))
            out.append(gen.mkcase('fa', cap, t, None, None, 'std', ['M' + steps] * rng.range(1, 3) + ['O', 'O', 'O', 'O', 'O', 'O', 'O', 'O']))
        return out

    def project(self, pl):
        return full_proj(pl)

    def oracle(self, res):
        bad = abnormal(res)
        items = oracles.parse_spec('fa', res['spec'])
        k = 0
        ended = False
        for i, l in enumerate(res['impl']):
            pl = parse_line(l)
            if pl['kind'] == 'steps' and k < len(items):
                lines = items[k]['f']['l'].split('/')[1:]
                k += 1
                front, back = 0, len(lines)
                for tok in pl['out'].split(' ')[1:]:
                    c = tok[0]
                    if c == 'l':
                        a, b, c2 = tok[1:].split(':')
                        remaining = back - front
                        if not (a == b == c2 == str(remaining)):
                            bad.append('op#%d len/size_hint %s but %d items remain' % (i, tok, remaining))
                    elif c == 'f':
                        if front < back:
                            if tok != 'f=' + lines[front]:
                                bad.append('op#%d next() gave %s, expected line %d' % (i, tok, front))
                            front += 1
                        elif tok != 'f-':
                            bad.append('op#%d next() after the ends met returned an item' % i)
                    elif c == 'b':
                        if front < back:
                            back -= 1
                            if tok != 'b=' + lines[back]:
                                bad.append('op#%d next_back() gave %s, expected line %d' % (i, tok, back))
                        elif tok != 'b-':
                            bad.append('op#%d next_back() after the ends met returned an item' % i)
            elif pl['kind'] in ('own', 'rec'):
                if ended:
                    bad.append('op#%d iterator yields an item after it reported the end' % i)
                k += 1
            elif pl['kind'] == 'none':
                ended = True
        return bad

    def nontrivial(self, res):
        return 'steps' in ''.join(res['impl'])

    def rule(self, tier):
        return ('SeqLines: every sequence of front/back steps of length <= n+2 on records with n = 0..%d lines, len() and size_hint() '
                'queried before and after every step; random step strings on random files; owned-record iterator called 8 times '
                '(fused); non-trivial = at least one SeqLines iterator exercised' % (4 if tier == 'quick' else 5))

    def exhaustive_part(self, tier):
        return 'all front/back step sequences of length <= n+2 for n <= %d sequence lines' % (4 if tier == 'quick' else 5)



# ---------------------------------------------------------------------------
# writers (C10, C11)

def wr_fields(line):
    d = {}
    for tok in line.split(' ')[1:]:
        if '=' in tok:
            k, v = tok.split('=', 1)
            d[k] = bytes.fromhex(v) if v else b''
    return d


def rnd_seq(rng, n):
    return bytes(rng.choice(b'ACGTNacgt-*') for _ in range(n))


def rnd_whead(rng):
    h = gen.rnd_head(rng)
    h = h.replace(b'\n', b'').replace(b'\r', b'')
    if rng.chance(1, 6):
        h += b' '                       # trailing space: empty description
    if rng.chance(1, 10):
        h = b' ' + h
    return h


def chunk_lens(rng, n):
    k = rng.below(5)
    if k == 0:
        return []
    out = []
    left = n
    for _ in range(rng.range(1, 6)):
        c = rng.choice([0, 0, 1, 2, 3, left, rng.below(left + 1)])
        c = min(c, left)
        out.append(c)
        left -= c
    return out


class C10(Prop):
    id = 'C10'
    fmts = ('wr',)

    def accepts_case(self, line):
        return line.startswith('wr ')

    def cases(self, tier, rng):
        out = []
        n = 1500 if tier == 'quick' else 20000
        for _ in range(n):
            L = rng.choice([0, 1, 2, 3, 4, 5, 7, 8, 9, 12, 16, 17, 31, 32, 33])
            w = rng.choice([1, 2, 3, 4, 4, 5, 8, 16, 60])
            if rng.chance(1, 3):
                L = w * rng.range(0, 4)                 # exact multiples of the width
            seq = rnd_seq(rng, L)
            out.append('wr %s %s %s %d %s' % (gen.hx(rnd_whead(rng)), gen.hx(seq), gen.hx(rnd_seq(rng, L)), w,
                                              gen.lst([str(c) for c in chunk_lens(rng, L)])))
        # exhaustive: short sequences x widths x all splits into <= 3 chunks (incl. empty ones)
        maxl = 5 if tier == 'quick' else 7
        for L in range(0, maxl + 1):
            seq = bytes(b'ACGTACGT'[:L])
            for w in range(1, 5):
                for a in range(0, L + 1):
                    for b in range(0, L - a + 1):
                        out.append('wr 6964 %s %s %d %d,%d' % (gen.hx(seq), gen.hx(seq), w, a, b))
        return out

    def project(self, pl):
        return pl['op'] + ' ' + pl['out']

    def nontrivial(self, res):
        return bool(res['impl']) and res['impl'][0].startswith('wr to=')

    def oracle(self, res):
        bad = []
        if not res['impl'] or not res['impl'][0].startswith('wr to='):
            return ['writer case did not produce output: %s' % (res['impl'][:1],)]
        t = res['case'].split(' ')
        seq = bytes.fromhex(t[2]) if t[2] != '-' else b''
        w = int(t[4])
        f = wr_fields(res['impl'][0])
        # wrapped outputs: no sequence line longer than w, all but the last exactly w
        for k in ('wr', 'oww'):
            body = f[k].split(b'\n', 1)[1] if b'\n' in f[k] else b''
            self.check_wrap(bad, k, body, w)
        self.check_wrap(bad, 'ws', f['ws'], w)
        self.check_wrap(bad, 'wi', f['wi'], w)
        # chunking irrelevant for a non-empty sequence
        if seq and f['wi'] != f['ws']:
            bad.append('write_wrap_seq_iter over chunks differs from write_wrap_seq of the whole sequence')
        return bad

    @staticmethod
    def check_wrap(bad, k, body, w):
        lines = body.split(b'\n')
        if lines and lines[-1] == b'':
            lines = lines[:-1]
        for i, l in enumerate(lines):
            if len(l) > w:
                bad.append('%s: sequence line longer than the wrap width %d' % (k, w))
            elif i < len(lines) - 1 and len(l) != w:
                bad.append('%s: line %d has length %d, width is %d and it is not the last line' % (k, i, len(l), w))

    def cross(self, results):
        """round trip: every written text parses back (with the real reader) to the header and sequence"""
        reparse = []
        want = []
        for r in results:
            if not r['impl'] or not r['impl'][0].startswith('wr to='):
                continue
            t = r['case'].split(' ')
            head = bytes.fromhex(t[1]) if t[1] != '-' else b''
            seq = bytes.fromhex(t[2]) if t[2] != '-' else b''
            if head.endswith(b'\r') or b'>' in seq:
                continue
            f = wr_fields(r['impl'][0])
            for k in ('to', 'pa', 'wr', 'ow', 'oww', 'hs'):
                reparse.append(gen.mkcase('fa', 64, f[k], None, None, 'std', ['N', 'N']))
                want.append((r, k, head, seq))
            for k, body in (('si', f['si']), ('wi', f['wi']), ('ws', f['ws'])):
                reparse.append(gen.mkcase('fa', 64, b'>' + head + b'\n' + body, None, None, 'std', ['N', 'N']))
                want.append((r, k, head, seq))
        bad = []
        rs = vlib.run_cases(reparse, self.id + '_reparse', model=False)
        for rr, (r, k, head, seq) in zip(rs, want):
            ok = False
            if len(rr['impl']) >= 2:
                p0, p1 = parse_line(rr['impl'][0]), parse_line(rr['impl'][1])
                if p0['kind'] == 'rec' and p1['kind'] == 'none':
                    f = rec_fields(p0['out'])
                    lines = b''.join(bytes.fromhex(x) for x in f['l'].split('/')[1:])
                    ok = bytes.fromhex(f['h']) == head and lines == seq
            if not ok:
                bad.append(({'case': r['case'], 'impl': r['impl'], 'model': r['model'], 'spec': [], 'noshrink': True,
                             'reparse_case': rr['case'], 'reparse_trace': rr['impl']},
                            ['text written by entry point %s does not parse back to the header and sequence' % k]))
        self.n_reparsed = len(rs)
        return bad

    def rule(self, tier):
        return ('random headers (spaces, trailing space = empty description, non-UTF-8) x sequences of lengths around multiples of the '
                'wrap width x widths 1..60 x chunkings with empty chunks, plus all splits of sequences up to length %d into three chunks '
                'for widths 1..4; every writer entry point is run (write_to, write_parts, write_wrap, write_wrap_seq, write_seq_iter, '
                'write_wrap_seq_iter, write_head+write_seq, write_id_desc, OwnedRecord::write/write_wrap) and compared with the model; '
                'every output is parsed back with the real reader; non-trivial = the writers produced output' % (5 if tier == 'quick' else 7))

    def exhaustive_part(self, tier):
        return 'all splits into 3 chunks of sequences of length <= %d x widths 1..4' % (5 if tier == 'quick' else 7)


class C11(Prop):
    id = 'C11'

    def accepts_case(self, line):
        return line.split(' ')[0] in ('wr', 'fa', 'fq')

    def cases(self, tier, rng):
        out = []
        n = 1200 if tier == 'quick' else 15000
        for _ in range(n):
            L = rng.choice([0, 1, 2, 3, 5, 8, 13])
            out.append('wr %s %s %s 4 -' % (gen.hx(rnd_whead(rng)), gen.hx(rnd_seq(rng, L)), gen.hx(rnd_seq(rng, L))))
        self.wellformed = {}
        for _ in range(n):
            f = rng.choice(['fq', 'fq', 'fa'])
            cap = rng.choice([3, 5, 8, 13, 32, 64])
            nrec = rng.range(1, 5)
            crlf = rng.chance(1, 2)
            t = b'\r\n' if crlf else b'\n'
            text = b''
            for _ in range(nrec):
                h = rnd_whead(rng)
                if h.endswith(b'\r'):
                    h += b'x'
                if f == 'fq':
                    k = rng.choice([0, 1, 2, 4, 7])
                    text += b'@' + h + t + rnd_seq(rng, k) + t + b'+' + t + rnd_seq(rng, k).replace(b'-', b'I') + t
                else:
                    text += b'>' + h + t
                    for _ in range(rng.choice([0, 1, 1, 2, 3])):
                        text += rnd_seq(rng, rng.choice([0, 1, 3, 6])).replace(b'*', b'A') + t
                        if rng.chance(1, 8):
                            text += t
            final = rng.chance(2, 3)
            if not final:
                text = text[:-len(t)]
            tail = b''
            if f == 'fq' and final and rng.chance(1, 4):
                tail = t * rng.range(1, 2)
            c = gen.mkcase(f, cap, text + tail, gen.rnd_chunking(rng, len(text)), None, 'std', ['N'] * (nrec + 2))
            self.wellformed[c] = (f, text, crlf, final)
            out.append(c)
        return out

    def project(self, pl):
        if pl['op'] == 'wr':
            return 'wr ' + pl['out']
        f = rec_fields(pl['out']) if pl['kind'] == 'rec' else {}
        return '%s %s wu=%s w=%s' % (pl['op'], pl['kind'], f.get('wu'), f.get('w'))

    def nontrivial(self, res):
        return any((' rec ' in l) or l.startswith('wr to=') for l in res['impl'])

    def oracle(self, res):
        bad = abnormal(res)
        info = getattr(self, 'wellformed', {}).get(res['case'])
        if info:
            f, text, crlf, final = info
            recs = [rec_fields(parse_line(l)['out']) for l in res['impl'] if parse_line(l)['kind'] == 'rec']
            wu = b''.join(bytes.fromhex(r['wu']) for r in recs)
            t = b'\r\n' if crlf else b'\n'
            if f == 'fq':
                # FASTQ: unchanged writing reproduces the input (final terminator added, blank tail dropped)
                want = text if final else text + b'\n'
                if wu != want:
                    bad.append('concatenated write_unchanged output differs from the input bytes')
            else:
                # FASTA: identical up to blank lines / final terminator
                def norm(b):
                    ls = [l for l in b.replace(b'\r\n', b'\n').split(b'\n') if l != b'']
                    return ls
                if norm(wu) != norm(text):
                    bad.append('FASTA write_unchanged output differs from the input by more than blank lines / terminators')
                if wu and not wu.endswith(b'\n'):
                    bad.append('FASTA write_unchanged output lacks the final terminator')
        return bad

    def cross(self, results):
        reparse, want = [], []
        for r in results:
            if r['case'].startswith('wr ') and r['impl'] and r['impl'][0].startswith('wr to='):
                t = r['case'].split(' ')
                head = bytes.fromhex(t[1]) if t[1] != '-' else b''
                seq = bytes.fromhex(t[2]) if t[2] != '-' else b''
                qual = bytes.fromhex(t[3]) if t[3] != '-' else b''
                if head.endswith(b'\r'):
                    continue
                f = wr_fields(r['impl'][0])
                for k in ('qto', 'qpa', 'qow'):
                    reparse.append(gen.mkcase('fq', 64, f[k] + f[k], None, None, 'std', ['N', 'N', 'N']))
                    want.append((r, k, (head, seq, qual), 'fq'))
            elif r['case'].split(' ')[0] in ('fa', 'fq') and r['case'] in getattr(self, 'wellformed', {}):
                fmt = r['case'].split(' ')[0]
                recs = [rec_fields(parse_line(l)['out']) for l in r['impl'] if parse_line(l)['kind'] == 'rec']
                if recs:
                    wu = b''.join(bytes.fromhex(x['wu']) for x in recs)
                    reparse.append(gen.mkcase(fmt, 64, wu, None, None, 'std', ['N'] * (len(recs) + 1)))
                    want.append((r, 'write_unchanged', recs, 're'))
        bad = []
        rs = vlib.run_cases(reparse, self.id + '_reparse', model=False)
        for rr, (r, k, exp, kind) in zip(rs, want):
            got = [rec_fields(parse_line(l)['out']) for l in rr['impl'] if parse_line(l)['kind'] == 'rec']
            ok = True
            if kind == 'fq':
                ok = len(got) == 2 and all((bytes.fromhex(g['h']), bytes.fromhex(g['s']), bytes.fromhex(g['q'])) == exp for g in got) \
                    and parse_line(rr['impl'][-1])['kind'] == 'none'
            else:
                if rr['case'].startswith('fa'):
                    # identical record = same header, same non-blank sequence lines (blank lines before the
                    # next header are dropped by write_unchanged by design, DESIGN.md section 7)
                    def key(g):
                        return (g['h'], [x for x in g['l'].split('/')[1:] if x != ''])
                else:
                    def key(g):
                        return (g['h'], g['s'], g['q'])
                ok = [key(g) for g in got] == [key(g) for g in exp]
            if not ok:
                bad.append(({'case': r['case'], 'impl': r['impl'], 'model': r['model'], 'spec': r.get('spec', []), 'noshrink': True,
                             'reparse_case': rr['case'], 'reparse_trace': rr['impl']},
                            ['output of %s does not parse back to the same record(s)' % k]))
        return bad

    def rule(self, tier):
        return ('(a) random header/sequence/quality triples written with write_to, write_parts and OwnedRecord::write, written twice '
                'back to back and parsed back with the real reader; (b) well-formed FASTQ and FASTA files (LF or CRLF, with/without final '
                'terminator, FASTQ blank tails, FASTA blank lines) read at capacities 3..64 with random chunking: the write_unchanged '
                'outputs are concatenated and compared with the input bytes (FASTQ: equal up to the final terminator / blank tail; '
                'FASTA: equal up to blank lines and final terminator) and parsed back; the written bytes are also compared with the model; '
                'non-trivial = at least one record or writer output')


class C12(Prop):
    id = 'C12'

    def cases(self, tier, rng):
        out = []
        self.group = {}
        n = 700 if tier == 'quick' else 10000
        gid = 0
        for _ in range(n):
            f = rng.choice(['fa', 'fq'])
            gid += 1
            nrec = rng.range(1, 4)
            recs = []
            lead = rng.below(3) if (f == 'fa' and rng.chance(1, 3)) else 0
            lines = [b''] * lead
            for _ in range(nrec):
                h = rnd_whead(rng).replace(b'\r', b'')
                if f == 'fq':
                    k = rng.choice([0, 0, 1, 2, 4])
                    lines += [b'@' + h, rnd_seq(rng, k), b'+', rnd_seq(rng, k).replace(b'-', b'I')]
                else:
                    lines.append(b'>' + h)
                    for _ in range(rng.choice([0, 1, 2, 3])):
                        lines.append(rnd_seq(rng, rng.choice([0, 1, 3, 5])).replace(b'*', b'A'))
            variants = [('lf', [b'\n'] * len(lines)), ('crlf', [b'\r\n'] * len(lines))]
            if f == 'fa':
                variants.append(('mix', [rng.choice([b'\n', b'\r\n']) for _ in lines]))
            for final in (True, False):
                if not final and lines[-1] == b'':
                    continue          # an empty last line without terminator does not exist in the text
                for name, terms in variants:
                    text = b''.join(l + t for l, t in zip(lines, terms))
                    if not final:
                        text = text[:-len(terms[-1])]
                    for cap in (rng.choice([3, 4, 5, 7]), 64):
                        c = gen.mkcase(f, cap, text, gen.rnd_chunking(rng, len(text)), None, 'std', ['N'] * (nrec + 2))
                        self.group[c] = (gid, final, name)
                        out.append(c)
        return out

    def project(self, pl):
        return full_proj(pl)

    def oracle(self, res):
        bad = abnormal(res)
        if res['case'] in getattr(self, 'group', {}):
            for i, l in enumerate(res['impl']):
                pl = parse_line(l)
                if pl['kind'] == 'err':
                    bad.append('op#%d error on a well-formed file: %s' % (i, pl['out'][:60]))
                if pl['kind'] == 'rec':
                    f = rec_fields(pl['out'])
                    for k in ('h', 'l', 's', 'q'):
                        if k in f and '0d' in [f[k].replace('/', '')[j:j + 2] for j in range(0, len(f[k].replace('/', '')), 2)]:
                            bad.append('op#%d carriage return in returned field %s' % (i, k))
        return bad

    def cross(self, results):
        groups = {}
        for r in results:
            g = getattr(self, 'group', {}).get(r['case'])
            if g:
                groups.setdefault(g[0], []).append(r)
        bad = []
        keys = ('h', 'l', 's', 'q')

        def obs(r):
            o = []
            for l in r['impl']:
                pl = parse_line(l)
                if pl['kind'] == 'rec':
                    f = rec_fields(pl['out'])
                    o.append(('rec',) + tuple(f.get(k) for k in keys) + (pl['pos'].split(':')[0],))
                else:
                    o.append((pl['kind'],))
            return o
        for g, rs in groups.items():
            ref = obs(rs[0])
            for r in rs[1:]:
                if obs(r) != ref:
                    bad.append(({'case': r['case'], 'impl': r['impl'], 'spec': r['spec'], 'model': r['model'], 'noshrink': True,
                                 'other_case': rs[0]['case'], 'other_impl': rs[0]['impl']},
                                ['LF/CRLF/final-terminator renderings of the same file parse differently (records, fields or line numbers)']))
                    break
        return bad

    def rule(self, tier):
        return ('well-formed files are generated as line lists and rendered with LF, CRLF, (FASTA) a random per-line mixture, each with and '
                'without a terminator after the last line, at a small and a large capacity with random chunking; all renderings of one file '
                'must give the same records (header, sequence lines / sequence, quality), the same line numbers, no error, and no CR in any '
                'field; model/implementation traces are compared as well; non-trivial = at least one spec item')


class C19(Prop):
    id = 'C19'

    def hist(self, rng, text, f):
        ops = []
        for _ in range(rng.range(2, 6)):
            k = rng.below(6)
            if k == 0:
                ops += ['Q']
            elif k == 1:
                ops += ['S%d' % rng.below(2)]
            elif k == 2:
                ops += ['E%d.%d' % (rng.below(2), rng.range(1, 4))]
            elif k == 3:
                ops += ['N']
            else:
                s = rng.below(2)
                ops += [rng.choice(['S%d' % s, 'E%d.%d' % (s, rng.range(1, 3))]), 'Z%d' % s]
        ops += ['Z0', 'Z1', 'Q']
        return ops

    def cases(self, tier, rng):
        out = []
        n = 2000 if tier == 'quick' else 30000
        for f in self.fmts:
            out += gen.structured(f, rng, n, malformed_share=8, ops_fn=lambda r, t: self.hist(r, t, f))
            L = 4 if tier == 'quick' else 6
            out += gen.exhaustive(f, L, ops_fn=lambda s: ['E0.2', 'Z0', 'E0.1', 'Z0', 'Q', 'S1', 'Z1'], chunks=[[]])
        return out

    def project(self, pl):
        return full_proj(pl)

    def oracle(self, res):
        bad = abnormal(res)
        slots = {}
        for i, l in enumerate(res['impl']):
            pl = parse_line(l)
            c = pl['op'][0]
            if c in 'SE' and pl['kind'] == 'set':
                slots[pl['op'][1]] = pl['out']
            elif c in 'SE' and pl['kind'] in ('err', 'none'):
                slots.pop(pl['op'][1], None)
            elif c == 'Z':
                s = pl['op'][1]
                if s in slots and pl['out'] != slots[s]:
                    bad.append('op#%d deserialised record set iterates differently from the set that was serialised' % i)
            if 'ser-owned-differs' in l:
                bad.append('op#%d deserialised owned record differs' % i)
        return bad + oracles.cursor_check(fmt_of(res['case']), self.strip_z(res), level='kind', check_pos=False)

    @staticmethod
    def strip_z(res):
        r = dict(res)
        r['impl'] = [l.replace('Q ', 'O ', 1) if l.startswith('Q ') else l for l in res['impl'] if not l.startswith('Z')]
        return r

    def nontrivial(self, res):
        return any(l.startswith('Z') and ' set ' in l and not ' set 0 ' in l for l in res['impl']) or any(l.startswith('Q own') for l in res['impl'])

    def rule(self, tier):
        return ('random files x histories of next / record-set / exact-count reads in which sets are refilled (so they carry stale offsets) '
                'and then serialised with serde_json, deserialised and iterated (op Z), owned records are serialised and deserialised (op Q); '
                'the deserialised value must iterate over / equal the original; fixed history over all strings up to length %d; '
                'non-trivial = a non-empty set or an owned record went through a round trip' % (4 if tier == 'quick' else 6))

    def exhaustive_part(self, tier):
        return 'one fixed history x all strings of length <= %d x capacities' % (4 if tier == 'quick' else 6)


REG = {}
for cls in (C01, C02, C03, C04, C05, C10, C11, C12, C13, C17, C19, C20):
    REG[cls.id] = cls


def get(pid):
    if pid not in REG:
        raise SystemExit('unknown or unclaimed property ' + pid)
    return REG[pid]()


def in_known_class(cls, res, fails):
    return False


def replay_other(prop, obj):
    return 0


def incoq_crosscheck(prop, results, rng):
    """evaluate a sample of the cases inside Coq (vm_compute) and compare with the
    extracted program's output; returns an error string or None"""
    if not results or not prop.uses_model:
        return None
    sample = [results[rng.below(len(results))] for _ in range(6)]
    sample = [r for r in sample if len(r['case']) < 400][:6]
    if not sample:
        return None
    d = os.path.join(WORK, prop.id)
    os.makedirs(d, exist_ok=True)
    vf = os.path.join(d, 'cases_%s.v' % prop.id)
    with open(vf, 'w') as f:
        f.write('From SeqIO Require Import Model.Base Model.Run.\n')
        for r in sample:
            f.write('Eval vm_compute in (run_line [%s]).\n' % ';'.join(str(b) for b in r['case'].encode()))
    rc, out = vlib.run(['coqc', '-Q', os.path.join(vlib.COQ, 'theories'), 'SeqIO', vf], cwd=d, timeout=600)
    if rc != 0:
        return 'in-Coq evaluation of sample cases failed: ' + out[-300:]
    blocks = re.findall(r'=\s*\[([^\]]*)\]\s*:\s*list', out, re.S)
    if len(blocks) != len(sample):
        return 'in-Coq evaluation: %d results for %d cases' % (len(blocks), len(sample))
    for r, b in zip(sample, blocks):
        nums = [int(x) for x in re.findall(r'\d+', b)]
        text = bytes(nums).decode('latin-1')
        want = '\n'.join(['spec ' + s for s in r['spec']] + r['model']) + '\n'
        if text != want:
            return 'extracted model and vm_compute disagree on case: ' + r['case']
    return None
