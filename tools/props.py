"""Per-property definitions: case families, projections, oracles (DESIGN.md section 5)."""
import os
import re
import subprocess

import gen
import oracles
import vlib
from vlib import parse_line, rec_fields, set_records, ROOT, WORK

ALL_CRATES = ['harness']
CRATE_EXTRA = {}

ASSUME_COMMON = [
    'the hand-written Coq model corresponds to the code only as far as the differential run explored (cases listed in coverage)',
    'buffer_redux / memchr / std iterator adaptors behave as modelled (DESIGN.md section 8)',
    'sizes and offsets stay below 2^63 (no machine-integer overflow modelled)',
]


def fmt_of(case):
    return case.split(' ')[0]


def content_proj(pl):
    """operation + what was delivered (record contents, error variant, end)"""
    k = pl['kind']
    fmt_keys = ('h', 'l', 's', 'q')
    if k == 'rec':
        f = rec_fields(pl['out'])
        return '%s rec %s' % (pl['op'], ' '.join('%s=%s' % (x, f[x]) for x in fmt_keys if x in f))
    if k == 'set':
        recs = set_records(pl['out']) or []
        return '%s set %d %s' % (pl['op'], len(recs), '|'.join(
            ' '.join('%s=%s' % (x, rec_fields(r)[x]) for x in fmt_keys if x in rec_fields(r)) for r in recs))
    if k == 'err':
        return '%s %s' % (pl['op'], ' '.join(pl['out'].split(' ')[:2]))
    if k == 'own':
        return '%s %s' % (pl['op'], pl['out'])
    return '%s %s' % (pl['op'], k)


def full_proj(pl):
    """everything but the environment events"""
    return '%s %s @%s' % (pl['op'], norm_lossy(pl['out']), pl['pos'])


def ev_proj(pl):
    return '%s %s @%s ev=%s' % (pl['op'], norm_lossy(pl['out']), pl['pos'], ','.join(pl['ev']))


def norm_lossy(out):
    """ids that are not valid UTF-8: the model prints '!' (lossy conversion not modelled)"""
    if out.startswith('err fq_') and ('efbfbd' in out):
        toks = out.split(' ')
        toks = [('!' if (t.startswith('=') and 'efbfbd' in t) else t) for t in toks]
        toks = [('m=!' if t.startswith('m=') else t) for t in toks]
        return ' '.join(toks)
    return out


class Prop:
    id = ''
    level = 'proof'
    uses_model = True
    reader_cases = True
    crates = ['harness']
    cargo_extra = {}
    fmts = ('fa', 'fq')
    assumptions = ASSUME_COMMON

    def accepts_case(self, line):
        return fmt_of(line) in self.fmts

    def cases(self, tier, rng):
        return []

    def widen(self, rng, seeds, rnd):
        out = []
        for c in seeds:
            t = c.split(' ')
            if t[0] not in ('fa', 'fq'):
                continue
            n = 0 if t[2] == '-' else len(t[2]) // 2
            for cap in range(3, n + 4):
                for rs in gen.chunkings(n):
                    out.append(' '.join([t[0], str(cap), t[2], gen.lst(rs)] + t[4:]))
        for f in self.fmts:
            out += gen.structured(f, rng, 3000)
        if rnd == 1:
            for f in self.fmts:
                out += gen.exhaustive(f, 6, chunks=[[], ['D0'] * 8])
        return out

    def project(self, pl):
        return content_proj(pl)

    def oracle(self, res):
        return []

    def cross(self, results):
        return []

    def extra(self, tier, rng, stats):
        return [], {}

    def nontrivial(self, res):
        return len(res['spec']) > 0

    def rule(self, tier):
        return ''

    def exhaustive_part(self, tier):
        return None


def abnormal(res):
    bad = []
    for i, l in enumerate(res['impl']):
        pl = parse_line(l)
        if pl['kind'] in ('panic', 'hang') or pl['op'] == '?':
            bad.append('op#%d %s' % (i, l[:60]))
    return bad


def mix_owned(rng, ops):
    return [('O' if (o == 'N' and rng.chance(1, 5)) else o) for o in ops]


# ---------------------------------------------------------------------------

class C01(Prop):
    id = 'C01'
    fmts = ('fa',)
    L = {'quick': 5, 'thorough': 7}
    N = {'quick': 3000, 'thorough': 60000}

    def cases(self, tier, rng):
        f = self.fmts[0]
        out = gen.exhaustive(f, self.L[tier])
        out += gen.structured(f, rng, self.N[tier],
                              ops_fn=lambda r, t: mix_owned(r, ['N'] * gen.n_items_bound(f, t)))
        return out

    def oracle(self, res):
        return abnormal(res) + oracles.cursor_check(self.fmts[0], res, level='kind', check_pos=False)

    def rule(self, tier):
        return ('all byte strings up to length %d over the 5-letter format alphabet x capacities 3..len+2 x chunkings '
                '{whole, 1 byte, 2 bytes}, then %d structured random files (1/4 malformed) with random capacity, chunking '
                '(incl. interrupted reads) and policy; read with next()/records() until end is reported twice; '
                'non-trivial = the Spec stream has at least one item; distinct = distinct case line' % (self.L[tier], self.N[tier]))

    def exhaustive_part(self, tier):
        return 'strings of length <= %d over {>,LF,CR,A,SP} (FASTA) / {@,+,LF,CR,A} (FASTQ) x capacities 3..len+2 x 3 chunkings' % self.L[tier]


class C02(C01):
    id = 'C02'
    fmts = ('fq',)


class C03(Prop):
    id = 'C03'

    def configs(self, n):
        caps = sorted(set([3, 4, 5, 7, max(3, n), n + 2, 64]))
        out = []
        for i, cap in enumerate(caps):
            rs = [[], ['D0'] * (n + 2), ['I', 'D1', 'I', 'I', 'D0'] * (n // 2 + 2)][i % 3]
            pol = ['std', 'plus.1.100000', 'du.5'][(i // 2) % 3]
            out.append((cap, rs, pol))
        return out

    def cases(self, tier, rng):
        out = []
        L = 4 if tier == 'quick' else 6
        import itertools
        inputs = []
        for f in self.fmts:
            alpha = gen.FA_ALPHA if f == 'fa' else gen.FQ_ALPHA
            for n in range(0, L + 1):
                for s in itertools.product(alpha, repeat=n):
                    inputs.append((f, bytes(s)))
            for _ in range(400 if tier == 'quick' else 6000):
                cap = rng.choice([3, 5, 8, 13])
                t = gen.fasta_file(rng, cap) if f == 'fa' else gen.fastq_file(rng, cap)
                if rng.chance(1, 4):
                    t = gen.malform(rng, f, t)
                inputs.append((f, t))
        for f, t in inputs:
            k = gen.n_items_bound(f, t)
            for which, ops in (('n', ['N'] * k), ('s', ['S0'] * k)):
                if which == 's' and len(t) <= 4:
                    continue
                for cap, rs, pol in self.configs(len(t)):
                    out.append(gen.mkcase(f, cap, t, rs, None, pol, ops))
        return out

    def project(self, pl):
        return ev_proj(pl)

    def oracle(self, res):
        return abnormal(res)

    def cross(self, results):
        """pairwise: same input and operations => same observable outcome, whatever the configuration"""
        groups = {}
        for r in results:
            t = r['case'].split(' ')
            groups.setdefault((t[0], t[2], t[6]), []).append(r)
        bad = []
        for key, rs in groups.items():
            if len(rs) < 2:
                continue
            sets = key[2].startswith('S')

            def obs(r):
                if not sets:
                    return [full_proj(parse_line(l)) for l in r['impl']]
                # set reads: batch boundaries depend on the configuration by design; the
                # concatenated records, the error and the end signal must agree
                recs, tail = [], []
                for l in r['impl']:
                    pl = parse_line(l)
                    if pl['kind'] == 'set':
                        recs.extend(' '.join(x.split(' ')[:3]) for x in set_records(pl['out']))
                    elif pl['kind'] == 'none':
                        if not tail or tail[-1] != 'none':
                            tail.append('none')
                    else:
                        tail.append(norm_lossy(pl['out']))
                return recs + tail
            ref = obs(rs[0])
            for r in rs[1:]:
                o = obs(r)
                if o != ref:
                    k = next((i for i, (a, b) in enumerate(zip(ref, o)) if a != b), min(len(ref), len(o)))
                    bad.append(({'case': r['case'], 'impl': r['impl'], 'spec': r['spec'], 'model': r['model'],
                                 'other_case': rs[0]['case'], 'other_impl': rs[0]['impl'], 'noshrink': True},
                                ['outcome differs between two configurations of the same input at item %d: %s  vs  %s'
                                 % (k, (o[k] if k < len(o) else '<nothing>')[:100], (ref[k] if k < len(ref) else '<nothing>')[:100])]))
                    break
        return bad

    def rule(self, tier):
        return ('every input (all strings up to length %d over both alphabets + structured random files) is read under 5-7 '
                'configurations (capacity x chunking incl. interrupted reads x policy); implementation traces of the same input '
                'are compared pairwise on the full outcome (contents, error fields, positions, end), set reads on the '
                'concatenation; additionally model/implementation are compared including the read-call and grow_to logs; '
                'non-trivial = at least one spec item' % (4 if tier == 'quick' else 6))

    def exhaustive_part(self, tier):
        return 'strings of length <= %d over both alphabets x the configuration family' % (4 if tier == 'quick' else 6)


def set_discipline(res):
    """a refilled set contains only the new batch; the other set stays unchanged; re-iteration is stable"""
    slots = {}
    bad = []
    for i, l in enumerate(res['impl']):
        pl = parse_line(l)
        c = pl['op'][0]
        if c in 'SE' and pl['kind'] == 'set':
            slots[pl['op'][1]] = pl['out']
        elif c == 'I':
            s = pl['op'][1]
            if s in slots:
                if pl['out'] != slots[s]:
                    bad.append('op#%d iterating set %s again gives different records than when it was filled' % (i, s))
    return bad


class C04(Prop):
    id = 'C04'

    def cases(self, tier, rng):
        out = []
        n = 2500 if tier == 'quick' else 40000
        for f in self.fmts:
            out += gen.structured(f, rng, n, malformed_share=6,
                                  ops_fn=lambda r, t: gen.rnd_history(r, t, f))
            # fixed switch patterns on the exhaustive small scope
            pats = [['S0', 'N', 'S0', 'N', 'N'], ['N', 'S0', 'S1', 'I0', 'N'], ['E0.1', 'N', 'E0.2', 'I0', 'E1.3', 'N'],
                    ['E0.2', 'E0.2', 'E0.2', 'N'], ['O', 'E0.3', 'O', 'S0', 'N']]
            L = 5 if tier == 'quick' else 7
            for p in pats:
                out += gen.exhaustive(f, L, ops_fn=lambda s, p=p: p, chunks=[[]])
        return out

    def oracle(self, res):
        f = fmt_of(res['case'])
        return abnormal(res) + oracles.cursor_check(f, res, level='kind', check_pos=False) + set_discipline(res)

    def rule(self, tier):
        return ('structured random files x random histories (<= 12 ops over next, records(), read_record_set, '
                'read_record_set_exact n=1..3, re-iteration of a kept set, position, seek to a saved position) and five fixed '
                'switch patterns over all strings up to length %d; the Spec cursor machine decides every outcome; '
                'non-trivial = at least one spec item' % (5 if tier == 'quick' else 7))

    def exhaustive_part(self, tier):
        return 'five fixed histories x all strings of length <= %d x capacities 3..len+2' % (5 if tier == 'quick' else 7)


class C05(Prop):
    id = 'C05'

    def hist(self, rng, text, f):
        k = gen.n_items_bound(f, text)
        ops = []
        for i in range(k):
            ops.append(rng.choice(['N', 'N', 'N', 'S0', 'E0.2']))
            ops.append('P')
        for _ in range(rng.range(1, 4)):
            ops.append('J%d' % rng.below(16))
            ops += [rng.choice(['N', 'N', 'S0', 'O'])] * rng.range(1, 3)
            if rng.chance(1, 2):
                ops.append('P')
        return ops + ['N']

    def cases(self, tier, rng):
        out = []
        n = 2500 if tier == 'quick' else 40000
        for f in self.fmts:
            out += gen.structured(f, rng, n, malformed_share=5, ops_fn=lambda r, t: self.hist(r, t, f))
            L = 5 if tier == 'quick' else 7
            out += gen.exhaustive(f, L, ops_fn=lambda s: ['N', 'P', 'N', 'P', 'N', 'J0', 'N', 'J1', 'N', 'N'], chunks=[[]])
        return out

    def project(self, pl):
        return full_proj(pl)

    def oracle(self, res):
        f = fmt_of(res['case'])
        return abnormal(res) + oracles.cursor_check(f, res, level='kind', check_pos=True)

    def rule(self, tier):
        return ('structured random files: read with next / set / exact-set, position saved after every call, then 1-3 seeks '
                'to saved positions (inside / outside the buffer depending on the capacity) each followed by reads; '
                'plus a fixed read-seek pattern over all strings up to length %d; positions after every call and everything '
                'read after a seek are decided by the Spec coordinates; non-trivial = at least one spec item'
                % (5 if tier == 'quick' else 7))

    def exhaustive_part(self, tier):
        return 'one read/seek pattern x all strings of length <= %d x capacities 3..len+2' % (5 if tier == 'quick' else 7)


class C13(Prop):
    id = 'C13'

    def cases(self, tier, rng):
        out = []
        n = 2500 if tier == 'quick' else 40000
        for f in self.fmts:
            out += gen.structured(f, rng, n, malformed_share=8,
                                  ops_fn=lambda r, t: r.choice([['N'] * gen.n_items_bound(f, t),
                                                                ['S0', 'N', 'O', 'S0', 'I0', 'N', 'N']]))
            out += gen.exhaustive(f, 5 if tier == 'quick' else 6, chunks=[[]])
        return out

    def project(self, pl):
        return full_proj(pl)

    def oracle(self, res):
        f = fmt_of(res['case'])
        bad = abnormal(res)
        for i, l in enumerate(res['impl']):
            pl = parse_line(l)
            dumps = [pl['out']] if pl['kind'] == 'rec' else (set_records(pl['out']) or []) if pl['kind'] == 'set' else []
            for d in dumps:
                for b in oracles.views_check(f, d):
                    bad.append('op#%d %s' % (i, b))
        return bad

    def nontrivial(self, res):
        return any(l.split(' ')[1] in ('rec', 'set') for l in res['impl'] if ' ' in l)

    def rule(self, tier):
        return ('every record returned by next(), by record sets and by owned conversion is dumped through all accessors '
                '(head, seq, seq_lines forwards/backwards, num_seq_lines, full_seq with its Cow tag, owned_seq, to_owned_record, '
                'id/desc in all variants incl. UTF-8 verdicts, the three writers) and the dump is checked for internal agreement; '
                'inputs: structured random (non-UTF-8 bytes, empty headers, leading/multiple spaces, empty lines) + all strings '
                'up to length %d; non-trivial = at least one record dumped' % (5 if tier == 'quick' else 6))

    def exhaustive_part(self, tier):
        return 'all strings of length <= %d over both alphabets x capacities' % (5 if tier == 'quick' else 6)


class C17(Prop):
    id = 'C17'

    def cases(self, tier, rng):
        out = []
        n = 3000 if tier == 'quick' else 50000
        for f in self.fmts:
            out += gen.structured(f, rng, n, malformed_share=1)
            out += gen.exhaustive(f, 5 if tier == 'quick' else 7)
        return out

    def project(self, pl):
        if pl['kind'] == 'err':
            return '%s %s' % (pl['op'], norm_lossy(pl['out']))
        return '%s %s' % (pl['op'], pl['kind'])

    def oracle(self, res):
        f = fmt_of(res['case'])
        bad = abnormal(res) + oracles.cursor_check(f, res, level='full', check_pos=False)
        # the message contains the values
        for i, l in enumerate(res['impl']):
            pl = parse_line(l)
            if pl['kind'] == 'err' and ' m=' in pl['out']:
                toks, msg = oracles.split_err(pl['out'])
                text = bytes.fromhex(msg)
                kind = toks[1]
                nums = {'fa_is': [toks[2]], 'fq_is': [toks[3]], 'fq_sep': [toks[3]], 'fq_len': toks[2:5],
                        'fq_end': [toks[2]]}.get(kind, [])
                for x in nums:
                    if x.encode() not in text:
                        bad.append('op#%d message does not contain the value %s' % (i, x))
        return bad

    def nontrivial(self, res):
        return any(' err ' in l for l in res['impl'])

    def rule(self, tier):
        return ('malformed inputs (one rule broken at a random record / random bytes / truncation) and all strings up to length %d, '
                'all capacities 3..len+2 and three chunkings: every error field (line, found byte, lengths, id) and the message text '
                'are compared with the Spec error item; non-trivial = the run produced an error'
                % (5 if tier == 'quick' else 7))

    def exhaustive_part(self, tier):
        return 'all strings of length <= %d over both alphabets x capacities x 3 chunkings' % (5 if tier == 'quick' else 7)


class C20(Prop):
    id = 'C20'
    fmts = ('fa',)

    def cases(self, tier, rng):
        import itertools
        out = []
        maxn = 4 if tier == 'quick' else 5
        for n in range(0, maxn + 1):
            lines = [b'A' * (i + 1) for i in range(n)]
            text = b'>h\n' + b''.join(l + b'\n' for l in lines)
            for k in range(0, n + 3):
                for steps in itertools.product('fb', repeat=k):
                    s = 'l' + ''.join(c + 'l' for c in steps)
                    out.append(gen.mkcase('fa', 64, text, None, None, 'std', ['M' + s]))
        # record sets and owned iterators after the end
        for _ in range(300 if tier == 'quick' else 3000):
            cap = rng.choice([3, 5, 8, 16, 64])
            t = gen.fasta_file(rng, cap)
            steps = ''.join(rng.choice('fbl') for _ in range(rng.range(1, 9)))
            out.append(gen.mkcase('fa', cap, t, None, None, 'std', ['M' + steps] * rng.range(1, 3) + ['O', 'O', 'O', 'O', 'O', 'O', 'O', 'O']))
        return out

    def project(self, pl):
        return full_proj(pl)

    def oracle(self, res):
        bad = abnormal(res)
        items = oracles.parse_spec('fa', res['spec'])
        k = 0
        ended = False
        for i, l in enumerate(res['impl']):
            pl = parse_line(l)
            if pl['kind'] == 'steps' and k < len(items):
                lines = items[k]['f']['l'].split('/')[1:]
                k += 1
                front, back = 0, len(lines)
                for tok in pl['out'].split(' ')[1:]:
                    c = tok[0]
                    if c == 'l':
                        a, b, c2 = tok[1:].split(':')
                        remaining = back - front
                        if not (a == b == c2 == str(remaining)):
                            bad.append('op#%d len/size_hint %s but %d items remain' % (i, tok, remaining))
                    elif c == 'f':
                        if front < back:
                            if tok != 'f=' + lines[front]:
                                bad.append('op#%d next() gave %s, expected line %d' % (i, tok, front))
                            front += 1
                        elif tok != 'f-':
                            bad.append('op#%d next() after the ends met returned an item' % i)
                    elif c == 'b':
                        if front < back:
                            back -= 1
                            if tok != 'b=' + lines[back]:
                                bad.append('op#%d next_back() gave %s, expected line %d' % (i, tok, back))
                        elif tok != 'b-':
                            bad.append('op#%d next_back() after the ends met returned an item' % i)
            elif pl['kind'] in ('own', 'rec'):
                if ended:
                    bad.append('op#%d iterator yields an item after it reported the end' % i)
                k += 1
            elif pl['kind'] == 'none':
                ended = True
        return bad

    def nontrivial(self, res):
        return 'steps' in ''.join(res['impl'])

    def rule(self, tier):
        return ('SeqLines: every sequence of front/back steps of length <= n+2 on records with n = 0..%d lines, len() and size_hint() '
                'queried before and after every step; random step strings on random files; owned-record iterator called 8 times '
                '(fused); non-trivial = at least one SeqLines iterator exercised' % (4 if tier == 'quick' else 5))

    def exhaustive_part(self, tier):
        return 'all front/back step sequences of length <= n+2 for n <= %d sequence lines' % (4 if tier == 'quick' else 5)


REG = {}
for cls in (C01, C02, C03, C04, C05, C13, C17, C20):
    REG[cls.id] = cls


def get(pid):
    if pid not in REG:
        raise SystemExit('unknown or unclaimed property ' + pid)
    return REG[pid]()


def in_known_class(cls, res, fails):
    return False


def replay_other(prop, obj):
    return 0


def incoq_crosscheck(prop, results, rng):
    """evaluate a sample of the cases inside Coq (vm_compute) and compare with the
    extracted program's output; returns an error string or None"""
    if not results or not prop.uses_model:
        return None
    sample = [results[rng.below(len(results))] for _ in range(6)]
    sample = [r for r in sample if len(r['case']) < 400][:6]
    if not sample:
        return None
    d = os.path.join(WORK, prop.id)
    os.makedirs(d, exist_ok=True)
    vf = os.path.join(d, 'cases_%s.v' % prop.id)
    with open(vf, 'w') as f:
        f.write('From SeqIO Require Import Model.Base Model.Run.\n')
        for r in sample:
            f.write('Eval vm_compute in (run_line [%s]).\n' % ';'.join(str(b) for b in r['case'].encode()))
    rc, out = vlib.run(['coqc', '-Q', os.path.join(vlib.COQ, 'theories'), 'SeqIO', vf], cwd=d, timeout=600)
    if rc != 0:
        return 'in-Coq evaluation of sample cases failed: ' + out[-300:]
    blocks = re.findall(r'=\s*\[([^\]]*)\]\s*:\s*list', out, re.S)
    if len(blocks) != len(sample):
        return 'in-Coq evaluation: %d results for %d cases' % (len(blocks), len(sample))
    for r, b in zip(sample, blocks):
        nums = [int(x) for x in re.findall(r'\d+', b)]
        text = bytes(nums).decode('latin-1')
        want = '\n'.join(['spec ' + s for s in r['spec']] + r['model']) + '\n'
        if text != want:
            return 'extracted model and vm_compute disagree on case: ' + r['case']
    return None
