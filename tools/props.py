"""Per-property definitions: case families, projections, oracles (DESIGN.md section 5)."""
import os
import re
import subprocess

import gen
import oracles
import vlib
from vlib import parse_line, rec_fields, set_records, ROOT, WORK

ALL_CRATES = ['harness']
CRATE_EXTRA = {}

ASSUME_COMMON = [
    'the hand-written Coq model corresponds to the code only as far as the differential run explored (cases listed in coverage)',
    'buffer_redux / memchr / std iterator adaptors behave as modelled (DESIGN.md section 8)',
    'sizes and offsets stay below 2^63 (no machine-integer overflow modelled)',
]


def fmt_of(case):
    return case.split(' ')[0]


def content_proj(pl):
    """operation + what was delivered (record contents, error variant, end)"""
    k = pl['kind']
    fmt_keys = ('h', 'l', 's', 'q')
    if k == 'rec':
        f = rec_fields(pl['out'])
        return '%s rec %s' % (pl['op'], ' '.join('%s=%s' % (x, f[x]) for x in fmt_keys if x in f))
    if k == 'set':
        recs = set_records(pl['out']) or []
        return '%s set %d %s' % (pl['op'], len(recs), '|'.join(
            ' '.join('%s=%s' % (x, rec_fields(r)[x]) for x in fmt_keys if x in rec_fields(r)) for r in recs))
    if k == 'err':
        return '%s %s' % (pl['op'], ' '.join(pl['out'].split(' ')[:2]))
    if k == 'own':
        return '%s %s' % (pl['op'], pl['out'])
    return '%s %s' % (pl['op'], k)


def full_proj(pl):
    """everything but the environment events"""
    return '%s %s @%s' % (pl['op'], norm_lossy(pl['out']), pl['pos'])


def ev_proj(pl):
    return '%s %s @%s ev=%s' % (pl['op'], norm_lossy(pl['out']), pl['pos'], ','.join(pl['ev']))


def norm_lossy(out):
    """ids that are not valid UTF-8: the model prints '!' (lossy conversion not modelled)"""
    if out.startswith('err fq_') and ('efbfbd' in out):
        toks = out.split(' ')
        toks = [('!' if (t.startswith('=') and 'efbfbd' in t) else t) for t in toks]
        toks = [('m=!' if t.startswith('m=') else t) for t in toks]
        return ' '.join(toks)
    return out


class Prop:
    id = ''
    level = 'proof'
    uses_model = True
    reader_cases = True
    crates = ['harness']
    cargo_extra = {}
    fmts = ('fa', 'fq')
    assumptions = ASSUME_COMMON

    def accepts_case(self, line):
        return fmt_of(line) in self.fmts

    def cases(self, tier, rng):
        return []

    def widen(self, rng, seeds, rnd):
        out = []
        for c in seeds:
            t = c.split(' ')
            if t[0] not in ('fa', 'fq'):
                continue
            n = 0 if t[2] == '-' else len(t[2]) // 2
            for cap in range(3, n + 4):
                for rs in gen.chunkings(n):
                    out.append(' '.join([t[0], str(cap), t[2], gen.lst(rs)] + t[4:]))
        if any(f not in ('fa', 'fq') for f in self.fmts):
            # writer / policy / allocation cases have their own generators: widen with a slice of the thorough tier
            if rnd > 2:
                return out
            more = self.cases('thorough', rng)
            return out + more[(rnd - 1) * 30000: rnd * 30000]
        for f in self.fmts:
            out += gen.structured(f, rng, 3000)
        if rnd == 1:
            for f in self.fmts:
                out += gen.exhaustive(f, 6, chunks=[[], ['D0'] * 8])
        return out

    def project(self, pl):
        return content_proj(pl)

    def oracle(self, res):
        return []

    def cross(self, results):
        return []

    def extra(self, tier, rng, stats):
        return [], {}

    def nontrivial(self, res):
        return len(res['spec']) > 0

    def rule(self, tier):
        return ''

    def exhaustive_part(self, tier):
        return None


def claimed_len(res):
    """number of leading operations of the implementation trace the properties speak about: everything before the
    first successful seek (K line.byte) whose target is NOT the position of an item of the Spec stream -- seeks to
    arbitrary offsets are outside the claims (DESIGN.md section 7), whatever happens after one is not judged"""
    case = res.get('case', '')
    if ' K' not in case and ',K' not in case:
        return len(res['impl'])
    f = fmt_of(case)
    starts = set(it['pos'] for it in oracles.parse_spec(f, res.get('spec') or []) if it['pos'] != '-')
    for i, l in enumerate(res['impl']):
        pl = parse_line(l)
        if pl['op'].startswith('K') and pl['kind'] == 'ok':
            a, b = pl['op'][1:].split('.')
            if '%s:%s' % (a, b) not in starts:
                return i + 1
    return len(res['impl'])


def abnormal(res):
    bad = []
    for i, l in enumerate(res['impl'][:claimed_len(res)]):
        pl = parse_line(l)
        if pl['kind'] in ('panic', 'hang') or pl['op'] == '?':
            bad.append('op#%d %s' % (i, l[:60]))
    return bad


def iter_contract(res):
    """the harness drives every record-set iterator step by step and reports a broken contract (size hint not
    bracketing the remaining count, None too early / too late / not repeated, len() != number of items)"""
    bad = []
    for i, l in enumerate(res['impl']):
        if 'set-iter-contract-broken' in l or 'set-len-mismatch' in l:
            bad.append('op#%d record-set iterator breaks the iterator contract: %s' % (i, l[:60]))
    return bad


def mix_owned(rng, ops):
    return [('O' if (o == 'N' and rng.chance(1, 5)) else o) for o in ops]


# ---------------------------------------------------------------------------

def big_file(fmt, rng, crlf=False, tiny=False):
    """a WELL-FORMED file of 300-450 KB -- several times the default buffer size (64 KiB) -- with records of very different
    sizes, among them two that do not fit into 64 KiB; returned with the lines the specification gives for it (the
    extracted model computes with unary numbers and cannot be run at this size, so the expectation is computed here,
    from the generator's own record list).  Aims at offsets, line counts and sizes beyond 16 bits and at anything tied to
    BUFSIZE."""
    eol = b'\r\n' if crlf else b'\n'
    text = bytearray()
    spec = []
    line = 1
    i = 0
    giants = {rng.range(3, 10): 70000 + rng.below(3000), rng.range(20, 40): 140000 + rng.below(3000)}
    if tiny:
        giants = {5: 70000}
    while len(text) < (450000 if tiny else 300000) or i <= max(giants):
        # tiny: tens of thousands of records of a few bytes -- line numbers beyond 16 bits, sets of thousands of records
        size = giants.get(i) or (rng.choice([0, 1, 2, 3]) if tiny else rng.choice([0, 1, 7, 60, 61, 300, 1000, 2500]))
        head = b'r%d len=%d' % (i, size) if rng.chance(3, 4) else b'r%d' % i
        pos = '%d:%d' % (line, len(text))
        if fmt == 'fa':
            w = rng.choice([60, 61, 70, 1000, 100000])
            sq = rnd_seq(rng, size).replace(b'*', b'A')
            lines = [sq[j:j + w] for j in range(0, len(sq), w)]
            if rng.chance(1, 10):
                lines.append(b'')
            text += b'>' + head + eol + b''.join(l + eol for l in lines)
            spec.append('rec h=%s l=%s @%s' % (head.hex(), ''.join('/' + l.hex() for l in lines), pos))
            line += 1 + len(lines)
        else:
            sq = rnd_seq(rng, size).replace(b'*', b'A')
            q = bytes(33 + (b % 40) for b in sq)
            text += b'@' + head + eol + sq + eol + b'+' + eol + q + eol
            spec.append('rec h=%s s=%s q=%s @%s' % (head.hex(), sq.hex(), q.hex(), pos))
            line += 4
        i += 1
    return bytes(text), spec


def run_big(prop, tag, stats, built, level='full', check_pos=True, extra_oracle=None):
    """built: list of (case, spec lines); implementation only, judged by the cursor oracle over the given spec lines"""
    F = []
    by_case = dict(built)
    for r in vlib.run_cases([c for c, _ in built], prop.id + '_' + tag, model=False):
        stats['evaluations'] += 1
        stats['distinct_nontrivial'] += 1
        r['spec'] = by_case[r['case']]
        bad = abnormal(r) + oracles.cursor_check(fmt_of(r['case']), r, level=level, check_pos=check_pos)
        if extra_oracle:
            bad += extra_oracle(r)
        if bad:
            r['noshrink'] = True
            F.append((r, bad[:6]))
    return F


class C01(Prop):
    id = 'C01'
    fmts = ('fa',)
    L = {'quick': 5, 'thorough': 7}
    N = {'quick': 3000, 'thorough': 60000}

    def cases(self, tier, rng):
        f = self.fmts[0]
        out = gen.exhaustive(f, self.L[tier])
        def ops_fn(r, t):
            ops = mix_owned(r, ['N'] * gen.n_items_bound(f, t))
            if r.chance(1, 5):
                # reading record by record with another (never-refusing) policy installed somewhere on the way
                ops.insert(r.below(len(ops) + 1), 'Y' + r.choice(['std', 'du.7', 'plus.3.100000']))
            return ops
        out += gen.structured(f, rng, self.N[tier], ops_fn=ops_fn)
        return out

    def oracle(self, res):
        return abnormal(res) + oracles.cursor_check(self.fmts[0], res, level='kind', check_pos=False)

    def extra(self, tier, rng, stats):
        """files several times the default buffer size (big_file): record by record at the default capacity, at a small
        and at an odd one; LF and CR LF"""
        f = self.fmts[0]
        built = []
        for crlf, cap in ([(False, 65536), (True, 1000)] if tier == 'quick' else
                          [(False, 65536), (True, 65536), (False, 1000), (True, 70001), (False, 3)]):
            text, spec = big_file(f, rng, crlf)
            built.append((gen.mkcase(f, cap, text, None, None, 'std', mix_owned(rng, ['N'] * (len(spec) + 2))), spec))
        return run_big(self, 'big', stats, built, level='kind', check_pos=False), {'big_file_cases': len(built)}

    def rule(self, tier):
        return ('all byte strings up to length %d over the 5-letter format alphabet x capacities 3..len+2 x chunkings '
                '{whole, 1 byte, 2 bytes}, then %d structured random files (1/4 malformed) with random capacity, chunking '
                '(incl. interrupted reads) and policy; read with next()/records() until end is reported twice; '
                'non-trivial = the Spec stream has at least one item; distinct = distinct case line' % (self.L[tier], self.N[tier]))

    def exhaustive_part(self, tier):
        return 'strings of length <= %d over {>,LF,CR,A,SP} (FASTA) / {@,+,LF,CR,A} (FASTQ) x capacities 3..len+2 x 3 chunkings' % self.L[tier]


class C02(C01):
    id = 'C02'
    fmts = ('fq',)


class C03(Prop):
    id = 'C03'

    def configs(self, n):
        caps = sorted(set([3, 4, 5, 7, max(3, n), max(3, n + 2), 64]))
        out = []
        for i, cap in enumerate(caps):
            rs = [[], ['D0'] * (n + 2), ['I', 'D1', 'I', 'I', 'D0'] * (n // 2 + 2)][i % 3]
            pol = ['std', 'plus.1.100000', 'du.5'][(i // 2) % 3]
            out.append((cap, rs, pol))
        # a buffer that holds the whole input and one spare byte (which shows that the input has ended) needs
        # no growth at all: a policy refusing every request "permits the needed size" there
        out.append((max(3, n + 1), [], 'ref'))
        out.append((max(3, n + 2), ['D0'] * (n + 2), 'ref'))
        return out

    def cases(self, tier, rng):
        out = []
        L = 4 if tier == 'quick' else 6
        import itertools
        inputs = []
        for f in self.fmts:
            alpha = gen.FA_ALPHA if f == 'fa' else gen.FQ_ALPHA
            for n in range(0, L + 1):
                for s in itertools.product(alpha, repeat=n):
                    inputs.append((f, bytes(s)))
            for _ in range(400 if tier == 'quick' else 6000):
                cap = rng.choice([3, 5, 8, 13])
                t = gen.fasta_file(rng, cap) if f == 'fa' else gen.fastq_file(rng, cap)
                if rng.chance(1, 4):
                    t = gen.malform(rng, f, t)
                inputs.append((f, t))
        for f, t in inputs:
            k = gen.n_items_bound(f, t)
            hists = [('n', ['N'] * k), ('s', ['S0'] * k)]
            pos = gen.record_positions(f, t)
            if len(t) > 4 and pos:
                # reading, then seeking to record positions (first, last, a middle one), each followed by reads:
                # what is read after a seek must not depend on how the source splits its data either
                mid = pos[len(pos) // 2]
                hists.append(('k', ['N', 'P', 'N', 'K%d.%d' % pos[0], 'N', 'P', 'N', 'K%d.%d' % pos[-1], 'N', 'P', 'N',
                                    'K%d.%d' % mid, 'N', 'P', 'N', 'N']))
            for which, ops in hists:
                if which == 's' and len(t) <= 4:
                    continue
                for cap, rs, pol in self.configs(len(t)):
                    out.append(gen.mkcase(f, cap, t, rs, None, pol, ops))
        return out

    def project(self, pl):
        return ev_proj(pl)

    def oracle(self, res):
        return abnormal(res)

    def extra(self, tier, rng, stats):
        """"every growth policy that permits the needed size", with a LIMITED policy: the sizes a doubling policy passes
        through on an input (capacity, 2 x capacity, ... up to the first size M that holds the longest record) are taken
        from the MODEL's run with an unlimited doubling policy; the policy DoubleUntilLimited(double_until = 100000,
        limit = M) permits exactly that chain, so reading with it must give the very outcomes of the Spec stream --
        no buffer-limit error, whatever the chunking."""
        if not os.path.exists(os.path.join(vlib.OCAML, 'model_driver')):
            return [], {}
        import re as _re
        first = []
        for f in self.fmts:
            for _ in range(250 if tier == 'quick' else 4000):
                cap = rng.choice([3, 4, 5, 6, 7, 9, 11])
                t = gen.fasta_file(rng, rng.choice([8, 13, 21])) if f == 'fa' else gen.fastq_file(rng, rng.choice([8, 13, 21]))
                ops = [rng.choice(['N', 'N', 'N', 'S0', 'O']) for _ in range(gen.n_items_bound(f, t))] + ['N']
                first.append((f, cap, t, ops))
        probe = vlib.run_cases([gen.mkcase(f, cap, t, None, None, 'du.100000', ops) for f, cap, t, ops in first],
                               self.id + '_chain', model=True, impl=False)
        cases = []
        for (f, cap, t, ops), r in zip(first, probe):
            sizes = [int(x) for l in r['model'] for x in _re.findall(r'g\d+:(\d+)', l)]
            if not sizes:
                continue                        # nothing had to grow: covered by the refusing configurations of cases()
            cases.append(gen.mkcase(f, cap, t, gen.rnd_chunking(rng, len(t)), None, 'dul.100000.%d' % max(sizes), ops))
        F = []
        for r in vlib.run_cases(cases, self.id + '_limited', model=True):
            stats['evaluations'] += 1
            stats['distinct_nontrivial'] += 1
            f = fmt_of(r['case'])
            bad = abnormal(r) + oracles.cursor_check(f, r, level='full', check_pos=True)
            for i, l in enumerate(r['impl']):
                if ' err buflimit' in l or l.startswith('err buflimit'):
                    bad.append('op#%d buffer-limit error although the policy permits every size of the doubling chain '
                               'up to the one that holds the longest record' % i)
            if r['model'] and [ev_proj(parse_line(x)) for x in r['model']] != [ev_proj(parse_line(x)) for x in r['impl']]:
                bad.append('model and implementation disagree under the limited policy')
            if bad:
                r['noshrink'] = True
                F.append((r, bad))
        return F, {'limited_policy_cases': len(cases)}

    def cross(self, results):
        """pairwise: same input and operations => same observable outcome, whatever the configuration"""
        groups = {}
        for r in results:
            t = r['case'].split(' ')
            groups.setdefault((t[0], t[2], t[6]), []).append(r)
        bad = []
        for key, rs in groups.items():
            if len(rs) < 2:
                continue
            sets = key[2].startswith('S')

            def obs(r):
                if not sets:
                    return [full_proj(parse_line(l)) for l in r['impl'][:claimed_len(r)]]
                # set reads: batch boundaries depend on the configuration by design; the
                # concatenated records, the error and the end signal must agree
                recs, tail = [], []
                for l in r['impl']:
                    pl = parse_line(l)
                    if pl['kind'] == 'set':
                        recs.extend(' '.join(x.split(' ')[:3]) for x in set_records(pl['out']))
                    elif pl['kind'] == 'none':
                        if not tail or tail[-1] != 'none':
                            tail.append('none')
                    else:
                        tail.append(norm_lossy(pl['out']))
                return recs + tail
            ref = obs(rs[0])
            for r in rs[1:]:
                o = obs(r)
                if sets and any(x.startswith('err') for x in o + ref):
                    # an invalid record ahead: set reads deliver only records preceding it, how many of them
                    # depends on the batch boundaries (records sharing the invalid record's batch are not
                    # delivered, DESIGN.md section 7); the error and the end signal must agree
                    ra, rb = [x for x in o if x.startswith('rec') or x.startswith('h=')], [x for x in ref if x.startswith('rec') or x.startswith('h=')]
                    ta, tb = [x for x in o if x not in ra], [x for x in ref if x not in rb]
                    k = min(len(ra), len(rb))
                    if ra[:k] == rb[:k] and ta == tb:
                        continue
                if o != ref:
                    k = next((i for i, (a, b) in enumerate(zip(ref, o)) if a != b), min(len(ref), len(o)))
                    bad.append(({'case': r['case'], 'impl': r['impl'], 'spec': r['spec'], 'model': r['model'],
                                 'other_case': rs[0]['case'], 'other_impl': rs[0]['impl'], 'noshrink': True},
                                ['outcome differs between two configurations of the same input at item %d: %s  vs  %s'
                                 % (k, (o[k] if k < len(o) else '<nothing>')[:100], (ref[k] if k < len(ref) else '<nothing>')[:100])]))
                    break
        return bad

    def rule(self, tier):
        return ('every input (all strings up to length %d over both alphabets + structured random files) is read under 5-7 '
                'configurations (capacity x chunking incl. interrupted reads x policy); implementation traces of the same input '
                'are compared pairwise on the full outcome (contents, error fields, positions, end), set reads on the '
                'concatenation; additionally model/implementation are compared including the read-call and grow_to logs; '
                'non-trivial = at least one spec item' % (4 if tier == 'quick' else 6))

    def exhaustive_part(self, tier):
        return 'strings of length <= %d over both alphabets x the configuration family' % (4 if tier == 'quick' else 6)


def set_discipline(res):
    """a refilled set contains only the new batch; the other set stays unchanged; re-iteration is stable"""
    slots = {}
    bad = []
    for i, l in enumerate(res['impl']):
        pl = parse_line(l)
        c = pl['op'][0]
        if c in 'SE' and pl['kind'] == 'set':
            slots[pl['op'][1]] = pl['out']
        elif c in 'SE':
            slots.pop(pl['op'][1], None)        # a failed / empty read may legitimately change (empty) the set
        elif c == 'I':
            s = pl['op'][1]
            if s in slots:
                if pl['out'] != slots[s]:
                    bad.append('op#%d iterating set %s again gives different records than when it was filled' % (i, s))
    return bad


class C04(Prop):
    id = 'C04'

    def cases(self, tier, rng):
        out = []
        n = 2500 if tier == 'quick' else 40000
        for f in self.fmts:
            out += gen.structured(f, rng, n, malformed_share=6,
                                  ops_fn=lambda r, t: gen.rnd_history(r, t, f))
            # tight policies: the buffer may not grow (at all / beyond a few bytes), so exact-count reads meet the refusal
            # with records already collected; a call may then return the buffer-limit error (after which the cursor is
            # no longer tracked), but whatever IS delivered before must still be the next records, once, in order
            for _ in range(n // 3):
                cap = rng.choice([8, 12, 16, 24, 32, 48, 64])
                text = gen.fasta_file(rng, rng.choice([3, 4, 6])) if f == 'fa' else gen.fastq_file(rng, rng.choice([3, 4, 6]))
                pol = rng.choice(['ref', 'dul.2.%d' % (cap + rng.below(6)), 'plus.1.%d' % (cap + rng.below(4)), 'scr.n.n',
                                  'dul.%d.%d' % (cap, cap)])
                k = gen.n_items_bound(f, text)
                ops = [rng.choice(['E0.2', 'E0.3', 'E1.2', 'E0.4', 'N', 'S0', 'I0']) for _ in range(k + 2)]
                out.append(gen.mkcase(f, cap, text, gen.rnd_chunking(rng, len(text)), None, pol, ops))
            # fixed switch patterns on the exhaustive small scope
            pats = [['S0', 'N', 'S0', 'N', 'N'], ['N', 'S0', 'S1', 'I0', 'N'], ['E0.1', 'N', 'E0.2', 'I0', 'E1.3', 'N'],
                    ['E0.2', 'E0.2', 'E0.2', 'N'], ['O', 'E0.3', 'O', 'S0', 'N']]
            L = 5 if tier == 'quick' else 7
            for p in pats:
                out += gen.exhaustive(f, L, ops_fn=lambda s, p=p: p, chunks=[[]])
        return out

    def oracle(self, res):
        f = fmt_of(res['case'])
        return abnormal(res) + oracles.cursor_check(f, res, level='kind', check_pos=False) + set_discipline(res) + iter_contract(res)

    def extra(self, tier, rng, stats):
        """mixed histories over files several times the default buffer size (big_file): record sets with hundreds of
        records, exact-count batches that make the buffer grow past 64 KiB, single reads in between"""
        built = []
        for f in self.fmts:
            for crlf, cap in ([(False, 65536), (True, 5000)] if tier == 'quick' else
                              [(False, 65536), (True, 65536), (False, 5000), (True, 300)]):
                text, spec = big_file(f, rng, crlf)
                ops = []
                for _ in range(len(spec) + 4):
                    ops.append(rng.choice(['S0', 'S1', 'N', 'O', 'E0.2', 'E1.50', 'E0.400', 'N', 'N']))
                ops[7:7] = ['I0', 'I1']          # re-iteration of sets with hundreds of records: twice only (tens of MB of output otherwise)
                # "all that is left": exact counts that no input can satisfy (the largest usize, 10^12)
                j = rng.below(3)
                ops[j:j] = [rng.choice(['E0.18446744073709551615', 'E1.1000000000000'])]
                built.append((gen.mkcase(f, cap, text, None, None, 'std', ops + ['S0', 'N']), spec))
        # the same huge counts on small files (the model takes the count as a unary number, so these run on the
        # implementation only; the Spec lines come from a twin case without the huge count)
        small, twins = [], []
        for f in self.fmts:
            for _ in range(40 if tier == 'quick' else 400):
                cap = rng.choice([3, 8, 16, 64])
                text = gen.fasta_file(rng, cap) if f == 'fa' else gen.fastq_file(rng, cap)
                k = gen.n_items_bound(f, text)
                ops = [rng.choice(['N', 'S0', 'E0.2', 'O']) for _ in range(rng.below(3))] + \
                      [rng.choice(['E0.18446744073709551615', 'E1.1000000000000', 'E0.4294967296'])] + ['N', 'S1', 'N']
                small.append(gen.mkcase(f, cap, text, gen.rnd_chunking(rng, len(text)), None, 'std', ops))
                twins.append(gen.mkcase(f, cap, text, None, None, 'std', ['N'] * (k + 2)))
        specs = [r['spec'] for r in vlib.run_cases(twins, self.id + '_hugetwin', model=True, impl=False)]
        built += list(zip(small, specs))
        ex = lambda r: set_discipline(r) + iter_contract(r)
        return run_big(self, 'big', stats, built, level='kind', check_pos=False, extra_oracle=ex), {'big_file_cases': len(built)}

    def rule(self, tier):
        return ('structured random files x random histories (<= 12 ops over next, records(), read_record_set, '
                'read_record_set_exact n=1..3, re-iteration of a kept set, position, seek to a saved position) and five fixed '
                'switch patterns over all strings up to length %d; the Spec cursor machine decides every outcome; '
                'non-trivial = at least one spec item' % (5 if tier == 'quick' else 7))

    def exhaustive_part(self, tier):
        return 'five fixed histories x all strings of length <= %d x capacities 3..len+2' % (5 if tier == 'quick' else 7)


class C05(Prop):
    id = 'C05'

    def hist(self, rng, text, f):
        k = gen.n_items_bound(f, text)
        ops = []
        pos = gen.record_positions(f, text)
        if pos and rng.chance(1, 4):
            # a seek as the very first call on a new reader (positions known from an index, say)
            ops.append(gen.kseek(rng, pos))
            ops += [rng.choice(['N', 'N', 'S0', 'O'])] * rng.range(1, 3)
            ops.append('P')
        for i in range(k):
            ops.append(rng.choice(['N', 'N', 'N', 'S0', 'E0.2']))
            ops.append('P')
        for _ in range(rng.range(1, 4)):
            ops.append(gen.kseek(rng, pos) if pos and rng.chance(1, 3) else 'J%d' % rng.below(16))
            ops += [rng.choice(['N', 'N', 'S0', 'O'])] * rng.range(1, 3)
            if rng.chance(1, 2):
                ops.append('P')
        return ops + ['N']

    def cases(self, tier, rng):
        out = []
        n = 2500 if tier == 'quick' else 40000
        for f in self.fmts:
            out += gen.structured(f, rng, n, malformed_share=5, ops_fn=lambda r, t: self.hist(r, t, f))
            L = 5 if tier == 'quick' else 7
            out += gen.exhaustive(f, L, ops_fn=lambda s: ['N', 'P', 'N', 'P', 'N', 'J0', 'N', 'J1', 'N', 'N'], chunks=[[]])

            def fresh_seek(s, f=f):
                pos = gen.record_positions(f, s)
                if not pos:
                    return ['N']
                return ['K%d.%d' % pos[-1], 'N', 'P', 'N', 'K%d.%d' % pos[0], 'N', 'P', 'N']
            out += gen.exhaustive(f, L, ops_fn=fresh_seek, chunks=[[]])
            # "from any reader state": also the states a source failure leaves behind (reader finished with its
            # buffer dropped, or still new with a partly filled buffer) -- a read fails at the j-th read call,
            # then seeks to record positions, each followed by reads and position queries
            for _ in range(n // 4):
                cap = rng.choice([3, 4, 5, 7, 8, 13, 16, 32, 64])
                text = gen.fasta_file(rng, cap) if f == 'fa' else gen.fastq_file(rng, cap)
                pos = gen.record_positions(f, text)
                if not pos:
                    continue
                j = rng.below(len(text) // cap + 3)
                base = ['D%d' % rng.below(4) for _ in range(j)] if rng.chance(1, 2) else ['D9999'] * j
                rs = base + ['F%d' % rng.range(1, 8)]
                ops = [rng.choice(['N', 'N', 'S0'])] * rng.range(1, 4)
                for _k in range(rng.range(1, 3)):
                    ops += [gen.kseek(rng, pos)] + [rng.choice(['N', 'N', 'S0', 'O']), 'P'] * rng.range(1, 3)
                out.append(gen.mkcase(f, cap, text, rs, None, gen.rnd_policy(rng), ops + ['N', 'P']))
        return out

    def project(self, pl):
        return full_proj(pl)

    def oracle(self, res):
        f = fmt_of(res['case'])
        return abnormal(res) + oracles.cursor_check(f, res, level='kind', check_pos=True)

    def extra(self, tier, rng, stats):
        """positions and seeks in files several times the default buffer size (big_file): byte offsets beyond 64 KiB and
        beyond the buffer, line numbers in the thousands; every record's position is checked, then the reader goes back and
        forth to saved positions (real seeks of the source at these distances)"""
        built = []
        for f in self.fmts:
            for crlf, cap in ([(False, 65536), (True, 4096)] if tier == 'quick' else
                              [(False, 65536), (True, 65536), (False, 4096), (True, 100)]):
                text, spec = big_file(f, rng, crlf)
                k = len(spec)
                ops = ['N', 'P'] * k + ['N']
                for _ in range(6):
                    ops += ['J%d' % rng.below(k), rng.choice(['N', 'S0', 'E0.3']), 'P', 'N', 'P']
                built.append((gen.mkcase(f, cap, text, None, None, 'std', ops), spec))
        F = run_big(self, 'big', stats, built, level='kind', check_pos=True)
        # offsets beyond 32 bits: a VIRTUAL source of 3 * 10^8 fixed-size records generated on the fly by the harness
        # (9.6 / 19.2 GB, never materialised); seeks between records that are 2^32 bytes (+ a few records) apart, in both
        # directions, near and far; every record read afterwards and every reported position is known in closed form
        vcases = []
        nrec = 300000000
        for f in self.fmts:
            rl = 32 if f == 'fa' else 64
            for cap in ([4096, 65536] if tier == 'quick' else [64, 4096, 65536, 262144]):
                ops, cur = ['N'], 1
                for _ in range(8):
                    far = (1 << 32) // rl
                    tgt = rng.choice([cur + far + rng.below(5), cur + 2 * far + rng.below(3), max(0, cur - far + rng.below(5)),
                                      rng.below(nrec), cur + rng.below(40), rng.below(50)])
                    tgt = min(max(0, tgt), nrec - 1)
                    lines_per = 2 if f == 'fa' else 4
                    ops += ['K%d.%d' % (lines_per * tgt + 1, rl * tgt), 'N', rng.choice(['N', 'S'])]
                    cur = tgt + 2
                vcases.append('vs %s %d %d %s' % (f, cap, nrec, ','.join(ops)))
        for r in vlib.run_cases(vcases, self.id + '_virt', model=False):
            stats['evaluations'] += 1
            stats['distinct_nontrivial'] += 1
            t = r['case'].split(' ')
            f = t[1]
            rl, lp = (32, 2) if f == 'fa' else (64, 4)
            bad = []
            idx = 0
            ops = t[4].split(',')
            if len(r['impl']) != len(ops):
                bad.append('the virtual-source run did not complete: %s' % (r['impl'][-1:],))
            for i, (op, l) in enumerate(zip(ops, r['impl'])):
                if op.startswith('K'):
                    idx = int(op[1:].split('.')[1]) // rl
                    if l != 'K ok':
                        bad.append('op#%d %s: %s' % (i, op, l[:80]))
                elif idx >= int(t[3]):
                    if not l.startswith(('N none', 'S none')):
                        bad.append('op#%d behind the last record: %s' % (i, l[:70]))
                        break
                elif op == 'N':
                    want = 'N rec %014d %s @%d:%d' % (idx, ''.join('ACGT'[(idx * 7 + j) % 4] for j in range(15)), lp * idx + 1, rl * idx)
                    if l != want:
                        bad.append('op#%d after a seek over more than 2^32 bytes or next to it: got %s, the record at the target is %s' % (i, l[:70], want))
                        break
                    idx += 1
                else:
                    m = re.match(r'^S set (\d+) (\d{14})$', l)
                    if not m or int(m.group(2)) != idx or int(m.group(1)) < 1:
                        bad.append('op#%d record set does not start with record %d: %s' % (i, idx, l[:70]))
                        break
                    idx += int(m.group(1))
            if bad:
                F.append(({'case': r['case'], 'impl': r['impl'], 'model': None, 'spec': [], 'noshrink': True}, bad))
        return F, {'big_file_cases': len(built), 'virtual_source_cases': len(vcases)}

    def rule(self, tier):
        return ('structured random files: read with next / set / exact-set, position saved after every call, then 1-3 seeks '
                'to saved positions (inside / outside the buffer depending on the capacity) each followed by reads; '
                'plus a fixed read-seek pattern over all strings up to length %d; positions after every call and everything '
                'read after a seek are decided by the Spec coordinates; non-trivial = at least one spec item'
                % (5 if tier == 'quick' else 7))

    def exhaustive_part(self, tier):
        return 'one read/seek pattern x all strings of length <= %d x capacities 3..len+2' % (5 if tier == 'quick' else 7)


class C13(Prop):
    id = 'C13'

    def cases(self, tier, rng):
        out = []
        n = 2500 if tier == 'quick' else 40000
        for f in self.fmts:
            out += gen.structured(f, rng, n, malformed_share=8,
                                  ops_fn=lambda r, t: r.choice([['N'] * gen.n_items_bound(f, t),
                                                                ['S0', 'N', 'O', 'S0', 'I0', 'N', 'N']]))
            out += gen.exhaustive(f, 5 if tier == 'quick' else 6, chunks=[[]])
        return out

    def project(self, pl):
        return full_proj(pl)

    def oracle(self, res):
        f = fmt_of(res['case'])
        bad = abnormal(res)
        for i, l in enumerate(res['impl']):
            pl = parse_line(l)
            dumps = [pl['out']] if pl['kind'] == 'rec' else (set_records(pl['out']) or []) if pl['kind'] == 'set' else []
            for d in dumps:
                for b in oracles.views_check(f, d):
                    bad.append('op#%d %s' % (i, b))
        return bad

    def nontrivial(self, res):
        return any(l.split(' ')[1] in ('rec', 'set') for l in res['impl'] if ' ' in l)

    def rule(self, tier):
        return ('every record returned by next(), by record sets and by owned conversion is dumped through all accessors '
                '(head, seq, seq_lines forwards/backwards, num_seq_lines, full_seq with its Cow tag, owned_seq, to_owned_record, '
                'id/desc in all variants incl. UTF-8 verdicts, the three writers) and the dump is checked for internal agreement; '
                'inputs: structured random (non-UTF-8 bytes, empty headers, leading/multiple spaces, empty lines) + all strings '
                'up to length %d; non-trivial = at least one record dumped' % (5 if tier == 'quick' else 6))

    def exhaustive_part(self, tier):
        return 'all strings of length <= %d over both alphabets x capacities' % (5 if tier == 'quick' else 6)


class C17(Prop):
    id = 'C17'

    def cases(self, tier, rng):
        out = []
        n = 3000 if tier == 'quick' else 50000
        for f in self.fmts:
            out += gen.structured(f, rng, n, malformed_share=1)
            out += gen.exhaustive(f, 5 if tier == 'quick' else 7)
            # "identically ... " also when the error is reached through an unusual history: after a source failure in the
            # first call and a repeated call (leading blank lines longer than the buffer), after a failing source seek,
            # after seeks to earlier records, through record sets
            for _ in range(n // 3):
                cap = rng.choice([3, 4, 5, 7, 8, 13, 16, 32])
                text = gen.fasta_file(rng, cap) if f == 'fa' else gen.fastq_file(rng, cap)
                if f == 'fa' and rng.chance(1, 2):
                    text = rng.choice([b'\n', b'\r\n']) * rng.range(1, 3 * cap) + rng.choice([b'x', b'', b'A>']) + text
                else:
                    text = gen.malform(rng, f, text)
                k = gen.n_items_bound(f, text)
                pos = gen.record_positions(f, text)
                kind = rng.below(3)
                rs, ss = gen.rnd_chunking(rng, len(text)), None
                ops = ['N', 'P'] * k
                if kind == 0:
                    j = rng.below(len(text) // cap + 3)
                    rs = (rs[:j] if rs else ['D9999'] * j) + ['F%d' % rng.range(1, 8)]
                    ops = ['N', 'N'] + ops
                elif kind == 1 and pos:
                    j = rng.range(1, len(ops))
                    ops = ops[:j] + [gen.kseek(rng, pos)] + ops[j:] + ['N', 'N']
                    ss = ['F%d' % rng.range(1, 8)] if rng.chance(1, 2) else ['ok', 'F%d' % rng.range(1, 8)]
                else:
                    ops = [rng.choice(['N', 'S0', 'E0.2', 'O']) for _ in range(k + 2)]
                out.append(gen.mkcase(f, cap, text, rs, ss, gen.rnd_policy(rng), ops))
        return out

    def project(self, pl):
        if pl['kind'] == 'err':
            return '%s %s' % (pl['op'], norm_lossy(pl['out']))
        return '%s %s' % (pl['op'], pl['kind'])

    def oracle(self, res):
        f = fmt_of(res['case'])
        bad = abnormal(res) + oracles.cursor_check(f, res, level='full', check_pos=False)
        # the message contains the values
        for i, l in enumerate(res['impl']):
            pl = parse_line(l)
            if pl['kind'] == 'err' and ' m=' in pl['out']:
                toks, msg = oracles.split_err(pl['out'])
                text = bytes.fromhex(msg)
                kind = toks[1]
                nums = {'fa_is': toks[2:3], 'fq_is': toks[3:4], 'fq_sep': toks[3:4], 'fq_len': toks[2:5],
                        'fq_end': toks[2:3]}.get(kind, [])
                for x in nums:
                    if x.encode() not in text:
                        bad.append('op#%d message does not contain the value %s' % (i, x))
        return bad

    def extra(self, tier, rng, stats):
        """an invalid FASTQ record FAR into a big file (after tens of thousands of records: its line number does not fit
        into 16 bits, its byte offset not into 17): the error must be the one the same invalid record gives behind a
        two-record prefix (that small twin runs through model and implementation like every other case), with the line
        number moved by the difference of the two start lines.  Also FASTA: garbage after 70 000 blank lines."""
        bads = [('sep', b'@bad one\nACGT\n-\nIIII\n@z\nA\n+\nI\n'), ('len', b'@bad two\nACGT\n+\nIII\n@z\nA\n+\nI\n'),
                ('start', b'>bad\nACGT\n+\nIIII\n'), ('end', b'@bad four\nACGT\n+'), ('end2', b'@bad')]
        small_prefix = b'@a\nAC\n+\nII\n@b\n\n+\n\n'          # 2 records, 8 lines
        twins = vlib.run_cases([gen.mkcase('fq', 64, small_prefix + b, None, None, 'std', ['N'] * 5) for _, b in bads],
                               self.id + '_twin', model=True)
        F = []
        built = []
        for (name, b), tw in zip(bads, twins):
            stats['evaluations'] += 1
            bad0 = self.oracle(tw)
            errs = [parse_line(l)['out'] for l in tw['impl'] if parse_line(l)['kind'] == 'err']
            if bad0 or len(errs) != 1:
                F.append((tw, bad0 or ['the small twin case did not produce exactly one error']))
                continue
            toks, _ = oracles.split_err(errs[0])
            li = {'fq_is': 3, 'fq_sep': 3, 'fq_len': 4, 'fq_end': 2}[toks[1]]
            for cap in ([65536] if tier == 'quick' else [65536, 1000]):
                text, spec = big_file('fq', rng, False, tiny=True)
                nl = 4 * len(spec)
                t2 = list(toks)
                t2[li] = str(int(toks[li]) - 8 + nl)
                ops = [rng.choice(['N', 'N', 'S0', 'E0.700']) for _ in range(40)] + ['N'] * 3
                # sets of hundreds of records first, then single reads; the error may arrive through either
                built.append((gen.mkcase('fq', cap, text + b, None, None, 'std', ['S0'] * 6 + ['N'] * (len(spec) + 3)),
                              spec + [' '.join(t2)]))
        blanks = 70000
        built.append((gen.mkcase('fa', 65536, b'\n' * blanks + b'x\n>a\nA\n', None, None, 'std', ['N', 'N']),
                      ['err fa_is %d 120' % (blanks + 1)]))
        built.append((gen.mkcase('fa', 65536, b'\r\n' * blanks + b'>a\nA\n', None, None, 'std', ['N', 'P', 'N']),
                      ['rec h=61 l=/41 @%d:%d' % (blanks + 1, 2 * blanks)]))
        F += run_big(self, 'big', stats, built, level='fields', check_pos=True)
        return F, {'big_file_cases': len(built)}

    def nontrivial(self, res):
        return any(' err ' in l for l in res['impl'])

    def rule(self, tier):
        return ('malformed inputs (one rule broken at a random record / random bytes / truncation) and all strings up to length %d, '
                'all capacities 3..len+2 and three chunkings: every error field (line, found byte, lengths, id) and the message text '
                'are compared with the Spec error item; non-trivial = the run produced an error'
                % (5 if tier == 'quick' else 7))

    def exhaustive_part(self, tier):
        return 'all strings of length <= %d over both alphabets x capacities x 3 chunkings' % (5 if tier == 'quick' else 7)


class C20(Prop):
    id = 'C20'
    fmts = ('fa', 'fq')

    def cases(self, tier, rng):
        import itertools
        out = []
        maxn = 4 if tier == 'quick' else 5
        for n in range(0, maxn + 1):
            lines = [b'A' * (i + 1) for i in range(n)]
            text = b'>h\n' + b''.join(l + b'\n' for l in lines)
            for k in range(0, n + 3):
                for steps in itertools.product('fb', repeat=k):
                    s = 'l' + ''.join(c + 'l' for c in steps)
                    out.append(gen.mkcase('fa', 64, text, None, None, 'std', ['M' + s]))
        # record sets and owned iterators after the end
        for _ in range(300 if tier == 'quick' else 3000):
            cap = rng.choice([3, 5, 8, 16, 64])
            t = gen.fasta_file(rng, cap)
            steps = ''.join(rng.choice('fbl') for _ in range(rng.range(1, 9)))
            out.append(gen.mkcase('fa', cap, t, None, None, 'std', ['M' + steps] * rng.range(1, 3) + ['O', 'O', 'O', 'O', 'O', 'O', 'O', 'O']))
        # record-set iterators (both formats): sets filled, iterated, refilled with fewer / more records (the FASTA
        # set keeps stale entries), exact counts; the harness checks size_hint / None / fusedness at every step
        for f in ('fa', 'fq'):
            for _ in range(300 if tier == 'quick' else 3000):
                cap = rng.choice([3, 5, 8, 16, 32, 64, 200])
                t = gen.fasta_file(rng, cap, nrec=rng.range(1, 9)) if f == 'fa' else gen.fastq_file(rng, cap, nrec=rng.range(1, 9))
                ops = []
                for _k in range(rng.range(2, 7)):
                    ops.append(rng.choice(['S0', 'S0', 'S1', 'E0.%d' % rng.range(1, 4), 'E1.1', 'N']))
                    if rng.chance(2, 3):
                        ops.append(rng.choice(['I0', 'I1']))
                out.append(gen.mkcase(f, cap, t, gen.rnd_chunking(rng, len(t)), None, 'std', ops + ['S0', 'I0', 'I1']))
        return out

    def project(self, pl):
        return full_proj(pl)

    def oracle(self, res):
        bad = abnormal(res) + iter_contract(res)
        if fmt_of(res['case']) != 'fa' or not any(o.startswith('M') or o == 'O' for o in res['case'].split(' ')[6].split(',')):
            return bad
        items = oracles.parse_spec('fa', res['spec'])
        k = 0
        ended = False
        for i, l in enumerate(res['impl']):
            pl = parse_line(l)
            if pl['kind'] == 'steps' and k < len(items):
                lines = items[k]['f']['l'].split('/')[1:]
                k += 1
                front, back = 0, len(lines)
                for tok in pl['out'].split(' ')[1:]:
                    c = tok[0]
                    if c == 'l':
                        a, b, c2 = tok[1:].split(':')
                        remaining = back - front
                        if not (a == b == c2 == str(remaining)):
                            bad.append('op#%d len/size_hint %s but %d items remain' % (i, tok, remaining))
                    elif c == 'f':
                        if front < back:
                            if tok != 'f=' + lines[front]:
                                bad.append('op#%d next() gave %s, expected line %d' % (i, tok, front))
                            front += 1
                        elif tok != 'f-':
                            bad.append('op#%d next() after the ends met returned an item' % i)
                    elif c == 'b':
                        if front < back:
                            back -= 1
                            if tok != 'b=' + lines[back]:
                                bad.append('op#%d next_back() gave %s, expected line %d' % (i, tok, back))
                        elif tok != 'b-':
                            bad.append('op#%d next_back() after the ends met returned an item' % i)
            elif pl['kind'] in ('own', 'rec'):
                if ended:
                    bad.append('op#%d iterator yields an item after it reported the end' % i)
                k += 1
            elif pl['kind'] == 'none':
                ended = True
        return bad

    def extra(self, tier, rng, stats):
        """fused owned-record / record-set iteration over a source whose read returns 0 bytes before the data
        is complete (e.g. a file that is still being written): once the end was reported it must stay reported.
        Such sources are outside the Coq source model, so these cases are judged by the oracle only."""
        cases = []
        for f in ('fa', 'fq'):
            for _ in range(60 if tier == 'quick' else 600):
                cap = rng.choice([3, 5, 8, 16, 64])
                t = gen.fasta_file(rng, cap) if f == 'fa' else gen.fastq_file(rng, cap)
                k = rng.below(4)
                rs = ['D%d' % rng.below(3) for _ in range(rng.below(len(t) + 1))] if k else []
                rs = rs + ['Z']
                ops = [rng.choice(['N', 'O', 'S0', 'E0.2'])] * rng.range(1, 2) + [rng.choice(['N', 'O', 'S0', 'E1.1', 'N']) for _ in range(6)]
                cases.append(gen.mkcase(f, cap, t, rs, None, 'std', ops))
        rs = vlib.run_cases(cases, self.id + '_zero', model=False)
        F = []
        for r in rs:
            stats['evaluations'] += 1
            ended = False
            bad = abnormal(r)
            for i, l in enumerate(r['impl']):
                pl = parse_line(l)
                if pl['op'][0] not in 'NOSE':
                    continue
                if pl['kind'] == 'none':
                    ended = True
                elif ended and pl['kind'] in ('rec', 'own', 'set'):
                    bad.append('op#%d yields records after the end of input had been reported' % i)
            if any(l.endswith(':0') or ':0,' in l for l in r['impl']):
                stats['distinct_nontrivial'] += 1
            if bad:
                F.append(({'case': r['case'], 'impl': r['impl'], 'model': None, 'spec': [], 'noshrink': True}, bad))
        # the CONSUMING iterator into_records() (its own `impl Iterator`), over a file opened with from_path /
        # from_path_with_capacity and over a slice with the default / a given capacity: item by item what records()
        # delivers on the same input (which the main run compares with the model), the end exactly once and for good
        pairs = []
        for f in ('fa', 'fq'):
            for _ in range(150 if tier == 'quick' else 3000):
                cap = rng.choice([3, 5, 8, 16, 64])
                t = gen.fasta_file(rng, cap) if f == 'fa' else gen.fastq_file(rng, cap)
                if rng.chance(1, 4):
                    t = gen.malform(rng, f, t)
                ref = gen.mkcase(f, cap, t, None, None, 'std', ['O'] * (gen.n_items_bound(f, t) + 3))
                how = rng.choice([('p', str(cap)), ('p', '-'), ('m', str(cap)), ('m', '-')])
                pairs.append((ref, 'ir %s %s %s %s' % (f, how[1], gen.hx(t), how[0])))
        refs = vlib.run_cases([a for a, _ in pairs], self.id + '_irref', model=False)
        irs = vlib.run_cases([b for _, b in pairs], self.id + '_ir', model=False)
        for ra, rb in zip(refs, irs):
            stats['evaluations'] += 1
            want = []
            for l in ra['impl']:
                want.append(norm_lossy(parse_line(l)['out']))
                if want[-1] == 'none':
                    break
            got = [norm_lossy(x) for x in rb['impl']]
            if any(x.startswith('own') for x in got):
                stats['distinct_nontrivial'] += 1
            if got != want:
                k = next((i for i, (a, b) in enumerate(zip(got, want)) if a != b), min(len(got), len(want)))
                F.append(({'case': rb['case'], 'impl': rb['impl'], 'model': None, 'spec': [], 'noshrink': True,
                           'other_case': ra['case'], 'other_impl': ra['impl']},
                          ['into_records() differs from records() on the same input at item %d: %s  vs  %s'
                           % (k, (got[k] if k < len(got) else '<nothing>')[:80], (want[k] if k < len(want) else '<nothing>')[:80])]))
        return F, {'zero_read_cases': len(cases), 'into_records_cases': len(pairs)}

    def nontrivial(self, res):
        return 'steps' in ''.join(res['impl'])

    def rule(self, tier):
        return ('SeqLines: every sequence of front/back steps of length <= n+2 on records with n = 0..%d lines, len() and size_hint() '
                'queried before and after every step; random step strings on random files; owned-record iterator called 8 times '
                '(fused); non-trivial = at least one SeqLines iterator exercised' % (4 if tier == 'quick' else 5))

    def exhaustive_part(self, tier):
        return 'all front/back step sequences of length <= n+2 for n <= %d sequence lines' % (4 if tier == 'quick' else 5)



# ---------------------------------------------------------------------------
# writers (C10, C11)

def wr_fields(line):
    d = {}
    for tok in line.split(' ')[1:]:
        if '=' in tok:
            k, v = tok.split('=', 1)
            d[k] = bytes.fromhex(v) if v else b''
    return d


def rnd_seq(rng, n):
    return bytes(rng.choice(b'ACGTNacgt-*') for _ in range(n))


def rnd_whead(rng):
    h = gen.rnd_head(rng)
    h = h.replace(b'\n', b'').replace(b'\r', b'')
    if rng.chance(1, 6):
        h += b' '                       # trailing space: empty description
    if rng.chance(1, 10):
        h = b' ' + h
    return h


def chunk_lens(rng, n):
    k = rng.below(5)
    if k == 0:
        return []
    out = []
    left = n
    for _ in range(rng.range(1, 6)):
        c = rng.choice([0, 0, 1, 2, 3, left, rng.below(left + 1)])
        c = min(c, left)
        out.append(c)
        left -= c
    return out


class C10(Prop):
    id = 'C10'
    fmts = ('wr',)

    def accepts_case(self, line):
        return line.startswith('wr ')

    def cases(self, tier, rng):
        out = []
        n = 1500 if tier == 'quick' else 20000
        for _ in range(n):
            L = rng.choice([0, 1, 2, 3, 4, 5, 7, 8, 9, 12, 16, 17, 31, 32, 33])
            w = rng.choice([1, 2, 3, 4, 4, 5, 8, 16, 60])
            if rng.chance(1, 3):
                L = w * rng.range(0, 4)                 # exact multiples of the width
            seq = rnd_seq(rng, L)
            ws = str(w)
            if rng.chance(1, 12):
                ws = rng.choice(['M', 'H'])        # usize::MAX ("never wrap") / isize::MAX
            out.append('wr %s %s %s %s %s' % (gen.hx(rnd_whead(rng)), gen.hx(seq), gen.hx(rnd_seq(rng, L)), ws,
                                              gen.lst([str(c) for c in chunk_lens(rng, L)])))
        # exhaustive: short sequences x widths x all splits into <= 3 chunks (incl. empty ones)
        maxl = 5 if tier == 'quick' else 7
        for L in range(0, maxl + 1):
            seq = bytes(b'ACGTACGT'[:L])
            for w in range(1, 5):
                for a in range(0, L + 1):
                    for b in range(0, L - a + 1):
                        out.append('wr 6964 %s %s %d %d,%d' % (gen.hx(seq), gen.hx(seq), w, a, b))
        return out

    def project(self, pl):
        return pl['op'] + ' ' + pl['out']

    def nontrivial(self, res):
        return bool(res['impl']) and res['impl'][0].startswith('wr to=')

    def oracle(self, res):
        bad = []
        if not res['impl'] or not res['impl'][0].startswith('wr to='):
            return ['writer case did not produce output: %s' % (res['impl'][:1],)]
        t = res['case'].split(' ')
        seq = bytes.fromhex(t[2]) if t[2] != '-' else b''
        w = len(seq) + 1 if t[4] in ('M', 'H') else int(t[4])
        f = wr_fields(res['impl'][0])
        # wrapped outputs: no sequence line longer than w, all but the last exactly w
        for k in ('wr', 'oww'):
            body = f[k].split(b'\n', 1)[1] if b'\n' in f[k] else b''
            self.check_wrap(bad, k, body, w)
        self.check_wrap(bad, 'ws', f['ws'], w)
        self.check_wrap(bad, 'wi', f['wi'], w)
        # chunking irrelevant for a non-empty sequence
        if seq and f['wi'] != f['ws']:
            bad.append('write_wrap_seq_iter over chunks differs from write_wrap_seq of the whole sequence')
        return bad

    @staticmethod
    def check_wrap(bad, k, body, w):
        lines = body.split(b'\n')
        if lines and lines[-1] == b'':
            lines = lines[:-1]
        for i, l in enumerate(lines):
            if len(l) > w:
                bad.append('%s: sequence line longer than the wrap width %d' % (k, w))
            elif i < len(lines) - 1 and len(l) != w:
                bad.append('%s: line %d has length %d, width is %d and it is not the last line' % (k, i, len(l), w))

    def extra(self, tier, rng, stats):
        """the record METHODS on parsed records (RefRecord::write / write_wrap, set members): their sequence is
        spread over several lines of the buffer.  All FASTA texts up to a small length (so that raw sequences
        shorter than the wrap width with inner line ends occur) and random multi-line files, read with next()
        and record sets; model and implementation must agree on the written bytes, and the bytes written by
        write_wrap(3) must be the header, then the concatenated sequence in lines of width 3."""
        cases = gen.exhaustive('fa', 6 if tier == 'quick' else 7, caps=[64], chunks=[[]])
        for _ in range(400 if tier == 'quick' else 5000):
            cap = rng.choice([5, 16, 64])
            cases.append(gen.mkcase('fa', cap, gen.fasta_file(rng, rng.choice([2, 3, 4, 6])), None, None, 'std',
                                    rng.choice([['N'] * 8, ['S0', 'N', 'S0', 'I0', 'N', 'N']])))
        rs = vlib.run_cases(cases, self.id + '_rec', model=True)
        F = []
        for r in rs:
            stats['evaluations'] += 1
            bad = []
            for i, l in enumerate(r['impl']):
                pl = parse_line(l)
                dumps = [pl['out']] if pl['kind'] == 'rec' else (set_records(pl['out']) or []) if pl['kind'] == 'set' else []
                for d in dumps:
                    f = rec_fields(d)
                    if 'ww' not in f or 'own' not in f:
                        continue
                    stats['distinct_nontrivial'] += 1
                    head, seq = [bytes.fromhex(x) for x in f['own'].split('.')]
                    ww = bytes.fromhex(f['ww'])
                    hl, _, body = ww.partition(b'\n')
                    if hl != b'>' + head:
                        bad.append('op#%d write_wrap: header line differs from the record header' % i)
                    if body.replace(b'\n', b'') != seq:
                        bad.append('op#%d write_wrap: the written sequence differs from the record sequence' % i)
                    self.check_wrap(bad, 'op#%d write_wrap(3) of a parsed record' % i, body, 3)
                    w = bytes.fromhex(f['w'])
                    if w != b'>' + head + b'\n' + seq + b'\n':
                        bad.append('op#%d write: not header line + sequence line' % i)
            if r['model'] is not None and [self.wproj(x) for x in r['model']] != [self.wproj(x) for x in r['impl']]:
                bad.append('model and implementation disagree on the bytes written by the record methods')
            if bad:
                r['noshrink'] = True       # the shrinker would judge candidates with the writer-case oracle
                F.append((r, bad))
        # sizes around the powers of two at which a fixed-size scratch buffer or block-wise writing would show:
        # headers of 2^k - 1, 2^k, 2^k + 1 bytes; sequences just below / above 64 KiB (the library's BUFSIZE) with the
        # usual widths.  Implementation only above 20 000 bytes (the extracted model runs out of stack there), judged
        # against the closed form of the documented output.
        big = []
        for k in (6, 7, 8, 9, 10, 12, 13, 16):
            for d in (-2, -1, 0, 1):
                hl = (1 << k) + d
                head = (b'id%d ' % hl + b'x' * hl)[:hl]
                big.append('wr %s %s %s %d %s' % (gen.hx(head), gen.hx(b'ACGTTGCA'), gen.hx(b'IIIIIIII'), rng.choice([3, 8, 60]), '3,0,2'))
        lens = [4095, 4096, 4097, 8193, 65535, 65536, 65537, 65596] + ([131073, 196609, 262145] if tier != 'quick' else [131073])
        for L in lens:
            seq = rnd_seq(rng, L)
            for w in ([60, 64, 70000] if tier == 'quick' else [1, 7, 60, 64, 70, 80, 100, 1000, 4096, 65535, 65536, 65537, 70000]):
                big.append('wr %s %s %s %d %s' % (gen.hx(b'big %d' % L), gen.hx(seq), gen.hx(seq), w,
                                                  gen.lst([str(c) for c in (0, L // 3, 1, 65536)])))
        small = [c for c in big if len(c) < 45000]
        rs = vlib.run_cases(small, self.id + '_big_m', model=True) + \
            vlib.run_cases([c for c in big if len(c) >= 45000], self.id + '_big', model=False)
        for r in rs:
            stats['evaluations'] += 1
            t = r['case'].split(' ')
            head, seq, w = bytes.fromhex(t[1]), bytes.fromhex(t[2]), int(t[4])
            if not r['impl'] or not r['impl'][0].startswith('wr to='):
                F.append((r, ['writer case did not produce output: %s' % (r['impl'][:1],)]))
                continue
            stats['distinct_nontrivial'] += 1
            f = wr_fields(r['impl'][0])
            wrapped = b''.join(seq[i:i + w] + b'\n' for i in range(0, len(seq), w))
            want = {'to': b'>' + head + b'\n' + seq + b'\n', 'wr': b'>' + head + b'\n' + wrapped, 'ws': wrapped, 'wi': wrapped,
                    'si': seq + b'\n', 'oww': b'>' + head + b'\n' + wrapped}
            want['ow'] = want['hs'] = want['pa'] = want['to']
            bad = ['%s: the bytes written differ from the documented form (header line, sequence in lines of the given width)' % k
                   for k in sorted(want) if f.get(k) != want[k]]
            if r['model'] and r['model'] != r['impl']:
                bad.append('model and implementation disagree on a writer case')
            if bad:
                F.append((r, bad))
        return F, {'record_method_cases': len(cases), 'size_threshold_cases': len(big)}

    @staticmethod
    def wproj(line):
        pl = parse_line(line)
        dumps = [pl['out']] if pl['kind'] == 'rec' else (set_records(pl['out']) or []) if pl['kind'] == 'set' else []
        return [tuple(rec_fields(d).get(k) for k in ('wu', 'w', 'ww')) for d in dumps]

    def cross(self, results):
        """round trip: every written text parses back (with the real reader) to the header and sequence"""
        reparse = []
        want = []
        for r in results:
            if not r['impl'] or not r['impl'][0].startswith('wr to='):
                continue
            t = r['case'].split(' ')
            head = bytes.fromhex(t[1]) if t[1] != '-' else b''
            seq = bytes.fromhex(t[2]) if t[2] != '-' else b''
            if head.endswith(b'\r') or b'>' in seq:
                continue
            f = wr_fields(r['impl'][0])
            for k in ('to', 'pa', 'wr', 'ow', 'oww', 'hs'):
                reparse.append(gen.mkcase('fa', 64, f[k], None, None, 'std', ['N', 'N']))
                want.append((r, k, head, seq))
            for k, body in (('si', f['si']), ('wi', f['wi']), ('ws', f['ws'])):
                reparse.append(gen.mkcase('fa', 64, b'>' + head + b'\n' + body, None, None, 'std', ['N', 'N']))
                want.append((r, k, head, seq))
        bad = []
        rs = vlib.run_cases(reparse, self.id + '_reparse', model=False)
        for rr, (r, k, head, seq) in zip(rs, want):
            ok = False
            if len(rr['impl']) >= 2:
                p0, p1 = parse_line(rr['impl'][0]), parse_line(rr['impl'][1])
                if p0['kind'] == 'rec' and p1['kind'] == 'none':
                    f = rec_fields(p0['out'])
                    lines = b''.join(bytes.fromhex(x) for x in f['l'].split('/')[1:])
                    ok = bytes.fromhex(f['h']) == head and lines == seq
            if not ok:
                bad.append(({'case': r['case'], 'impl': r['impl'], 'model': r['model'], 'spec': [], 'noshrink': True,
                             'reparse_case': rr['case'], 'reparse_trace': rr['impl']},
                            ['text written by entry point %s does not parse back to the header and sequence' % k]))
        self.n_reparsed = len(rs)
        return bad

    def rule(self, tier):
        return ('random headers (spaces, trailing space = empty description, non-UTF-8) x sequences of lengths around multiples of the '
                'wrap width x widths 1..60 x chunkings with empty chunks, plus all splits of sequences up to length %d into three chunks '
                'for widths 1..4; every writer entry point is run (write_to, write_parts, write_wrap, write_wrap_seq, write_seq_iter, '
                'write_wrap_seq_iter, write_head+write_seq, write_id_desc, OwnedRecord::write/write_wrap) and compared with the model; '
                'every output is parsed back with the real reader; non-trivial = the writers produced output' % (5 if tier == 'quick' else 7))

    def exhaustive_part(self, tier):
        return 'all splits into 3 chunks of sequences of length <= %d x widths 1..4' % (5 if tier == 'quick' else 7)


class C11(Prop):
    id = 'C11'

    def accepts_case(self, line):
        return line.split(' ')[0] in ('wr', 'fa', 'fq')

    def cases(self, tier, rng):
        out = []
        n = 1200 if tier == 'quick' else 15000
        for _ in range(n):
            L = rng.choice([0, 1, 2, 3, 5, 8, 13])
            out.append('wr %s %s %s 4 -' % (gen.hx(rnd_whead(rng)), gen.hx(rnd_seq(rng, L)), gen.hx(rnd_seq(rng, L))))
        self.wellformed = {}
        for _ in range(n):
            f = rng.choice(['fq', 'fq', 'fa'])
            cap = rng.choice([3, 5, 8, 13, 32, 64])
            nrec = rng.range(1, 5)
            crlf = rng.chance(1, 2)
            t = b'\r\n' if crlf else b'\n'
            text = b''
            for _ in range(nrec):
                h = rnd_whead(rng)
                if h.endswith(b'\r'):
                    h += b'x'
                if f == 'fq':
                    k = rng.choice([0, 1, 2, 4, 7])
                    text += b'@' + h + t + rnd_seq(rng, k) + t + b'+' + t + rnd_seq(rng, k).replace(b'-', b'I') + t
                else:
                    text += b'>' + h + t
                    for _ in range(rng.choice([0, 1, 1, 2, 3])):
                        text += rnd_seq(rng, rng.choice([0, 1, 3, 6])).replace(b'*', b'A') + t
                        if rng.chance(1, 8):
                            text += t
            final = rng.chance(2, 3)
            if not final:
                text = text[:-len(t)]
            tail = b''
            if f == 'fq' and final and rng.chance(1, 4):
                tail = t * rng.range(1, 2)
            ops = ['N'] * (nrec + 2)
            if rng.chance(1, 2):
                # the records reach the caller through record sets as well: two set slots used alternately, exact
                # counts smaller than what the buffer holds (so that consecutive batches come from ONE buffer
                # filling), single reads in between; every record still exactly once, in order
                ops = [rng.choice(['N', 'E0.1', 'E1.1', 'E0.2', 'E1.2', 'S0', 'S1']) for _ in range(nrec + 3)]
            c = gen.mkcase(f, cap, text + tail, gen.rnd_chunking(rng, len(text)), None, 'std', ops)
            self.wellformed[c] = (f, text, crlf, final)
            out.append(c)
        return out

    def project(self, pl):
        if pl['op'] == 'wr':
            return 'wr ' + pl['out']
        dumps = [pl['out']] if pl['kind'] == 'rec' else (set_records(pl['out']) or []) if pl['kind'] == 'set' else []
        return '%s %s %s' % (pl['op'], pl['kind'], '|'.join('wu=%s w=%s' % (rec_fields(d).get('wu'), rec_fields(d).get('w')) for d in dumps))

    def nontrivial(self, res):
        return any((' rec ' in l) or l.startswith('wr to=') for l in res['impl'])

    def oracle(self, res):
        bad = abnormal(res)
        info = getattr(self, 'wellformed', {}).get(res['case'])
        if info:
            f, text, crlf, final = info
            recs = []
            for l in res['impl']:
                pl = parse_line(l)
                if pl['kind'] == 'rec':
                    recs.append(rec_fields(pl['out']))
                elif pl['kind'] == 'set' and pl['op'][0] in 'SE':
                    recs.extend(rec_fields(d) for d in (set_records(pl['out']) or []))
            wu = b''.join(bytes.fromhex(r['wu']) for r in recs if 'wu' in r)
            t = b'\r\n' if crlf else b'\n'
            if f == 'fq':
                # FASTQ: unchanged writing reproduces the input (final terminator added, blank tail dropped)
                want = text if final else text + b'\n'
                if wu != want:
                    bad.append('concatenated write_unchanged output differs from the input bytes')
            else:
                # FASTA: identical up to blank lines / final terminator
                def norm(b):
                    ls = [l for l in b.replace(b'\r\n', b'\n').split(b'\n') if l != b'']
                    return ls
                if norm(wu) != norm(text):
                    bad.append('FASTA write_unchanged output differs from the input by more than blank lines / terminators')
                if wu and not wu.endswith(b'\n'):
                    bad.append('FASTA write_unchanged output lacks the final terminator')
        return bad

    def cross(self, results):
        reparse, want = [], []
        for r in results:
            if r['case'].startswith('wr ') and r['impl'] and r['impl'][0].startswith('wr to='):
                t = r['case'].split(' ')
                head = bytes.fromhex(t[1]) if t[1] != '-' else b''
                seq = bytes.fromhex(t[2]) if t[2] != '-' else b''
                qual = bytes.fromhex(t[3]) if t[3] != '-' else b''
                if head.endswith(b'\r'):
                    continue
                f = wr_fields(r['impl'][0])
                for k in ('qto', 'qpa', 'qow'):
                    reparse.append(gen.mkcase('fq', 64, f[k] + f[k], None, None, 'std', ['N', 'N', 'N']))
                    want.append((r, k, (head, seq, qual), 'fq'))
            elif r['case'].split(' ')[0] in ('fa', 'fq') and r['case'] in getattr(self, 'wellformed', {}):
                fmt = r['case'].split(' ')[0]
                recs = [rec_fields(parse_line(l)['out']) for l in r['impl'] if parse_line(l)['kind'] == 'rec']
                if recs:
                    wu = b''.join(bytes.fromhex(x['wu']) for x in recs)
                    reparse.append(gen.mkcase(fmt, 64, wu, None, None, 'std', ['N'] * (len(recs) + 1)))
                    want.append((r, 'write_unchanged', recs, 're'))
        bad = []
        rs = vlib.run_cases(reparse, self.id + '_reparse', model=False)
        for rr, (r, k, exp, kind) in zip(rs, want):
            got = [rec_fields(parse_line(l)['out']) for l in rr['impl'] if parse_line(l)['kind'] == 'rec']
            ok = True
            if kind == 'fq':
                ok = len(got) == 2 and all((bytes.fromhex(g['h']), bytes.fromhex(g['s']), bytes.fromhex(g['q'])) == exp for g in got) \
                    and parse_line(rr['impl'][-1])['kind'] == 'none'
            else:
                if rr['case'].startswith('fa'):
                    # identical record = same header, same non-blank sequence lines (blank lines before the
                    # next header are dropped by write_unchanged by design, DESIGN.md section 7)
                    def key(g):
                        return (g['h'], [x for x in g['l'].split('/')[1:] if x != ''])
                else:
                    def key(g):
                        return (g['h'], g['s'], g['q'])
                ok = [key(g) for g in got] == [key(g) for g in exp]
            if not ok:
                bad.append(({'case': r['case'], 'impl': r['impl'], 'model': r['model'], 'spec': r.get('spec', []), 'noshrink': True,
                             'reparse_case': rr['case'], 'reparse_trace': rr['impl']},
                            ['output of %s does not parse back to the same record(s)' % k]))
        return bad

    def rule(self, tier):
        return ('(a) random header/sequence/quality triples written with write_to, write_parts and OwnedRecord::write, written twice '
                'back to back and parsed back with the real reader; (b) well-formed FASTQ and FASTA files (LF or CRLF, with/without final '
                'terminator, FASTQ blank tails, FASTA blank lines) read at capacities 3..64 with random chunking: the write_unchanged '
                'outputs are concatenated and compared with the input bytes (FASTQ: equal up to the final terminator / blank tail; '
                'FASTA: equal up to blank lines and final terminator) and parsed back; the written bytes are also compared with the model; '
                'non-trivial = at least one record or writer output')


class C12(Prop):
    id = 'C12'

    def cases(self, tier, rng):
        out = []
        self.group = {}
        n = 700 if tier == 'quick' else 10000
        gid = 0
        for _ in range(n):
            f = rng.choice(['fa', 'fq'])
            gid += 1
            nrec = rng.range(1, 4)
            recs = []
            lead = rng.below(3) if (f == 'fa' and rng.chance(1, 3)) else 0
            lines = [b''] * lead
            for _ in range(nrec):
                h = rnd_whead(rng).replace(b'\r', b'')
                if f == 'fq':
                    k = rng.choice([0, 0, 1, 2, 4])
                    lines += [b'@' + h, rnd_seq(rng, k), b'+', rnd_seq(rng, k).replace(b'-', b'I')]
                else:
                    lines.append(b'>' + h)
                    for _ in range(rng.choice([0, 1, 2, 3])):
                        lines.append(rnd_seq(rng, rng.choice([0, 1, 3, 5])).replace(b'*', b'A'))
            if f == 'fq' and rng.chance(1, 3):
                # up to two blank lines after the last record are accepted by the FASTQ reader (tests/fastq.rs
                # test_fastq_empty_lines_end), so such a file is well-formed in either rendering
                lines += [b''] * rng.range(1, 2)
            variants = [('lf', [b'\n'] * len(lines)), ('crlf', [b'\r\n'] * len(lines))]
            if f == 'fa':
                variants.append(('mix', [rng.choice([b'\n', b'\r\n']) for _ in lines]))
            for final in (True, False):
                if not final and lines[-1] == b'':
                    continue          # an empty last line without terminator does not exist in the text
                for name, terms in variants:
                    text = b''.join(l + t for l, t in zip(lines, terms))
                    if not final:
                        text = text[:-len(terms[-1])]
                    for cap in (rng.choice([3, 4, 5, 7]), 64):
                        c = gen.mkcase(f, cap, text, gen.rnd_chunking(rng, len(text)), None, 'std', ['N'] * (nrec + 2))
                        self.group[c] = (gid, final, name)
                        out.append(c)
                    # the same file read, then revisited through the positions the reader itself reported (the offsets
                    # differ between the renderings, what is parsed there may not): last record first, then the others
                    ops = ['N', 'P'] * nrec + ['N']
                    for k in reversed(range(nrec)):
                        ops += ['J%d' % k, 'N']
                    ops += ['N'] * nrec
                    c = gen.mkcase(f, rng.choice([3, 4, 5, 7]), text, gen.rnd_chunking(rng, len(text)), None, 'std', ops)
                    self.group[c] = ((gid, 'seek'), final, name)
                    out.append(c)
        return out

    def project(self, pl):
        return full_proj(pl)

    def oracle(self, res):
        bad = abnormal(res)
        if res['case'] in getattr(self, 'group', {}):
            for i, l in enumerate(res['impl']):
                pl = parse_line(l)
                if pl['kind'] == 'err':
                    bad.append('op#%d error on a well-formed file: %s' % (i, pl['out'][:60]))
                if pl['kind'] == 'rec':
                    f = rec_fields(pl['out'])
                    # h: header, l: sequence lines (forward iteration), rl: the same lines iterated from the back,
                    # full/own: full_seq() and the owned copy, s/q: FASTQ sequence and quality
                    for k in ('h', 'l', 'rl', 's', 'q', 'full', 'own'):
                        if k not in f:
                            continue
                        v = f[k].replace('/', '').replace('.', '')
                        if k == 'full':
                            v = v[1:]            # borrowed/owned tag
                        if '0d' in [v[j:j + 2] for j in range(0, len(v) - len(v) % 2, 2)]:
                            bad.append('op#%d carriage return in returned field %s' % (i, k))
        return bad

    def cross(self, results):
        groups = {}
        for r in results:
            g = getattr(self, 'group', {}).get(r['case'])
            if g:
                groups.setdefault(g[0], []).append(r)
        bad = []
        keys = ('h', 'l', 's', 'q')

        def obs(r):
            o = []
            for l in r['impl']:
                pl = parse_line(l)
                if pl['kind'] == 'rec':
                    f = rec_fields(pl['out'])
                    o.append(('rec',) + tuple(f.get(k) for k in keys) + (pl['pos'].split(':')[0],))
                else:
                    o.append((pl['kind'],))
            return o
        for g, rs in groups.items():
            ref = obs(rs[0])
            for r in rs[1:]:
                if obs(r) != ref:
                    bad.append(({'case': r['case'], 'impl': r['impl'], 'spec': r['spec'], 'model': r['model'], 'noshrink': True,
                                 'other_case': rs[0]['case'], 'other_impl': rs[0]['impl']},
                                ['LF/CRLF/final-terminator renderings of the same file parse differently (records, fields or line numbers)']))
                    break
        return bad

    def rule(self, tier):
        return ('well-formed files are generated as line lists and rendered with LF, CRLF, (FASTA) a random per-line mixture, each with and '
                'without a terminator after the last line, at a small and a large capacity with random chunking; all renderings of one file '
                'must give the same records (header, sequence lines / sequence, quality), the same line numbers, no error, and no CR in any '
                'field; each rendering is also read to the end and revisited by seeking to the positions reported for its records (the '
                'renderings must agree on what is parsed there); model/implementation traces are compared as well; non-trivial = at least one spec item')


class C19(Prop):
    id = 'C19'

    def hist(self, rng, text, f):
        ops = []
        for _ in range(rng.range(2, 6)):
            k = rng.below(6)
            if k == 0:
                ops += ['Q']
            elif k == 1:
                ops += ['S%d' % rng.below(2)]
            elif k == 2:
                ops += ['E%d.%d' % (rng.below(2), rng.range(1, 4))]
            elif k == 3:
                ops += ['N']
            else:
                s = rng.below(2)
                ops += [rng.choice(['S%d' % s, 'E%d.%d' % (s, rng.range(1, 3))]), 'Z%d' % s]
        ops += ['Z0', 'Z1', 'Q']
        return ops

    def cases(self, tier, rng):
        out = []
        n = 2000 if tier == 'quick' else 30000
        for f in self.fmts:
            out += gen.structured(f, rng, n, malformed_share=8, ops_fn=lambda r, t: self.hist(r, t, f))
            L = 4 if tier == 'quick' else 6
            out += gen.exhaustive(f, L, ops_fn=lambda s: ['E0.2', 'Z0', 'E0.1', 'Z0', 'Q', 'S1', 'Z1'], chunks=[[]])
        return out

    def extra(self, tier, rng, stats):
        """one LARGE record set per format (> 64 KiB, the default buffer size of a reader): a (de)serialiser that goes
        through a second reader or a fixed-size buffer loses records only at this size.  Implementation only (the
        extracted model computes with unary numbers and is not run at this size); judged by the round-trip oracle."""
        cases = []
        for f in self.fmts:
            recs = []
            for i in range(900):
                h = b'r%d d' % i
                sq = rnd_seq(rng, 60 + rng.below(40)).replace(b'*', b'A')
                recs.append((b'>' + h + b'\n' + sq[:50] + b'\n' + sq[50:] + b'\n') if f == 'fa'
                            else (b'@' + h + b'\n' + sq + b'\n+\n' + bytes(73 for _ in sq) + b'\n'))
            cases.append(gen.mkcase(f, 150000, b''.join(recs), None, None, 'std', ['S0', 'Z0']))
        F = []
        for r in vlib.run_cases(cases, self.id + '_large', model=False):
            stats['evaluations'] += 1
            bad = abnormal(r)
            outs = [parse_line(l) for l in r['impl']]
            if len(outs) < 2 or outs[0]['kind'] != 'set' or len(set_records(outs[0]['out']) or []) < 700:
                bad.append('the large input was not read into one record set of at least 700 records')
            elif outs[1]['out'] != outs[0]['out']:
                bad.append('op#1 deserialised record set iterates differently from the set that was serialised (%d records instead of %d)'
                           % (len(set_records(outs[1]['out']) or []), len(set_records(outs[0]['out']) or [])))
            if bad:
                r['noshrink'] = True
                F.append((r, bad))
        return F, {'large_record_set_cases': len(cases)}

    def project(self, pl):
        return full_proj(pl)

    def oracle(self, res):
        bad = abnormal(res)
        slots = {}
        for i, l in enumerate(res['impl']):
            pl = parse_line(l)
            c = pl['op'][0]
            if c in 'SE' and pl['kind'] == 'set':
                slots[pl['op'][1]] = pl['out']
            elif c in 'SE' and pl['kind'] in ('err', 'none'):
                slots.pop(pl['op'][1], None)
            elif c == 'Z':
                s = pl['op'][1]
                if s in slots and pl['out'] != slots[s]:
                    bad.append('op#%d deserialised record set iterates differently from the set that was serialised' % i)
            if 'ser-owned-differs' in l:
                bad.append('op#%d deserialised owned record differs' % i)
        return bad + oracles.cursor_check(fmt_of(res['case']), self.strip_z(res), level='kind', check_pos=False)

    @staticmethod
    def strip_z(res):
        r = dict(res)
        r['impl'] = [l.replace('Q ', 'O ', 1) if l.startswith('Q ') else l for l in res['impl'] if not l.startswith('Z')]
        return r

    def nontrivial(self, res):
        return any(l.startswith('Z') and ' set ' in l and not ' set 0 ' in l for l in res['impl']) or any(l.startswith('Q own') for l in res['impl'])

    def rule(self, tier):
        return ('random files x histories of next / record-set / exact-count reads in which sets are refilled (so they carry stale offsets) '
                'and then serialised with serde_json, deserialised and iterated (op Z), owned records are serialised and deserialised (op Q); '
                'the deserialised value must iterate over / equal the original; fixed history over all strings up to length %d; '
                'non-trivial = a non-empty set or an owned record went through a round trip' % (4 if tier == 'quick' else 6))

    def exhaustive_part(self, tier):
        return 'one fixed history x all strings of length <= %d x capacities' % (4 if tier == 'quick' else 6)



# ---------------------------------------------------------------------------
# faults, growth, totality (C14, C09, C06)

def fault_events(ev):
    """kinds of the source failures among the events of one call"""
    out = []
    for e in ev:
        m = re.match(r'^[rs]\d+:F(\d+)$', e)
        if m:
            out.append(m.group(1))
    return out


class C14(Prop):
    id = 'C14'

    def extra(self, tier, rng, stats):
        """source failures through the PARALLEL path: parallel_fasta / parallel_fastq(_init) over a source whose
        j-th read fails must return that I/O error (the same the sequential reader returns), not Ok.  The runs are
        those of the parallel properties (shared, cached); if the parallel harness cannot be built this part is
        skipped (the reader part above does not depend on it)."""
        seed = int(os.environ.get('VERIF_SEED', '20260927'))
        ok, log, runs = par_runs(seed, tier)
        F = []
        n = 0
        for r in runs:
            if r.get('kind') != 'rec' or r.get('io_fail_at') is None or r.get('status') != 'done':
                continue
            se = r.get('seq_err')
            if not se or not se.startswith('Io('):
                continue
            n += 1
            stats['evaluations'] += 1
            if parprops._failure_free(r) and r.get('stop_after') is None and r.get('ret') != 'Err:Parse:' + se:
                F.append(({'case': 'par ' + parprops._cfg_brief(r) + ' ' + str(r.get('sched', '')),
                           'impl': [_json.dumps({k: v for k, v in r.items() if k != 'events'})[:3000]],
                           'model': None, 'spec': [], 'noshrink': True},
                          ['the source failed (%s) while %s was reading, but the call returned %s' % (se, r.get('api'), r.get('ret'))]))
        return F, {'parallel_runs_with_a_source_failure': n, 'parallel_harness_built': bool(ok)}

    def cases(self, tier, rng):
        out = []
        self.pairs = {}
        n = 250 if tier == 'quick' else 3000
        for f in self.fmts:
            for _ in range(n):
                cap = rng.choice([3, 4, 5, 7, 8, 13, 16, 32])
                text = gen.fasta_file(rng, cap) if f == 'fa' else gen.fastq_file(rng, cap)
                if rng.chance(1, 6):
                    text = gen.malform(rng, f, text)
                k = gen.n_items_bound(f, text)
                ops = rng.choice([['N'] * k, gen.rnd_history(rng, text, f, maxlen=8)])
                base = ['D%d' % rng.below(4) for _ in range(len(text) + 4)] if rng.chance(1, 2) else []
                # a failure at the j-th read call, for every j up to a bound
                nread = min(len(text) + 3, 14 if tier == 'quick' else 40)
                for j in range(0, nread):
                    kind = rng.range(1, 8)
                    rs = (base[:j] if base else ['D%d' % (len(text) + 1)] * 0 + ['D%d' % 9999] * j) + ['F%d' % kind]
                    out.append(gen.mkcase(f, cap, text, rs, None, gen.rnd_policy(rng), ops + ['N', 'N']))
                # a failing seek at the i-th seek call
                if any(o.startswith('J') for o in ops):
                    for i in range(3):
                        out.append(gen.mkcase(f, cap, text, base, ['ok'] * i + ['F%d' % rng.range(1, 8)], gen.rnd_policy(rng), ops + ['N']))
                # interrupts: the same case with and without interrupted reads
                plain = [x for x in base] or ['D%d' % rng.below(3) for _ in range(len(text) + 2)]
                inter = []
                for x in plain:
                    for _ in range(rng.below(3) if rng.chance(1, 2) else 0):
                        inter.append('I')
                    inter.append(x)
                a = gen.mkcase(f, cap, text, plain, None, 'std', ops)
                b = gen.mkcase(f, cap, text, inter + ['I', 'I'], None, 'std', ops)
                self.pairs[b] = a
                out += [a, b]
        return out

    def project(self, pl):
        return ev_proj(pl)

    def oracle(self, res):
        bad = abnormal(res)
        f = fmt_of(res['case'])
        for i, l in enumerate(res['impl']):
            pl = parse_line(l)
            fe = fault_events(pl['ev'])
            toks = pl['out'].split(' ')
            is_io = pl['kind'] == 'err' and len(toks) > 2 and toks[1] == 'io'
            if fe:
                if not is_io:
                    bad.append('op#%d the source failed (kind %s) during this call but the call returned: %s' % (i, fe[0], pl['out'][:50]))
                elif toks[2] != fe[-1]:
                    bad.append('op#%d the source failed with kind %s but the call reports kind %s' % (i, fe[-1], toks[2]))
            elif is_io:
                bad.append('op#%d I/O error reported although the source did not fail during this call' % i)
        # records delivered before the failure are the leading records of the input
        bad += oracles.cursor_check(f, res, level='kind', check_pos=False)
        return bad

    def cross(self, results):
        by = {r['case']: r for r in results}
        bad = []
        for b, a in getattr(self, 'pairs', {}).items():
            if a in by and b in by:
                oa = [full_proj(parse_line(l)) for l in by[a]['impl']]
                ob = [full_proj(parse_line(l)) for l in by[b]['impl']]
                if oa != ob:
                    bad.append(({'case': b, 'impl': by[b]['impl'], 'spec': by[b]['spec'], 'model': by[b]['model'], 'noshrink': True,
                                 'other_case': a, 'other_impl': by[a]['impl']},
                                ['interrupted reads change the outcome (compared with the same case without interrupts)']))
        return bad

    def nontrivial(self, res):
        return any(fault_events(parse_line(l)['ev']) or ':I' in l for l in res['impl'])

    def rule(self, tier):
        return ('random files x histories (next-only or mixed with sets/seeks): a failure of random kind injected at the j-th read call for every j '
                'up to a bound, at the i-th seek call for i < 3, and random patterns of interrupted reads (each compared with the same case without '
                'interrupts); oracle on the implementation trace: the call during which the source failed returns Io with that kind, no other call '
                'returns Io, records before the failure are the leading records of the Spec stream; non-trivial = a failure or an interrupt occurred')


def policy_answer(pol, c):
    p = pol.split('.')
    if p[0] == 'std':
        return c * 2 if c < (1 << 23) else c + (1 << 23)
    if p[0] == 'du':
        a = int(p[1])
        return c * 2 if c < a else c + a
    if p[0] == 'dul':
        a, lim = int(p[1]), int(p[2])
        n = c * 2 if c < a else c + a
        return n if n <= lim else None
    if p[0] == 'plus':
        k, lim = int(p[1]), int(p[2])
        return c + k if c + k <= lim else None
    if p[0] == 'ref':
        return None
    return None


def needed_windows(fmt, text, spec_items):
    """needed window of every record (DESIGN.md section 7): its bytes plus one look-ahead position
    (FASTA always; FASTQ only for a last record without terminator)"""
    starts = []
    for it in spec_items:
        if it['kind'] == 'rec' and it['pos'] != '-':
            starts.append(int(it['pos'].split(':')[1]))
    out = []
    for i, s in enumerate(starts):
        e = starts[i + 1] if i + 1 < len(starts) else len(text)
        if fmt == 'fa':
            out.append(e - s + 1)
        else:
            # FASTQ: the record ends with the LF of its fourth line; if the input ends before that LF,
            # one look-ahead position is needed to see the end of input
            p = s
            for _ in range(4):
                q = text.find(b'\n', p)
                if q < 0:
                    p = None
                    break
                p = q + 1
            w = (p - s) if p is not None else (len(text) - s + 1)
            out.append(w)
    return out


class C09(Prop):
    id = 'C09'

    def accepts_case(self, line):
        return line.split(' ')[0] in ('fa', 'fq', 'pol')

    def cases(self, tier, rng):
        out = []
        n = 1500 if tier == 'quick' else 20000
        self.kind = {}
        for f in self.fmts:
            for _ in range(n):
                cap = rng.choice([3, 4, 5, 6, 8, 10, 13, 16, 24])
                text = gen.fasta_file(rng, cap) if f == 'fa' else gen.fastq_file(rng, cap)
                k = gen.n_items_bound(f, text)
                which = rng.below(5)
                if which <= 1:
                    pol = rng.choice(['std', 'du.%d' % rng.range(1, 12), 'plus.%d.100000' % rng.range(1, 5)])
                    c = gen.mkcase(f, cap, text, gen.rnd_chunking(rng, len(text)), None, pol, ['N'] * k)
                    self.kind[c] = 'exact'
                elif which == 2:
                    pol = rng.choice(['ref', 'dul.%d.%d' % (rng.range(1, 9), rng.range(4, 40)), 'plus.%d.%d' % (rng.range(1, 6), rng.range(4, 40)),
                                      'scr.' + '.'.join(rng.choice(['n', str(rng.range(1, 60))]) for _ in range(rng.range(1, 4)))])
                    c = gen.mkcase(f, cap, text, gen.rnd_chunking(rng, len(text)), None, pol, rng.choice([['N'] * k, ['S0'] * k]))
                    self.kind[c] = 'limit'
                elif which == 3:
                    ops = ['N'] * k
                    if rng.chance(1, 2):
                        ops.insert(rng.below(len(ops) + 1), 'Y' + rng.choice(['std', 'du.7', 'plus.3.100000']))
                        first = rng.choice(['std', 'du.3'])
                    else:
                        # a refusing / tightly limited policy first: reads hit the buffer limit, then a generous
                        # policy is installed and the SAME record must be delivered
                        first = rng.choice(['ref', 'dul.2.%d' % (cap + rng.below(6)), 'plus.1.%d' % (cap + rng.below(4))])
                        j = rng.range(1, len(ops))
                        ops = ops[:j] + ['N', 'Y' + rng.choice(['std', 'du.7', 'plus.5.100000'])] + ops[j:] + ['N', 'N']
                    c = gen.mkcase(f, cap, text, gen.rnd_chunking(rng, len(text)), None, first, ops)
                    self.kind[c] = 'swap'
                elif rng.chance(1, 2):
                    c = gen.mkcase(f, cap, text, gen.rnd_chunking(rng, len(text)), None, 'std', ['S0'] * k)
                    self.kind[c] = 'sets'
                else:
                    # single reads, owned reads and PLAIN set reads mixed (a set read that follows a single read starts
                    # in the middle of the buffer), with a capacity that holds every record but only a few of them:
                    # the policy must not be asked at all
                    ops = [rng.choice(['N', 'N', 'S0', 'S1', 'O', 'P']) for _ in range(k + 3)]
                    capm = rng.choice([2 * cap + 4, 2 * cap + 5, 3 * cap + 2, 4 * cap + 9])
                    c = gen.mkcase(f, capm, text, gen.rnd_chunking(rng, len(text)), None,
                                   rng.choice(['std', 'du.%d' % rng.range(1, 12), 'plus.%d.100000' % rng.range(1, 5)]), ops)
                    self.kind[c] = 'mixed'
                out.append(c)
        # built-in policies on a grid around their thresholds
        grid = sorted(set([1, 2, 3, 5, 7, 8, 15, 16, 17, 100, (1 << 23) - 1, 1 << 23, (1 << 23) + 1, 1 << 24, 3 << 23]))
        out.append('pol std ' + ','.join(map(str, grid)))
        for a in (1, 2, 5, 8, 16, 1000):
            g = sorted(set(grid[:10] + [a - 1, a, a + 1, 2 * a]) - {0})
            out.append('pol du.%d ' % a + ','.join(map(str, g)))
            for lim in (a, 2 * a, 2 * a + 1, 3 * a, 50):
                g2 = sorted(set(g + [lim - 1, lim, lim + 1, lim // 2, lim // 2 + 1, max(1, lim - a), lim - a + 1]) - {0})
                out.append('pol dul.%d.%d ' % (a, lim) + ','.join(map(str, [x for x in g2 if x > 0])))
        return out

    def project(self, pl):
        if pl['op'] == 'pol':
            return 'pol ' + pl['out']
        return ev_proj(pl)

    def nontrivial(self, res):
        return res['case'].startswith('pol ') or any(',g' in l or '=g' in l for l in res['impl'])

    def oracle(self, res):
        case = res['case']
        t = case.split(' ')
        bad = []
        if t[0] == 'pol':
            if not res['impl']:
                return ['no output']
            got = res['impl'][0].split(' ', 1)[1].split(',')
            for c, g in zip(t[2].split(','), got):
                want = policy_answer(t[1], int(c))
                if (g == 'n') != (want is None) or (want is not None and g != str(want)):
                    bad.append('built-in policy %s answers %s for capacity %s, documented size is %s' % (t[1], g, c, want))
            return bad
        bad = abnormal(res)
        f = t[0]
        cap = int(t[1])
        pol = t[5]
        asks = []
        for i, l in enumerate(res['impl']):
            pl = parse_line(l)
            if pl['op'].startswith('Y'):
                pol = pl['op'][1:]
            gs = [e for e in pl['ev'] if e.startswith('g')]
            refused = False
            for g in gs:
                a, r = g[1:].split(':')
                a = int(a)
                if a != cap:
                    bad.append('op#%d policy asked with %d but the current capacity is %d' % (i, a, cap))
                asks.append(a)
                if r == 'n' or int(r) <= a:
                    refused = True
                else:
                    cap = int(r)          # adopted (cross-checked by the offered sizes in the model diff)
            is_limit = pl['kind'] == 'err' and pl['out'].split(' ')[1:2] == ['buflimit']
            if is_limit != refused:
                bad.append('op#%d buffer-limit error %s although the policy %s' % (
                    i, 'returned' if is_limit else 'not returned', 'did not refuse' if not refused else 'refused'))
        kind = getattr(self, 'kind', {}).get(case)
        text = bytes.fromhex(t[2]) if t[2] != '-' else b''
        items = oracles.parse_spec(f, res['spec'])
        if kind in ('exact', 'sets', 'swap', 'mixed') and items and all(it['kind'] == 'rec' for it in items):
            wins = needed_windows(f, text, items)
            cap0 = int(t[1])
            if wins and max(wins) <= cap0 and asks:
                bad.append('every record fits the buffer (needed windows %s, capacity %d) but the policy was asked: %s' % (wins[:6], cap0, asks[:6]))
        if kind in ('exact', 'swap', 'sets', 'mixed'):
            bad += oracles.cursor_check(f, res, level='kind', check_pos=False)
        return bad

    def rule(self, tier):
        return ('(a) files with record lengths around the capacity read with next() / read_record_set under recording policies (std, DoubleUntil, '
                'additive): every grow_to argument must be the current capacity, no request at all when every record fits (needed window = record bytes '
                '+ 1 look-ahead), the grow_to log and the offered read sizes are compared with the model; (b) refusing / limited / scripted policies: '
                'BufferLimit iff the policy refused in that call; (c) a policy installed mid-stream (set_policy) leaves the record stream unchanged; '
                '(d) the built-in policies on a grid of sizes around their thresholds and limits against the documented arithmetic and the generated '
                'Coq definitions; non-trivial = a policy was consulted')


class C06(Prop):
    id = 'C06'

    def hist(self, rng, text, f):
        ops = gen.rnd_history(rng, text, f, maxlen=10)
        # post-error / post-end calls of every kind
        ops += [rng.choice(['N', 'O', 'S0', 'E1.2', 'I0', 'I1', 'P', 'J%d' % rng.below(6)]) for _ in range(rng.range(2, 6))]
        if rng.chance(1, 3):
            # a more generous policy installed in mid-stream (typically after a buffer-limit error), then more reads
            j = rng.below(len(ops))
            ops = ops[:j] + ['Y' + rng.choice(['std', 'plus.7.100000', 'du.9'])] + ops[j:] + ['N', 'N', 'O']
        return ops

    def cases(self, tier, rng):
        out = []
        n = 2500 if tier == 'quick' else 40000
        for f in self.fmts:
            for _ in range(n):
                cap = rng.choice([3, 4, 5, 6, 8, 9, 12, 16, 32])
                text = gen.fasta_file(rng, cap) if f == 'fa' else gen.fastq_file(rng, cap)
                m = rng.below(4)
                if m == 0:
                    text = gen.malform(rng, f, text)
                elif m == 1:
                    text = bytes(rng.below(256) for _ in range(rng.range(0, 24)))
                rs = gen.rnd_chunking(rng, len(text))
                if rng.chance(1, 3):
                    j = rng.below(len(text) + 3)
                    rs = (rs or ['D%d' % rng.below(4) for _ in range(len(text) + 3)])[:j] + ['F%d' % rng.range(1, 8)] + \
                        ['D%d' % rng.below(4) for _ in range(len(text) + 3)]
                ss = ['F%d' % rng.range(1, 8) if rng.chance(1, 4) else 'ok' for _ in range(4)] if rng.chance(1, 4) else None
                pol = rng.choice(['std', 'ref', 'du.0', 'du.3', 'dul.4.9', 'plus.1.14', 'scr.n', 'scr.5.n.7', 'scr.2.3.4', 'plus.0.99'])
                ops = self.hist(rng, text, f)
                if rng.chance(1, 4):
                    # the typical reaction to a buffer-limit error: a tight policy first, reads until one hits the
                    # limit, then a generous policy is installed and reading goes on (the SAME record must come next)
                    pol = rng.choice(['ref', 'dul.2.%d' % (cap + rng.below(6)), 'plus.1.%d' % (cap + rng.below(4)), 'scr.n.n'])
                    k = gen.n_items_bound(f, text)
                    j = rng.range(1, k)
                    rd = lambda: rng.choice(['N', 'N', 'N', 'O', 'S0', 'E1.2'])
                    ops = [rd() for _ in range(j)] + ['Y' + rng.choice(['std', 'du.7', 'plus.5.100000'])] + [rd() for _ in range(k + 2)]
                out.append(gen.mkcase(f, cap, text, rs, ss, pol, ops))
            for _ in range(n // 6):
                # revisiting: the file (FASTA: behind a blank prefix of 0 .. capacity + 3 LF or CR LF lines) is read to the
                # end, the position reported for every record is kept, and the reader goes back to each of them --
                # what it shows there must again be records of the input
                cap = rng.choice([3, 4, 5, 6, 8, 9, 12, 16])
                text = gen.fasta_file(rng, cap) if f == 'fa' else gen.fastq_file(rng, cap)
                if f == 'fa':
                    text = rng.choice([b'\n', b'\r\n']) * rng.below(cap + 4) + text
                k = gen.n_items_bound(f, text)
                ops = ['N', 'P'] * k + ['N']
                for j in sorted(set(rng.below(k) for _ in range(3)), reverse=True) if k else []:
                    ops += ['J%d' % j, rng.choice(['N', 'S0', 'E1.2', 'O']), 'N']
                out.append(gen.mkcase(f, cap, text, gen.rnd_chunking(rng, len(text)), None, 'std', ops))
            out += gen.exhaustive(f, 4 if tier == 'quick' else 6,
                                  ops_fn=lambda s: ['S0', 'N', 'I0', 'E1.2', 'N', 'I1', 'O', 'S0', 'I0'], chunks=[[]])
        return out

    def project(self, pl):
        return ev_proj(pl)

    def oracle(self, res):
        """no panic / hang; every record shown is a record of the input (membership in the Spec stream, in order)"""
        f = fmt_of(res['case'])
        bad = abnormal(res)
        items = oracles.parse_spec(f, res['spec'])
        keys = [oracles.rec_key(f, it['f']) if it['kind'] == 'rec' else None for it in items]
        last = -1
        faulted = False
        for i, l in enumerate(res['impl'][:claimed_len(res)]):
            pl = parse_line(l)
            if fault_events(pl['ev']):
                faulted = True
            c = pl['op'][0]
            dumps = []
            if pl['kind'] == 'rec':
                dumps = [pl['out']]
            elif pl['kind'] == 'set':
                dumps = set_records(pl['out']) or []
            if c in 'KJ':
                last = -1        # a seek (even one whose refill failed) re-positions the reader
            if c == 'I':
                continue          # re-iteration shows records delivered before
            for d in dumps:
                k = oracles.rec_key(f, rec_fields(d))
                idx = [j for j, x in enumerate(keys) if x == k and j > last]
                if not idx:
                    idx_any = [j for j, x in enumerate(keys) if x == k]
                    what = 'out of order / repeated' if idx_any else 'not a record of the input'
                    bad.append('%sop#%d returned a record that is %s: %s' % ('[after-fault] ' if faulted else '', i, what, d[:70]))
                else:
                    last = idx[0]
        return bad

    def nontrivial(self, res):
        return len(res['impl']) > 2

    def rule(self, tier):
        return ('random inputs (well-formed, malformed, binary) x capacities 3..32 x chunkings, with a read failure at a random call (1/3), failing seeks '
                '(1/16), and policies incl. refusing, non-growing (DoubleUntil(0), plus.0) and scripted ones; histories of up to 10 mixed operations followed '
                'by 2-5 further calls of every kind (after errors / end of input), incl. iteration of sets after failed reads and seeks to saved positions; '
                'plus a fixed history over all strings up to length %d; oracle: no panic, no hang (10 s watchdog), every record shown is a record of the '
                'Spec stream in order; debug build (overflow checks on); non-trivial = more than two operations ran' % (4 if tier == 'quick' else 6))

    def exhaustive_part(self, tier):
        return 'one fixed 9-op history x all strings of length <= %d x capacities' % (4 if tier == 'quick' else 6)



# ---------------------------------------------------------------------------
# allocation in steady state (C18)

class C18(Prop):
    id = 'C18'
    reader_cases = False
    uses_model = False

    def gen_cases(self, tier, rng):
        out = []
        n = 400 if tier == 'quick' else 5000
        for _ in range(n):
            f = rng.choice(['fa', 'fq'])
            mode = rng.choice(['next', 'set'])
            m = rng.choice([0, 1, 3, 8, 20, 57])
            nl = rng.choice([1, 1, 2, 3, 5]) if f == 'fa' else 1
            crlf = rng.chance(1, 4)
            t = b'\r\n' if crlf else b'\n'

            # mixed line ends (single reads only): the warm-up records end every line with CR LF (the largest form),
            # later records choose LF or CR LF per line, so that sequence and quality lines of one record differ in
            # their terminators; sometimes the very last line has no terminator at all
            mix = mode == 'next' and rng.chance(1, 3)
            if mix:
                crlf, t = True, b'\r\n'

            def rec(i, shrink=0, late=False):
                h = b'id%d d' % (i % 10)
                mm = max(0, m - shrink)
                tt = (lambda: rng.choice([b'\n', b'\r\n'])) if (mix and late) else (lambda: t)
                if f == 'fa':
                    return b'>' + h + tt() + b''.join(rnd_seq(rng, mm).replace(b'*', b'A') + tt() for _ in range(max(1, nl - (shrink % 2))))
                return b'@' + h + tt() + rnd_seq(rng, mm) + tt() + b'+' + tt() + rnd_seq(rng, mm).replace(b'-', b'I') + tt()
            R = rng.choice([40, 80, 200])
            # the first records are the largest ("further records that are no larger")
            if mode == 'set':
                # one reused set: the number of records per batch must not exceed what the warm-up has seen,
                # so all records have the same size (DESIGN.md section 7: steady state)
                recs = [rec(i) for i in range(R)]
            else:
                recs = [rec(i) for i in range(R // 4)] + [rec(i, rng.below(3) if rng.chance(1, 2) else 0, late=True) for i in range(R - R // 4)]
            text = b''.join(recs)
            if mode == 'next' and m > 0 and rng.chance(1, 4):
                text = text[:-2] if text.endswith(b'\r\n') else text[:-1]        # no terminator after the last line
            one = len(rec(0))
            cap = rng.choice([max(3, one // 2), one + 1, one + 2, 2 * one + 3, 5 * one, 64, 256])
            if mode == 'next':
                warm = R // 4
            else:
                eff = max(cap, one + 1)
                warm = int(0.6 * (len(text) // eff + 1)) + 3
            out.append('al %s %d %s %s %d' % (f, cap, gen.hx(text), mode, warm))
        # record sets whose batches differ in size (blocks of few large / many small records, repeated):
        # no fixed warm-up is assumed here (warm = all calls); these cases are judged only against the
        # model's prediction: wherever Model/Alloc.v says "no mark rises" the measured call must not allocate
        for _ in range(n // 4):
            f = rng.choice(['fa', 'fq'])
            small, large = rng.choice([(2, 30), (4, 40), (1, 17), (8, 60)])
            blocks = []
            for cyc in range(rng.range(6, 14)):
                for (m, cnt) in ((small, rng.range(4, 9)), (large, rng.range(1, 3))):
                    for i in range(cnt):
                        h = b'r%d' % (i % 10)
                        if f == 'fa':
                            blocks.append(b'>' + h + b'\n' + rnd_seq(rng, m).replace(b'*', b'A') + b'\n')
                        else:
                            blocks.append(b'@' + h + b'\n' + rnd_seq(rng, m) + b'\n+\n' + rnd_seq(rng, m).replace(b'-', b'I') + b'\n')
            text = b''.join(blocks)
            cap = rng.choice([48, 64, 96, 128])
            out.append('al %s %d %s set 100000' % (f, cap, gen.hx(text)))
        # exact-count batches into one reused set, and single reads followed by batches (the first batch then
        # starts in the middle of the buffer): uniform records; judged against the model's prediction only
        for _ in range(n // 2):
            f = rng.choice(['fa', 'fq'])
            m = rng.choice([1, 3, 8, 14, 20])
            R = rng.choice([30, 60, 120])
            t = b'\r\n' if rng.chance(1, 5) else b'\n'
            recs = []
            for i in range(R):
                h = b'r%d' % (i % 10)
                if f == 'fa':
                    recs.append(b'>' + h + t + rnd_seq(rng, m).replace(b'*', b'A') + t)
                else:
                    recs.append(b'@' + h + t + rnd_seq(rng, m) + t + b'+' + t + rnd_seq(rng, m).replace(b'-', b'I') + t)
            text = b''.join(recs)
            one = len(recs[0])
            cap = rng.choice([one + 1, 2 * one + 3, 3 * one - 1, 5 * one, 7 * one + 2, 64, 256])
            mode = rng.choice(['x1', 'x2', 'x3', 'x%d' % rng.range(4, 9), 'm%d' % rng.range(1, 12), 'm%d' % rng.range(1, 40)])
            out.append('al %s %d %s %s 100000' % (f, max(3, cap), gen.hx(text), mode))
            # the same file read with seeks in between (to the first, second or sixth record: inside the buffer or far
            # behind it): a seek and the reads after it allocate nothing either
            tix = rng.choice([0, 1, 5])
            lines_per = 2 if f == 'fa' else 4
            tgt = (1 + lines_per * tix, one * tix)
            capk = rng.choice([one + 1, 2 * one + 3, 4 * one + 2, 4 * one + 5, 7 * one + 2, 64, 256])
            out.append('al %s %d %s k%s%d.%d.%d 100000' % (f, max(3, capk), gen.hx(text), rng.choice('ns'), rng.choice([2, 3, 7, 12]), tgt[0], tgt[1]))
        return out

    def extra(self, tier, rng, stats):
        cases = self.gen_cases(tier, rng)
        d = os.path.join(WORK, self.id)
        os.makedirs(d, exist_ok=True)
        exe = os.path.join(vlib.HARNESS, 'target', 'debug', 'alloc')
        shards = vlib.shard(cases, vlib.NPROC)
        procs = []
        for k, sh in enumerate(shards):
            pth = os.path.join(d, 'al%d.cases' % k)
            open(pth, 'w').write('\n'.join(sh) + '\n')
            procs.append((sh, subprocess.Popen([exe, pth], stdout=subprocess.PIPE, stderr=subprocess.PIPE)))
        F = []
        samples = []
        hist = {}
        # the model's prediction (Model/Alloc.v, extracted): may the i-th call allocate?
        drv = os.path.join(vlib.OCAML, 'model_driver')
        mprocs = []
        for k, sh in enumerate(shards):
            pth = os.path.join(d, 'al%d.cases' % k)
            mprocs.append(subprocess.Popen([drv, pth], stdout=subprocess.PIPE, stderr=subprocess.PIPE))
        preds = []
        for sh, mp in zip(shards, mprocs):
            so, se = mp.communicate(timeout=1200)
            mb = vlib.parse_blocks(so.decode('utf-8', 'replace'))
            while len(mb) < len(sh):
                mb.append(['al pred=?'])
            preds.append(mb)
        npred0 = 0
        for (sh, p), mbs in zip(procs, preds):
            so, se = p.communicate(timeout=600)
            blocks = vlib.parse_blocks(so.decode('utf-8', 'replace'))
            while len(blocks) < len(sh):
                blocks.append(['al crashed'])
            for c, b, mb in zip(sh, blocks, mbs):
                mline = mb[0] if mb else 'al pred=?'
                pred = mline.split('pred=')[1] if 'pred=' in mline else '?'
                stats['evaluations'] += 1
                line = b[0] if b else 'al crashed'
                fields = dict(x.split('=') for x in line.split(' ')[1:] if '=' in x)
                fails = []
                if 'allocs_after_warm' not in fields:
                    fails.append('allocation harness produced no result: ' + line[:60])
                else:
                    if int(fields['calls']) > int(fields['warm']):
                        stats['distinct_nontrivial'] += 1
                    if int(fields['allocs_after_warm']) != 0:
                        fails.append('%s heap allocations in steady state (first at call %s of %s, warm-up %s calls)' % (
                            fields['allocs_after_warm'], fields['first_alloc_call'], fields['calls'], fields['warm']))
                    if int(fields['grows_after_warm']) != 0:
                        fails.append('the policy was consulted %s times in steady state' % fields['grows_after_warm'])
                    # tie to the Coq model: wherever Model/Alloc.v predicts "no mark rises, policy not consulted"
                    # the measured call must not allocate (whatever the warm-up)
                    meas = fields.get('meas', '')
                    if pred == '?' or len(pred) < len(meas):
                        fails.append('no prediction from the model for this case: %s' % mline[:60])
                    else:
                        for i, (pb, mbit) in enumerate(zip(pred, meas)):
                            if pb == '0':
                                npred0 += 1
                                if mbit == '1':
                                    fails.append('call %d allocates although the model (high-water marks) predicts no allocation' % i)
                                    break
                    k = c.split(' ')[1] + '/' + c.split(' ')[4]
                    hist[k] = hist.get(k, 0) + 1
                if fails:
                    F.append(({'case': c[:3000], 'impl': b, 'model': None, 'spec': [], 'noshrink': True}, fails))
                if len(samples) < 3:
                    samples.append(c[:160] + ('...' if len(c) > 160 else '') + '  ->  ' + line)
        return F, {'samples': samples, 'mode_hist': hist, 'calls_predicted_allocation_free_by_the_model': npred0}

    def rule(self, tier):
        return ('inputs of 40-200 records whose first quarter are the largest (later ones equal or slightly smaller), FASTA (1-5 lines) and FASTQ, LF/CRLF, '
                'capacities from half a record to many records (so warm-up includes buffer growth); read with next() or into ONE reused RecordSet; a '
                'counting #[global_allocator] measures every call after the warm-up (first quarter of the records / 16 sets): zero allocations and zero '
                'grow_to calls required; records are accessed through the borrowing accessors; non-trivial = calls were measured after the warm-up')



# ---------------------------------------------------------------------------
# parallel module (C07, C08, C15, C16): shuttle-scheduled runs of the text of /repo/src/parallel.rs
# replayed on the Coq model (Par.accepts), plus black-box runs of the real functions

import parprops
import hashlib as _hashlib
import json as _json


def _par_key(seed, tier):
    h = _hashlib.sha1()
    for d in (os.path.join(vlib.REPO, 'src'), os.path.join(ROOT, 'harness_par', 'src'), os.path.join(ROOT, 'harness_par')):
        for f in sorted(os.listdir(d)):
            pth = os.path.join(d, f)
            if os.path.isfile(pth) and not (f == 'parallel.rs' and 'harness_par' in d):   # the generated copy is derived
                h.update(f.encode())
                h.update(open(pth, 'rb').read())
    for f in ('tools/parprops.py', 'ocaml/par_check.ml', 'coq/theories/Model/Par.v'):
        h.update(open(os.path.join(ROOT, f), 'rb').read())
    h.update(('%s %s' % (seed, tier)).encode())
    return h.hexdigest()


def par_runs(seed, tier):
    """(ok, log, runs): builds and runs once per (repository tree, harness, seed, tier); the four
    parallel properties judge the same runs with their own oracles"""
    d = os.path.join(WORK, 'par')
    os.makedirs(d, exist_ok=True)
    key = _par_key(seed, tier)
    cache = os.path.join(d, 'runs_%s.json' % key[:16])
    with vlib.Lock('par'):
        if os.path.exists(cache):
            try:
                return True, 'cached', _json.load(open(cache))
            except Exception:
                pass
        ok, log = parprops.gen_and_build(ROOT)
        if not ok:
            # the source text no longer runs on the shims (a primitive the shims do not offer, a changed
            # import line, ...): the tie through trace acceptance is broken.  The black-box runner does not
            # need the shims; run it alone so that the oracles can still look for a failing input.
            ok2, log2 = parprops.build_bb_only(ROOT)
            runs = parprops.run_bb(ROOT, seed, tier) if ok2 else []
            return False, log + '\n[black-box runner alone: %s]' % ('built' if ok2 else 'build failed: ' + log2[-300:]), runs
        runs = parprops.run_shuttle(ROOT, seed, tier) + parprops.run_bb(ROOT, seed, tier)
        for f in os.listdir(d):
            if f.startswith('runs_'):
                os.unlink(os.path.join(d, f))
        _json.dump(runs, open(cache, 'w'))
        return True, log, runs


class ParProp(Prop):
    reader_cases = False
    uses_model = False
    crates = []
    assumptions = ASSUME_COMMON + [
        'std::sync::mpsc::sync_channel, scoped_threadpool and crossbeam scoped threads behave as the shuttle-based shims do (bounded FIFO; recv fails only when empty and all senders gone; send fails iff the receiver is gone and wakes on disconnect; Scope::drop joins; scope closure captures dropped before joining) - validated only by the black-box runs against the real primitives',
        'OS threads really exit and blocked channel operations really wake (runtime behaviour; the black-box runs use a 20 s watchdog)',
        'user closures do not panic']

    def extra(self, tier, rng, stats):
        seed = int(os.environ.get('VERIF_SEED', '20260927'))
        ok, log, runs = par_runs(seed, tier)
        pre_broken = []
        if not ok:
            pre_broken = ['harness_par build / generation of src/parallel.rs from %s failed: %s' % (vlib.REPO, log[-600:])]
            if not runs:
                return [], {'broken': pre_broken, 'samples': ['(parallel harness could not be built)']}
        orc = parprops.ORACLES[self.id]
        F = []
        rejected = []
        seen = set()
        kinds = {}
        for r in runs:
            t = r.get('type')
            if t == 'stat':
                continue
            stats['evaluations'] += 1
            key = _json.dumps(r, sort_keys=True)[:4000]
            if key not in seen:
                seen.add(key)
                if parprops.nontrivial(r):
                    stats['distinct_nontrivial'] += 1
            kinds[t] = kinds.get(t, 0) + 1
            try:
                fl = orc(r)
            except Exception as e:
                fl = ['oracle crashed: %r' % e]
            if fl:
                F.append(({'case': 'par ' + (r.get('cfg') or parprops._cfg_brief(r)) + ' ' + str(r.get('sched', '')),
                           'impl': (r.get('events') or [_json.dumps({k: v for k, v in r.items() if k != 'events'})[:3000]]),
                           'model': [str(r.get('model'))], 'spec': [], 'noshrink': True}, fl))
            if t == 'proto' and (r.get('model') or 'OK').split()[0] != 'OK':
                rejected.append(r)
        cov = {'run_kinds': kinds,
               'traces_validated_against_impl': kinds.get('proto', 0),
               'model_rejected_traces': len(rejected),
               'samples': [('%s | %s | %s' % (r.get('cfg'), r.get('sched'), ' '.join((r.get('events') or [])[:12])))[:400]
                           for r in runs if r.get('type') == 'proto'][:2] +
                          [_json.dumps({k: v for k, v in r.items()})[:400] for r in runs if r.get('type') == 'bb'][:2],
               'par_describe': parprops.describe()}
        if pre_broken:
            cov['broken'] = pre_broken
        if rejected:
            r = rejected[0]
            cov['broken'] = pre_broken + ['correspondence: %d shuttle-scheduled traces of /repo/src/parallel.rs are not traces of the Coq model Par.v (first: %s, cfg %s, schedule %s)'
                             % (len(rejected), r.get('model'), r.get('cfg'), r.get('sched'))]
        return F, cov

    def rule(self, tier):
        return ('(1) the text of /repo/src/parallel.rs, with its three concurrency primitives substituted by shuttle-based shims, runs under seeded random and PCT '
                'schedules for every configuration in a grid (threads 1-3, queue 1-3, 0-5 sets, reader error / init failures, consumer drains / stops after j / '
                'never asks); every event log is replayed on the extracted Coq model (Par.accepts) and judged by the property oracle; (2) the per-record functions '
                'run under shuttle over real readers; (3) black-box runs of the real functions with real threads, seeded delays and a watchdog; '
                'non-trivial = the run filled at least one set or exercised a failure path; distinct = distinct observation')


class C07(ParProp):
    id = 'C07'


class C08(ParProp):
    id = 'C08'


class C15(ParProp):
    id = 'C15'


class C16(ParProp):
    id = 'C16'


REG = {}
for cls in (C01, C02, C03, C04, C05, C06, C07, C08, C09, C10, C11, C12, C13, C14, C15, C16, C17, C18, C19, C20):
    REG[cls.id] = cls


def get(pid):
    if pid not in REG:
        raise SystemExit('unknown or unclaimed property ' + pid)
    return REG[pid]()


def in_known_class(cls, res, fails):
    if cls == 'fabricated-record-after-source-failure':
        # F9: after a failed refill the readers infer the end of input from the not-full buffer;
        # only 'not a record of the input' observations made after a source failure belong to the class
        return bool(fails) and all(f.startswith('[after-fault] ') and 'not a record of the input' in f for f in fails)
    return False


def replay_other(prop, obj):
    return 0


def incoq_crosscheck(prop, results, rng):
    """evaluate a sample of the cases inside Coq (vm_compute) and compare with the
    extracted program's output; returns an error string or None"""
    if not results or not prop.uses_model:
        return None
    sample = [results[rng.below(len(results))] for _ in range(6)]
    sample = [r for r in sample if len(r['case']) < 400][:6]
    if not sample:
        return None
    d = os.path.join(WORK, prop.id)
    os.makedirs(d, exist_ok=True)
    vf = os.path.join(d, 'cases_%s.v' % prop.id)
    with open(vf, 'w') as f:
        f.write('From SeqIO Require Import Model.Base Model.Run.\n')
        for r in sample:
            f.write('Eval vm_compute in (run_line [%s]).\n' % ';'.join(str(b) for b in r['case'].encode()))
    rc, out = vlib.run(['coqc', '-Q', os.path.join(vlib.COQ, 'theories'), 'SeqIO', vf], cwd=d, timeout=600)
    if rc != 0:
        return 'in-Coq evaluation of sample cases failed: ' + out[-300:]
    blocks = re.findall(r'=\s*\[([^\]]*)\]\s*:\s*list', out, re.S)
    if len(blocks) != len(sample):
        return 'in-Coq evaluation: %d results for %d cases' % (len(blocks), len(sample))
    for r, b in zip(sample, blocks):
        nums = [int(x) for x in re.findall(r'\d+', b)]
        text = bytes(nums).decode('latin-1')
        want = '\n'.join(['spec ' + s for s in r['spec']] + r['model']) + '\n'
        if text != want:
            return 'extracted model and vm_compute disagree on case: ' + r['case']
    return None
