#!/usr/bin/env python3
"""Seeded changes (mutation tests of the machinery).

  tools/seeded.py confirm <worktree> <K> <prop>   confirm a delivered mutant in its scratch worktree
                                                  (suite green with the change, demo fails with it and passes
                                                  without it) and store it as seeded/<prop><K>/
  tools/seeded.py run <id> [props..]              apply seeded/<id>/patch.diff to /repo, run the quick checks
                                                  (default: the property it breaks), record the verdicts in
                                                  meta.json, undo the change
"""
import json, os, subprocess, sys, time, shutil

ROOT = os.path.dirname(os.path.dirname(os.path.abspath(__file__)))
REPO = '/repo'
ENV = dict(os.environ, CARGO_NET_OFFLINE='true')


def sh(cmd, cwd=None, timeout=1800, env=None):
    p = subprocess.run(cmd, shell=True, cwd=cwd, stdout=subprocess.PIPE, stderr=subprocess.STDOUT, timeout=timeout, env=env or ENV)
    return p.returncode, p.stdout.decode('utf-8', 'replace')


def confirm(wt, k, prop):
    d = os.path.join(wt, 'deliver', k)
    sid = prop + k
    out = os.path.join(ROOT, 'seeded', sid)
    head = sh('git -C %s rev-parse HEAD' % REPO)[1].strip()
    env = dict(ENV, CARGO_TARGET_DIR=os.path.join(wt, 'target'))
    log = {}
    sh('git checkout -q -- . && rm -f tests/demo.rs && git checkout -q --detach %s' % head, cwd=wt)
    rc, o = sh('git apply --check %s/patch.diff' % d, cwd=wt)
    if rc != 0:
        print('%s: patch does not apply to %s: %s' % (sid, head[:7], o[-300:]))
        return 1
    shutil.copy(os.path.join(d, 'demo.rs'), os.path.join(wt, 'tests', 'demo.rs'))
    rc, o = sh('cargo test --offline --test demo 2>&1 | tail -15', cwd=wt, env=env)
    log['demo_without_change'] = 'pass' if ('test result: ok' in o and 'FAILED' not in o) else 'FAIL'
    sh('git apply %s/patch.diff' % d, cwd=wt)
    rc, o = sh('cargo test --offline --test demo 2>&1 | tail -15', cwd=wt, env=env)
    log['demo_with_change'] = 'fails' if ('FAILED' in o or 'panicked' in o or 'error' in o.lower()) and 'test result: ok' not in o else 'PASSES'
    os.unlink(os.path.join(wt, 'tests', 'demo.rs'))
    rc, o = sh('cargo test --offline 2>&1 | grep "test result\\|FAILED\\|error\\[" ', cwd=wt, env=env)
    oks = o.count('test result: ok')
    log['suite_with_change'] = 'green (%d result lines ok)' % oks if ('FAILED' not in o and 'error[' not in o and oks >= 3) else 'NOT GREEN: ' + o[-300:]
    sh('git checkout -q -- . && rm -f tests/demo.rs', cwd=wt)
    ok = log['demo_without_change'] == 'pass' and log['demo_with_change'] == 'fails' and log['suite_with_change'].startswith('green')
    print(sid, json.dumps(log))
    if not ok:
        return 1
    os.makedirs(out, exist_ok=True)
    for f in ('patch.diff', 'demo.rs', 'README.md'):
        if os.path.exists(os.path.join(d, f)):
            shutil.copy(os.path.join(d, f), os.path.join(out, f))
    meta = {'id': sid, 'breaks_property': prop, 'base_commit': head,
            'needs': '(see README.md, written by the sub-agent that produced the change)',
            'confirmed': log,
            'confirm_cmds': ['git apply patch.diff (scratch worktree of /repo at base_commit)',
                             'cargo test --offline --test demo   (with and without the change)',
                             'cargo test --offline               (with the change, demo removed)'],
            'checks': {}}
    mp = os.path.join(out, 'meta.json')
    if os.path.exists(mp):
        old = json.load(open(mp))
        meta['checks'] = old.get('checks', {})
        meta['needs'] = old.get('needs', meta['needs'])
    json.dump(meta, open(mp, 'w'), indent=1)
    return 0


def run(sid, props):
    d = os.path.join(ROOT, 'seeded', sid)
    meta = json.load(open(os.path.join(d, 'meta.json')))
    props = props or [meta['breaks_property']]
    rc, o = sh('git -C %s status --porcelain --untracked-files=no' % REPO)
    if o.strip():
        print('refusing: /repo has uncommitted changes')
        return 2
    # a change that was delivered against an older HEAD and no longer applies is kept in its original form
    # (patch.diff) together with the same edit re-done on the current HEAD (patch_rebased.diff)
    pf = 'patch_rebased.diff' if os.path.exists(os.path.join(d, 'patch_rebased.diff')) else 'patch.diff'
    rc, o = sh('git -C %s apply %s/%s' % (REPO, d, pf))
    if rc != 0:
        print('patch does not apply: ' + o[-300:])
        return 2
    res = {}
    try:
        for p in props:
            t0 = time.time()
            rc, o = sh('python3 tools/check %s quick' % p, cwd=ROOT, timeout=3600)
            lines = [l for l in o.split('\n') if l.startswith('VIOLATION') or l.startswith('KNOWN-FINDING')]
            rep = None
            for l in lines:
                if 'replay=' in l:
                    rp = l.split('replay=')[1].split(' ')[0]
                    try:
                        obj = json.load(open(rp))
                        rep = {k: obj.get(k) for k in ('kind', 'case', 'failures', 'no_longer_checks') if obj.get(k)}
                        if rep.get('no_longer_checks'):
                            rep['no_longer_checks'] = rep['no_longer_checks'][:3]
                    except Exception as e:
                        rep = {'unreadable': str(e)}
            res[p] = {'exit': rc, 'lines': lines, 'replay': rep, 'wall_s': round(time.time() - t0, 1),
                      'caught': rc == 1 and any(l.startswith('VIOLATION') for l in lines)}
            print(sid, p, 'exit', rc, lines[:2], (json.dumps(rep)[:300] if rep else ''))
    finally:
        sh('git -C %s checkout -- .' % REPO)
    meta.setdefault('checks', {}).update(res)
    json.dump(meta, open(os.path.join(d, 'meta.json'), 'w'), indent=1)
    return 0


if __name__ == '__main__':
    if sys.argv[1] == 'confirm':
        sys.exit(confirm(sys.argv[2], sys.argv[3], sys.argv[4]))
    if sys.argv[1] == 'run':
        sys.exit(run(sys.argv[2], sys.argv[3:]))
