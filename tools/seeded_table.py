#!/usr/bin/env python3
"""prints the markdown table of seeded changes and which checks caught them (from seeded/*/meta.json)"""
import json, os, re
ROOT = os.path.dirname(os.path.dirname(os.path.abspath(__file__)))
rows = []
for d in sorted(os.listdir(os.path.join(ROOT, 'seeded'))):
    mp = os.path.join(ROOT, 'seeded', d, 'meta.json')
    if not os.path.exists(mp):
        continue
    m = json.load(open(mp))
    what = m.get('summary') or ''
    if not what:
        rd = os.path.join(ROOT, 'seeded', d, 'README.md')
        if os.path.exists(rd):
            txt = open(rd).read()
            mm = re.search(r'(?im)^#+\s*(.+)$', txt)
            what = mm.group(1).strip() if mm else txt.strip().split('\n')[0]
    checks = m.get('checks', {})
    res = []
    for p, c in sorted(checks.items()):
        how = 'caught' if c.get('caught') else ('exit %s' % c.get('exit'))
        rep = c.get('replay') or {}
        detail = ''
        if rep.get('kind') == 'failing-input':
            detail = ' (failing input: `%s`)' % (str(rep.get('case'))[:60])
        elif rep.get('no_longer_checks'):
            detail = ' (no-failing-input-found: %s)' % str(rep['no_longer_checks'][0].get('what'))[:80]
        res.append('%s: %s%s' % (p, how, detail))
    rows.append('| %s | %s | %s | %s |' % (d, m.get('breaks_property'), what[:110].replace('|', '/'), '; '.join(res) or 'not run yet'))
print('| id | property | change | verdict of the check(s) |')
print('|---|---|---|---|')
print('\n'.join(rows))
