#!/usr/bin/env python3
"""Translator for the declarative parts of seq_io: regenerates
coq/theories/Gen/*.v from /repo/src on every run.

Strict by design: every recogniser accepts exactly the shapes it knows and
raises TranslateError otherwise (the check then reports "tie broken").

  PolicyGen.v   the three `grow_to` bodies of policy.rs           -> Gallina over Z
  ConstGen.v    BUFSIZE, `assert!(capacity >= N)`, initial Position -> constants
  DisplayGen.v  `impl fmt::Display for Error / ErrorPosition`     -> literal pieces + holes
  SerdeGen.v    #[derive(.. Serialize, Deserialize)] structs      -> field lists + attributes
  WriteGen.v    straight-line writer functions                    -> ++ chains
"""
import os
import re
import sys


class TranslateError(Exception):
    pass


def strip_comments(src):
    # remove // comments (incl. doc comments); the sources have no /* */ in code
    out = []
    for line in src.split('\n'):
        # keep string literals intact: the sources have no '//' inside literals
        i = line.find('//')
        if i >= 0:
            # make sure it is not inside a string literal
            q = line[:i].count('"') - line[:i].count('\\"')
            if q % 2 == 0:
                line = line[:i]
        out.append(line)
    return '\n'.join(out)


def match_brace(s, i, open_c='{', close_c='}'):
    """s[i] == open_c; returns index of the matching close."""
    assert s[i] == open_c, (s[i - 20:i + 20])
    depth = 0
    in_str = False
    j = i
    while j < len(s):
        c = s[j]
        if in_str:
            if c == '\\':
                j += 1
            elif c == '"':
                in_str = False
        else:
            if c == '"':
                in_str = True
            elif c == "'" and j + 2 < len(s) and (s[j + 2] == "'" or (s[j + 1] == '\\' and s[j + 3] == "'")):
                # char literal like '>' or '\n'
                j += 2 if s[j + 2] == "'" else 3
            elif c == open_c:
                depth += 1
            elif c == close_c:
                depth -= 1
                if depth == 0:
                    return j
        j += 1
    raise TranslateError('unbalanced braces')


def bytes_lit(bs):
    return '[' + ';'.join(str(b) for b in bs) + ']'


def rust_str_unescape(s):
    out = bytearray()
    i = 0
    while i < len(s):
        c = s[i]
        if c == '\\':
            n = s[i + 1]
            m = {'n': 10, 'r': 13, 't': 9, '\\': 92, "'": 39, '"': 34, '0': 0}
            if n not in m:
                raise TranslateError('unknown escape \\%s' % n)
            out.append(m[n])
            i += 2
        else:
            out.extend(c.encode('utf-8'))
            i += 1
    return bytes(out)


# --------------------------------------------------------------------------
# expressions of policy.rs

TOK = re.compile(r'\s*(<<|<=|>=|==|[A-Za-z_][A-Za-z_0-9.]*|\d[\d_]*|[()<>+*{};=,-])')


def tokenize(s):
    toks = []
    i = 0
    s = s.strip()
    while i < len(s):
        m = TOK.match(s, i)
        if not m:
            raise TranslateError('cannot tokenize policy body at: %r' % s[i:i + 30])
        toks.append(m.group(1))
        i = m.end()
    return toks


class PParser:
    """if/else, let, Some/None, + * << < <= over identifiers and literals."""

    def __init__(self, toks, idents, helpers=None, depth=0):
        self.t = toks
        self.i = 0
        self.idents = idents  # rust ident -> coq ident
        self.helpers = helpers or {}   # private helper functions of the module: name -> (parameter names, body tokens)
        self.depth = depth

    def peek(self):
        return self.t[self.i] if self.i < len(self.t) else None

    def eat(self, x=None):
        tok = self.peek()
        if tok is None or (x is not None and tok != x):
            raise TranslateError('policy: expected %r, got %r' % (x, tok))
        self.i += 1
        return tok

    def block(self):
        # sequence of `let x = e;` followed by one expression
        if self.peek() == 'let':
            self.eat('let')
            name = self.eat()
            if not re.match(r'^[a-z_][a-z_0-9]*$', name):
                raise TranslateError('policy: bad let name')
            self.eat('=')
            e = self.expr()
            self.eat(';')
            self.idents = dict(self.idents)
            self.idents[name] = name
            body = self.block()
            return '(let %s := %s in %s)' % (name, e, body)
        return self.expr()

    def expr(self):
        if self.peek() == 'if':
            self.eat('if')
            c = self.cmp()
            self.eat('{')
            if self.peek() == 'return':
                # `if c { return e; } rest`  is  `if c { e } else { rest }`
                self.eat('return')
                a = self.expr()
                self.eat(';')
                self.eat('}')
                if self.peek() == 'else':
                    self.eat('else')
                    self.eat('{')
                    b = self.block()
                    self.eat('}')
                else:
                    b = self.block()
                return '(if %s then %s else %s)' % (c, a, b)
            a = self.block()
            self.eat('}')
            self.eat('else')
            self.eat('{')
            b = self.block()
            self.eat('}')
            return '(if %s then %s else %s)' % (c, a, b)
        return self.cmp()

    def cmp(self):
        a = self.shift()
        if self.peek() in ('<', '<='):
            o = self.eat()
            b = self.shift()
            return '(%s %s? %s)' % (a, o, b)
        if self.peek() in ('>', '>='):
            o = self.eat()
            b = self.shift()
            return '(%s %s? %s)' % (b, '<' if o == '>' else '<=', a)
        return a

    def shift(self):
        a = self.add()
        while self.peek() == '<<':
            self.eat()
            b = self.add()
            a = '(Z.shiftl %s %s)' % (a, b)
        return a

    def add(self):
        a = self.mul()
        while self.peek() == '+':
            self.eat()
            b = self.mul()
            a = '(%s + %s)' % (a, b)
        return a

    def mul(self):
        a = self.atom()
        while self.peek() == '*':
            self.eat()
            b = self.atom()
            a = '(%s * %s)' % (a, b)
        return a

    def atom(self):
        tok = self.eat()
        if tok == '(':
            e = self.expr()
            self.eat(')')
            return e
        if tok == 'Some':
            self.eat('(')
            e = self.expr()
            self.eat(')')
            return '(Some %s)' % e
        if tok == 'None':
            return 'None'
        if re.match(r'^\d', tok):
            return tok.replace('_', '')
        if tok in self.helpers and self.peek() == '(':
            if self.depth > 3:
                raise TranslateError('policy: helper calls nested too deeply at %r' % tok)
            hparams, htoks = self.helpers[tok]
            self.eat('(')
            args = []
            while self.peek() != ')':
                args.append(self.expr())
                if self.peek() == ',':
                    self.eat(',')
            self.eat(')')
            if len(args) != len(hparams):
                raise TranslateError('policy: helper %s called with %d arguments' % (tok, len(args)))
            names = ['%s_%s' % (tok, q) for q in hparams]       # fresh names: no capture of the caller's variables
            hid = {k: v for k, v in self.idents.items() if k.isupper() or k.upper() == k}   # module constants only
            hid.update(dict(zip(hparams, names)))
            hp = PParser(list(htoks), hid, self.helpers, self.depth + 1)
            body = hp.block()
            if hp.peek() is not None:
                raise TranslateError('policy: trailing tokens in helper %s' % tok)
            for nme, a in reversed(list(zip(names, args))):
                body = '(let %s := %s in %s)' % (nme, a, body)
            return body
        if tok in self.idents:
            return self.idents[tok]
        raise TranslateError('policy: unknown identifier %r' % tok)


def gen_policy(src):
    src = strip_comments(src)
    out = ['(* GENERATED by tools/translate.py from /repo/src/policy.rs -- do not edit *)',
           'From Coq Require Import ZArith.', 'Local Open Scope Z_scope.', '']
    specs = [
        ('StdPolicy', 'std_grow_to', {}),
        ('DoubleUntil', 'double_until_grow_to', {'self.0': 'self_0'}),
        ('DoubleUntilLimited', 'double_until_limited_grow_to',
         {'self.double_until': 'self_double_until', 'self.limit': 'self_limit'}),
    ]
    # module-level constants (`const NAME: usize = <constant expression>;`) and private helper functions over usize
    consts = {}
    for cm in re.finditer(r'(?:pub\s+)?const\s+([A-Z_][A-Z_0-9]*)\s*:\s*usize\s*=\s*([^;]+);', src):
        cp = PParser(tokenize(cm.group(2)), dict(consts))
        consts[cm.group(1)] = cp.expr()
        if cp.peek() is not None:
            raise TranslateError('policy: constant %s not recognised' % cm.group(1))
    helpers = {}
    for hm in re.finditer(r'(?:^|\n)\s*(?:#\[inline\]\s*)?(?:pub(?:\(crate\))?\s+)?fn\s+(\w+)\s*\(\s*((?:\w+\s*:\s*usize\s*,?\s*)*)\)\s*->\s*(?:usize|Option<usize>)\s*\{', src):
        hend = match_brace(src, hm.end() - 1)
        hps = [q.split(':')[0].strip() for q in hm.group(2).split(',') if q.strip()]
        helpers[hm.group(1)] = (hps, tokenize(src[hm.end():hend]))
    for ty, name, fields in specs:
        m = re.search(r'impl\s+BufPolicy\s+for\s+%s\s*\{' % ty, src)
        if not m:
            raise TranslateError('policy: impl BufPolicy for %s not found' % ty)
        end = match_brace(src, m.end() - 1)
        body = src[m.end():end]
        fm = re.search(r'fn\s+grow_to\s*\(\s*&mut\s+self\s*,\s*(\w+)\s*:\s*usize\s*\)\s*->\s*Option<usize>\s*\{', body)
        if not fm:
            raise TranslateError('policy: grow_to signature of %s not recognised' % ty)
        fend = match_brace(body, fm.end() - 1)
        fbody = body[fm.end():fend]
        arg = fm.group(1)
        idents = dict(consts)
        idents.update(fields)
        idents[arg] = 'current_size'
        p = PParser(tokenize(fbody), idents, helpers)
        e = p.block()
        if p.peek() is not None:
            raise TranslateError('policy: trailing tokens in %s' % ty)
        params = ' '.join(sorted(set(fields.values())) + ['current_size'])
        out.append('Definition %s (%s : Z) : option Z :=\n  %s.' % (name, params, e))
        out.append('')
    # constructor argument order of DoubleUntilLimited::new
    m = re.search(r'pub\s+fn\s+new\s*\(\s*double_until\s*:\s*usize\s*,\s*limit\s*:\s*usize\s*\)\s*->\s*Self\s*\{\s*DoubleUntilLimited\s*\{\s*double_until\s*,\s*limit\s*,?\s*\}\s*\}', src)
    if not m:
        raise TranslateError('policy: DoubleUntilLimited::new not recognised')
    return '\n'.join(out) + '\n'


# --------------------------------------------------------------------------
# constants

def gen_const(fa, fq):
    out = ['(* GENERATED by tools/translate.py from /repo/src/fasta.rs and fastq.rs -- do not edit *)',
           'From Coq Require Import ZArith.', 'Local Open Scope Z_scope.', '']
    for name, src in (('fa', fa), ('fq', fq)):
        src = strip_comments(src)
        m = re.search(r'const\s+BUFSIZE\s*:\s*usize\s*=\s*([^;]+);', src)
        if not m:
            raise TranslateError('const: BUFSIZE of %s not found' % name)
        expr = m.group(1).replace('_', '').strip()
        # a constant expression over literals with * + << and parentheses; the VALUE is what the model uses
        if not re.match(r'^[\d\s*+()<]+$', expr) or re.search(r'<(?!<)|<<<', expr.replace('<<', '')):
            raise TranslateError('const: BUFSIZE expression not recognised: %r' % expr)
        try:
            val = int(eval(expr, {'__builtins__': {}}, {}))
        except Exception:
            raise TranslateError('const: BUFSIZE expression not recognised: %r' % expr)
        out.append('Definition %s_bufsize : Z := %d.' % (name, val))
        m = re.search(r'pub\s+fn\s+with_capacity\s*\([^)]*\)\s*->[^{]*\{\s*assert!\(\s*capacity\s*>=\s*(\d+)\s*\)\s*;', src)
        if not m:
            raise TranslateError('const: capacity assertion of %s not found' % name)
        out.append('Definition %s_min_capacity : Z := %s.' % (name, m.group(1)))
        m = re.search(r'position\s*:\s*Position::new\(\s*(\d+)\s*,\s*(\d+)\s*\)', src)
        if not m:
            raise TranslateError('const: initial position of %s not found' % name)
        out.append('Definition %s_init_line : Z := %s.' % (name, m.group(1)))
        out.append('Definition %s_init_byte : Z := %s.' % (name, m.group(2)))
        m = re.search(r'pub\s+fn\s+new\s*\(\s*reader\s*:\s*R\s*\)\s*->[^{]*\{\s*Reader::with_capacity\(\s*reader\s*,\s*BUFSIZE\s*\)\s*\}', src)
        if not m:
            raise TranslateError('const: Reader::new of %s not recognised' % name)
        out.append('')
    return '\n'.join(out) + '\n'


# --------------------------------------------------------------------------
# Display

ARGMAP = {
    'line': 'ArgLine',
    'self.line': 'ArgLine',
    '(found as char).escape_default()': 'ArgFoundEsc',
    'seq': 'ArgSeq',
    'qual': 'ArgQual',
    'pos': 'ArgPos',
    'id': 'ArgId',
}


def split_top_commas(s):
    parts = []
    depth = 0
    in_str = False
    cur = ''
    i = 0
    while i < len(s):
        c = s[i]
        if in_str:
            cur += c
            if c == '\\':
                cur += s[i + 1]
                i += 1
            elif c == '"':
                in_str = False
        else:
            if c == '"':
                in_str = True
                cur += c
            elif c in '([{':
                depth += 1
                cur += c
            elif c in ')]}':
                depth -= 1
                cur += c
            elif c == ',' and depth == 0:
                parts.append(cur.strip())
                cur = ''
            else:
                cur += c
        i += 1
    if cur.strip():
        parts.append(cur.strip())
    return parts


def find_writes(text):
    """all write!(f, "fmt", args..) calls in text, in order: (start, lits, args)"""
    res = []
    for m in re.finditer(r'write!\s*\(', text):
        end = match_brace(text, m.end() - 1, '(', ')')
        inner = text[m.end():end]
        parts = split_top_commas(inner)
        if len(parts) < 2 or parts[0] != 'f':
            raise TranslateError('display: write! target not f')
        fm = re.match(r'^"((?:[^"\\]|\\.)*)"$', parts[1], re.S)
        if not fm:
            raise TranslateError('display: format string not a literal')
        fmt = fm.group(1)
        # cut at {} holes; {{ and }} are literal braces; other {..} refused
        lits = []
        cur = ''
        i = 0
        while i < len(fmt):
            if fmt.startswith('{{', i):
                cur += '{'
                i += 2
            elif fmt.startswith('}}', i):
                cur += '}'
                i += 2
            elif fmt.startswith('{}', i):
                lits.append(cur)
                cur = ''
                i += 2
            elif fmt[i] in '{}':
                raise TranslateError('display: unsupported format hole in %r' % fmt)
            else:
                cur += fmt[i]
                i += 1
        lits.append(cur)
        args = []
        for a in parts[2:]:
            a = re.sub(r'\s+', ' ', a.strip())
            if a not in ARGMAP:
                raise TranslateError('display: unknown argument %r' % a)
            args.append(ARGMAP[a])
        if len(args) != len(lits) - 1:
            raise TranslateError('display: %d holes but %d arguments' % (len(lits) - 1, len(args)))
        res.append((m.start(), [rust_str_unescape(l) for l in lits], args))
    return res


def coq_writes(ws):
    items = []
    for _, lits, args in ws:
        items.append('([%s], [%s])' % ('; '.join(bytes_lit(l) for l in lits), '; '.join(args)))
    return '[' + ';\n   '.join(items) + ']'


def display_impl(src, ty):
    m = re.search(r'impl\s+fmt::Display\s+for\s+%s\s*\{' % ty, src)
    if not m:
        raise TranslateError('display: impl fmt::Display for %s not found' % ty)
    end = match_brace(src, m.end() - 1)
    return src[m.end():end]


def gen_display(fa, fq):
    out = ['(* GENERATED by tools/translate.py from /repo/src/fasta.rs and /repo/src/fastq.rs -- do not edit *)',
           'From SeqIO Require Import Model.Base Model.Display.', '']
    for prefix, src, variants in (
            ('fa', strip_comments(fa), ['Io', 'InvalidStart', 'BufferLimit']),
            ('fq', strip_comments(fq), ['Io', 'UnequalLengths', 'InvalidStart', 'InvalidSep', 'UnexpectedEnd', 'BufferLimit'])):
        body = display_impl(src, 'Error')
        arms = list(re.finditer(r'Error::(\w+)\s*(\{[^}]*\}|\([^)]*\))?\s*=>', body))
        seen = []
        defs = {}
        for k, am in enumerate(arms):
            v = am.group(1)
            seen.append(v)
            seg = body[am.end(): arms[k + 1].start() if k + 1 < len(arms) else len(body)]
            if v == 'Io':
                if not re.match(r'^\s*e\.fmt\(f\)\s*,', seg):
                    raise TranslateError('display: Io arm not recognised')
                continue
            ws = find_writes(seg)
            if len(ws) != 1:
                raise TranslateError('display: arm %s has %d write! calls' % (v, len(ws)))
            defs[v] = 'Definition %s_msg_%s : list (list (list byte) * list arg) :=\n  %s.' % (prefix, v, coq_writes(ws))
        # the arms of a match over distinct variants may come in any order: one arm per variant is what matters
        if sorted(seen) != sorted(variants) or len(set(seen)) != len(seen):
            raise TranslateError('display: %s error variants are %r, expected %r' % (prefix, seen, variants))
        for v in variants:
            if v in defs:
                out.append(defs[v])
        out.append('')
    # ErrorPosition
    body = display_impl(strip_comments(fq), 'ErrorPosition')
    m = re.search(r'if\s+let\s+Some\(id\)\s*=\s*self\.id\.as_ref\(\)\s*\{', body)
    if not m:
        raise TranslateError('display: ErrorPosition id branch not recognised')
    e = match_brace(body, m.end() - 1)
    inner = find_writes(body[m.end():e])
    rest = find_writes(body[e:])
    before = find_writes(body[:m.start()])
    if len(inner) != 1 or len(rest) != 1 or before:
        raise TranslateError('display: ErrorPosition shape not recognised')
    out.append('Definition fq_pos_with_id : list (list (list byte) * list arg) :=\n  %s.' % coq_writes(inner + rest))
    out.append('Definition fq_pos_without_id : list (list (list byte) * list arg) :=\n  %s.' % coq_writes(rest))
    return '\n'.join(out) + '\n'


# --------------------------------------------------------------------------
# serde

TYMAP = {
    'usize': 'TUsize',
    'Vec<u8>': 'TBytes',
    'Vec<usize>': 'TVecUsize',
    '(usize, usize)': 'TPairUsize',
    'Vec<BufferPosition>': 'TVecPos',
}


CANON_FIELDS = {
    ('fa', 'BufferPosition'): ['start', 'seq_pos'],
    ('fa', 'OwnedRecord'): ['head', 'seq'],
    ('fa', 'RecordSet'): ['buffer', 'positions', 'npos'],
    ('fq', 'BufferPosition'): ['pos', 'seq', 'sep', 'qual'],
    ('fq', 'OwnedRecord'): ['head', 'seq', 'qual'],
    ('fq', 'RecordSet'): ['buffer', 'buf_positions'],
}


def gen_serde(fa, fq):
    out = ['(* GENERATED by tools/translate.py from /repo/src/fasta.rs and /repo/src/fastq.rs -- do not edit *)',
           'From SeqIO Require Import Model.Base Model.Serde.', '']
    for prefix, src in (('fa', fa), ('fq', fq)):
        src = strip_comments(src)
        for st in ('BufferPosition', 'OwnedRecord', 'RecordSet'):
            m = re.search(r'((?:#\[[^\]]*\]\s*)*)(?:pub\s+)?struct\s+%s\s*\{' % st, src)
            if not m:
                raise TranslateError('serde: struct %s not found in %s' % (st, prefix))
            attrs = m.group(1)
            derives = re.findall(r'#\[derive\(([^)]*)\)\]', attrs)
            dl = [d.strip() for ds in derives for d in ds.split(',')]
            container_attrs = re.findall(r'#\[serde\(([^\]]*)\)\]', attrs)
            end = match_brace(src, m.end() - 1)
            body = src[m.end():end]
            fields = []
            pending = []
            for part in split_top_commas(body):
                part = part.strip()
                if not part:
                    continue
                fa_ = re.findall(r'#\[([^\]]*)\]', part)
                decl = re.sub(r'#\[[^\]]*\]', '', part).strip()
                fm = re.match(r'^(?:pub\s+)?(\w+)\s*:\s*(.+)$', decl, re.S)
                if not fm:
                    raise TranslateError('serde: field %r of %s not recognised' % (part, st))
                ty = re.sub(r'\s+', ' ', fm.group(2).strip())
                if ty not in TYMAP:
                    raise TranslateError('serde: field type %r not recognised' % ty)
                sattrs = [a for a in fa_ if a.strip().startswith('serde')]
                fields.append((fm.group(1), TYMAP[ty], sattrs))
            # serde's derived (de)serialisers use one and the same declaration order on both sides (and
            # self-describing formats identify fields by name), so a round trip does not depend on that order.
            # The generated schema lists the fields in the order the hand-written encoders of Model/Serde.v use
            # (the order at the time the model was written); fields the model does not know come last, in
            # source order, and then make the theorems over this schema fail, as they must.
            canon = CANON_FIELDS.get((prefix, st), [])
            fields.sort(key=lambda f: (canon.index(f[0]) if f[0] in canon else len(canon)))
            fl = '; '.join('(%s, %s, %s)' % (bytes_lit(n.encode()), t, 'true' if a else 'false')
                           for n, t, a in fields)
            out.append('Definition %s_%s_schema : schema :=' % (prefix, st))
            out.append('  mkSchema %s %s %s\n    [%s].' % (
                'true' if 'Serialize' in dl else 'false',
                'true' if 'Deserialize' in dl else 'false',
                'true' if container_attrs else 'false', fl))
        out.append('')
    return '\n'.join(out) + '\n'


# --------------------------------------------------------------------------
# straight-line writers

CALLMAP_FA = {
    'write_head': 'gen_fa_write_head',
    'write_id_desc': 'gen_fa_write_id_desc',
    'write_seq': 'gen_fa_write_seq',
    'write_wrap_seq': 'w_wrap_seq',          # hand-modelled loop (Model/WrapLoops.v)
}


def gen_writer_fn(src, fname, coqname, params, callmap):
    m = re.search(r'pub\s+fn\s+%s\s*<[^{]*?\(\s*((?:[^()]|\([^()]*\))*)\)\s*->\s*io::Result<\(\)>[^{]*\{' % fname, src, re.S)
    if not m:
        raise TranslateError('writer: fn %s not found' % fname)
    sig = re.sub(r'\s+', ' ', m.group(1))
    names = [p.split(':')[0].replace('mut', '').strip() for p in split_top_commas(sig)]
    if names != ['writer'] + [p[0] for p in params]:
        raise TranslateError('writer: parameters of %s are %r' % (fname, names))
    end = match_brace(src, m.end() - 1)
    body = src[m.end():end]

    def helper_terms(name, args, depth):
        """a call of a helper function of the same file that is not one of the known writers (e.g. a private function
        holding the common tail of two writers): its body is translated in place, parameters replaced by the arguments"""
        if depth > 3:
            raise TranslateError('writer: helper calls nested too deeply at %s in %s' % (name, fname))
        hm = re.search(r'(?:pub\s+)?fn\s+%s\s*<[^{]*?\(\s*((?:[^()]|\([^()]*\))*)\)\s*->\s*io::Result<\(\)>[^{]*\{' % name, src, re.S)
        if not hm:
            raise TranslateError('writer: unknown call %r in %s' % (name, fname))
        hsig = re.sub(r'\s+', ' ', hm.group(1))
        hnames = [q.split(':')[0].replace('mut', '').strip() for q in split_top_commas(hsig)]
        if not hnames or hnames[0] != 'writer' or len(hnames) != len(args) + 1:
            raise TranslateError('writer: helper %s called from %s with unexpected parameters %r' % (name, fname, hnames))
        hend = match_brace(src, hm.end() - 1)
        return stmts(src[hm.end():hend], dict(zip(hnames[1:], args)), depth + 1)

    def stmts(text, rename=None, depth=0):
        """returns list of coq terms to be appended"""
        terms = []
        i = 0
        text = text.strip()
        known = [p[0] for p in params] + ['d']
        if rename is not None:
            known = list(rename) + ['d']
        ren = (lambda x: rename.get(x, x)) if rename is not None else (lambda x: x)
        while text:
            mm = re.match(r'^writer\.write_all\(\s*b"((?:[^"\\]|\\.)*)"\s*\)\s*(\?\s*;|$)', text)
            if mm:
                terms.append(bytes_lit(rust_str_unescape(mm.group(1))))
                text = text[mm.end():].strip()
                continue
            mm = re.match(r'^writer\.write_all\(\s*(\w+)\s*\)\s*(\?\s*;|$)', text)
            if mm:
                if mm.group(1) not in known:
                    raise TranslateError('writer: unknown operand %r in %s' % (mm.group(1), fname))
                terms.append(ren(mm.group(1)))
                text = text[mm.end():].strip()
                continue
            mm = re.match(r'^if\s+let\s+Some\(d\)\s*=\s*desc\s*\{', text)
            if mm:
                e = match_brace(text, mm.end() - 1)
                inner = stmts(text[mm.end():e], rename, depth)
                terms.append('(match %s with Some d => %s | None => [] end)' % (ren('desc'), ' ++ '.join(inner)))
                text = text[e + 1:].strip()
                continue
            mm = re.match(r'^(\w+)\(\s*&mut writer\s*((?:,\s*\w+\s*)*)\)\s*(\?\s*;|$)', text)
            if mm:
                args = [ren(a.strip()) for a in mm.group(2).split(',') if a.strip()]
                if mm.group(1) not in callmap:
                    terms.extend(helper_terms(mm.group(1), args, depth))
                else:
                    terms.append('(%s %s)' % (callmap[mm.group(1)], ' '.join(args)))
                text = text[mm.end():].strip()
                continue
            mm = re.match(r'^Ok\(\(\)\)$', text)
            if mm:
                text = ''
                continue
            raise TranslateError('writer: statement not recognised in %s: %r' % (fname, text[:60]))
        return terms

    terms = stmts(body)
    ps = ' '.join('(%s : %s)' % p for p in params)
    return 'Definition %s %s : list byte :=\n  %s.' % (coqname, ps, ' ++ '.join(terms) if terms else '[]')


def gen_write(fa, fq):
    fa = strip_comments(fa)
    fq = strip_comments(fq)
    B = 'list byte'
    O = 'option (list byte)'
    out = ['(* GENERATED by tools/translate.py from /repo/src/fasta.rs and /repo/src/fastq.rs -- do not edit *)',
           'From SeqIO Require Import Model.Base Model.WrapLoops.', '']
    out.append(gen_writer_fn(fa, 'write_head', 'gen_fa_write_head', [('head', B)], CALLMAP_FA))
    out.append(gen_writer_fn(fa, 'write_id_desc', 'gen_fa_write_id_desc', [('id', B), ('desc', O)], CALLMAP_FA))
    out.append(gen_writer_fn(fa, 'write_seq', 'gen_fa_write_seq', [('seq', B)], CALLMAP_FA))
    out.append(gen_writer_fn(fa, 'write_to', 'gen_fa_write_to', [('head', B), ('seq', B)], CALLMAP_FA))
    out.append(gen_writer_fn(fa, 'write_parts', 'gen_fa_write_parts', [('id', B), ('desc', O), ('seq', B)], CALLMAP_FA))
    out.append(gen_writer_fn(fa, 'write_wrap', 'gen_fa_write_wrap', [('id', B), ('desc', O), ('seq', B), ('wrap', 'nat')], CALLMAP_FA))
    out.append('')
    out.append(gen_writer_fn(fq, 'write_to', 'gen_fq_write_to', [('head', B), ('seq', B), ('qual', B)], {}))
    out.append(gen_writer_fn(fq, 'write_parts', 'gen_fq_write_parts', [('id', B), ('desc', O), ('seq', B), ('qual', B)], {}))
    return '\n'.join(out) + '\n'


# --------------------------------------------------------------------------

def main():
    repo = sys.argv[1] if len(sys.argv) > 1 else '/repo'
    outdir = sys.argv[2] if len(sys.argv) > 2 else os.path.join(os.path.dirname(os.path.abspath(__file__)), '..', 'coq', 'theories', 'Gen')
    rd = lambda f: open(os.path.join(repo, 'src', f)).read()
    fa, fq, pol = rd('fasta.rs'), rd('fastq.rs'), rd('policy.rs')
    files = {}
    errors = []
    for name, fn in (('PolicyGen.v', lambda: gen_policy(pol)),
                     ('ConstGen.v', lambda: gen_const(fa, fq)),
                     ('DisplayGen.v', lambda: gen_display(fa, fq)),
                     ('SerdeGen.v', lambda: gen_serde(fa, fq)),
                     ('WriteGen.v', lambda: gen_write(fa, fq))):
        try:
            files[name] = fn()
        except TranslateError as e:
            errors.append('%s: %s' % (name, e))
    os.makedirs(outdir, exist_ok=True)
    changed = []
    for name, text in files.items():
        p = os.path.join(outdir, name)
        old = open(p).read() if os.path.exists(p) else None
        if old != text:
            open(p, 'w').write(text)
            changed.append(name)
    for e in errors:
        print('TRANSLATE-ERROR ' + e)
    print('translate: %d files, changed: %s' % (len(files), ','.join(changed) or 'none'))
    return 1 if errors else 0


if __name__ == '__main__':
    sys.exit(main())
