#!/usr/bin/env python3
"""Translator for the imperative core of the seq_io readers.

usage: translate_core.py <repo dir> <out dir>      (writes <out dir>/CoreGen.v)

Reads src/{lib,fasta,fastq}.rs, parses the bodies of the reader methods (tables in section 7) with a small
recursive-descent parser for the Rust subset that occurs in them, and turns every body into a Gallina
definition over the state records of the hand-written model (Model/Fasta.v, Model/Fastq.v, Model/Base.v) by
symbolic execution in continuation-passing style.  coq/core/CoreGenP.v then proves every generated
definition equal to the hand-written model function.

Strict by design: anything that is not recognised raises TranslateError; the program then prints a line
`TRANSLATE-CORE-ERROR ...` and exits with code 1.  See coq/core/README.md for the conventions.

  1. lexer                     5. configuration: formats, result types (Abi), methods (M)
  2. items of a source file    6. symbolic execution (Exec)
  3. parser (Rust subset)      7. method tables, fixed prelude of CoreGen.v, environment checks, driver
  4. symbolic values
"""
import hashlib
import os
import re
import sys


class TranslateError(Exception):
    pass


def err(msg):
    raise TranslateError(msg)


# ==========================================================================
# 1. Lexer
# ==========================================================================

TOKEN_RE = re.compile(r'''
    (?P<ws>\s+)
  | (?P<lc>//[^\n]*)
  | (?P<bc>/\*.*?\*/)
  | (?P<byte>b'(?:\\.|[^'\\])')
  | (?P<bstr>b"(?:\\.|[^"\\])*")
  | (?P<str>"(?:\\.|[^"\\])*")
  | (?P<chr>'(?:\\.|[^'\\])')
  | (?P<life>'[A-Za-z_][A-Za-z_0-9]*)
  | (?P<num>\d[\d_]*(?:usize|u64|i64|u8|u32|i32)?)
  | (?P<id>[A-Za-z_][A-Za-z_0-9]*)
  | (?P<p>::|->|=>|==|!=|<=|>=|&&|\|\||\+=|-=|\.\.|[-+*/%!&|<>=.,;:(){}\[\]\#?@$^])
''', re.S | re.X)


class Tok:
    __slots__ = ('k', 's', 'pos')

    def __init__(self, k, s, pos):
        self.k, self.s, self.pos = k, s, pos

    def __repr__(self):
        return '%s:%r' % (self.k, self.s)


def lex(src):
    toks = []
    i = 0
    n = len(src)
    while i < n:
        m = TOKEN_RE.match(src, i)
        if not m:
            err('lexer: cannot tokenize at %r' % src[i:i + 30])
        k = m.lastgroup
        if k not in ('ws', 'lc', 'bc'):
            toks.append(Tok(k, m.group(k), i))
        i = m.end()
    return toks


BYTE_ESC = {'n': 10, 'r': 13, 't': 9, '\\': 92, "'": 39, '"': 34, '0': 0}


def byte_value(s):
    inner = s[2:-1]
    if inner.startswith('\\'):
        if inner[1] not in BYTE_ESC or len(inner) != 2:
            err('byte literal %s not recognised' % s)
        return BYTE_ESC[inner[1]]
    if len(inner) != 1 or ord(inner) > 127:
        err('byte literal %s not recognised' % s)
    return ord(inner)


# ==========================================================================
# 2. Items: impl blocks, fns, enums, structs, macros
# ==========================================================================

def match_close(toks, i):
    """toks[i] is an opening ( [ {; returns the index of the matching close."""
    pairs = {'(': ')', '[': ']', '{': '}'}
    o = toks[i].s
    c = pairs[o]
    depth = 0
    j = i
    while j < len(toks):
        t = toks[j]
        if t.k == 'p':
            if t.s == o:
                depth += 1
            elif t.s == c:
                depth -= 1
                if depth == 0:
                    return j
        j += 1
    err('unbalanced %s' % o)


def skip_generics(toks, i):
    """toks[i] == '<': returns index after the matching '>'."""
    depth = 0
    j = i
    while j < len(toks):
        t = toks[j]
        if t.k == 'p' and t.s == '<':
            depth += 1
        elif t.k == 'p' and t.s == '>':
            depth -= 1
            if depth == 0:
                return j + 1
        j += 1
    err('unbalanced <')


class Fn:
    def __init__(self, name, sig, body, owner):
        self.name = name
        self.sig = sig      # tokens between name and body '{'
        self.body = body    # tokens of the body without the outer braces
        self.owner = owner


class Items:
    """top-level view of one source file"""

    def __init__(self, fname, src):
        self.fname = fname
        self.toks = lex(src)
        self.impls = []      # (trait or None, type name, [Fn])
        self.fns = {}        # free functions
        self.enums = {}      # name -> (derives, [variants])
        self.structs = {}    # name -> [(field, type string)]
        self.macros = {}     # name -> token text
        self.scan()

    def scan(self):
        toks = self.toks
        i = 0
        pending_attrs = []
        while i < len(toks):
            t = toks[i]
            if t.k == 'p' and t.s == '#':
                # attribute #[...] or #![...]
                j = i + 1
                if toks[j].s == '!':
                    j += 1
                e = match_close(toks, j)
                pending_attrs.append(' '.join(x.s for x in toks[j + 1:e]))
                i = e + 1
                continue
            if t.k == 'id' and t.s == 'impl':
                j = i + 1
                if toks[j].s == '<':
                    j = skip_generics(toks, j)
                k = j
                while not (toks[k].k == 'p' and toks[k].s == '{'):
                    k += 1
                header = toks[j:k]
                # cut a where clause
                hs = [x.s for x in header]
                if 'where' in hs:
                    hs = hs[:hs.index('where')]
                if 'for' in hs:
                    f = hs.index('for')
                    trait = hs[0] if hs[0] != 'fmt' else ''.join(hs[:f])
                    ty = hs[f + 1]
                else:
                    trait = None
                    ty = hs[0]
                e = match_close(toks, k)
                self.impls.append((trait, ty, self.scan_fns(k + 1, e, ty)))
                i = e + 1
                pending_attrs = []
                continue
            if t.k == 'id' and t.s == 'fn':
                fn, i = self.scan_fn(i, None)
                if fn.name in self.fns:
                    err('%s: duplicate free fn %s' % (self.fname, fn.name))
                self.fns[fn.name] = fn
                pending_attrs = []
                continue
            if t.k == 'id' and t.s == 'enum':
                name = toks[i + 1].s
                j = i + 2
                while toks[j].s != '{':
                    j += 1
                e = match_close(toks, j)
                variants = []
                k = j + 1
                while k < e:
                    if toks[k].s == '#':
                        k = match_close(toks, k + 1) + 1
                        continue
                    if toks[k].k == 'id':
                        variants.append(toks[k].s)
                        k += 1
                        if toks[k].s in ('{', '('):
                            k = match_close(toks, k) + 1
                        if k < e and toks[k].s == ',':
                            k += 1
                        continue
                    err('%s: enum %s not recognised' % (self.fname, name))
                self.enums[name] = (list(pending_attrs), variants)
                i = e + 1
                pending_attrs = []
                continue
            if t.k == 'id' and t.s == 'struct':
                name = toks[i + 1].s
                j = i + 2
                while toks[j].s not in ('{', ';', '('):
                    j += 1
                if toks[j].s == '{':
                    e = match_close(toks, j)
                    fields = []
                    k = j + 1
                    while k < e:
                        if toks[k].s == '#':
                            k = match_close(toks, k + 1) + 1
                            continue
                        if toks[k].s == 'pub':
                            k += 1
                            if toks[k].s == '(':
                                k = match_close(toks, k) + 1
                            continue
                        if toks[k].k == 'id' and toks[k + 1].s == ':':
                            fname = toks[k].s
                            k += 2
                            ty = []
                            depth = 0
                            while k < e and not (toks[k].s == ',' and depth == 0):
                                if toks[k].s in ('<', '('):
                                    depth += 1
                                elif toks[k].s in ('>', ')'):
                                    depth -= 1
                                ty.append(toks[k].s)
                                k += 1
                            fields.append((fname, ' '.join(ty)))
                            k += 1
                            continue
                        err('%s: struct %s not recognised' % (self.fname, name))
                    self.structs[name] = fields
                    i = e + 1
                elif toks[j].s == '(':
                    e = match_close(toks, j)
                    i = e + 1
                else:
                    i = j + 1
                pending_attrs = []
                continue
            if t.k == 'id' and t.s == 'macro_rules':
                name = toks[i + 2].s
                j = i + 3
                e = match_close(toks, j)
                self.macros[name] = ' '.join(x.s for x in toks[j + 1:e])
                i = e + 1
                pending_attrs = []
                continue
            if t.k == 'p' and t.s == '{':
                # some other braced item (trait, mod, ...): skip it
                i = match_close(toks, i) + 1
                pending_attrs = []
                continue
            if t.k == 'p' and t.s == ';':
                pending_attrs = []
            i += 1

    def scan_fns(self, a, b, owner):
        toks = self.toks
        fns = []
        i = a
        while i < b:
            t = toks[i]
            if t.k == 'id' and t.s == 'fn':
                fn, i = self.scan_fn(i, owner)
                fns.append(fn)
                continue
            if t.k == 'p' and t.s == '{':
                i = match_close(toks, i) + 1
                continue
            i += 1
        return fns

    def scan_fn(self, i, owner):
        toks = self.toks
        name = toks[i + 1].s
        j = i + 2
        while not (toks[j].k == 'p' and toks[j].s in ('{', ';')):
            if toks[j].s in ('(', '['):
                j = match_close(toks, j)
            j += 1
        if toks[j].s == ';':
            return Fn(name, toks[i + 2:j], None, owner), j + 1
        e = match_close(toks, j)
        return Fn(name, toks[i + 2:j], toks[j + 1:e], owner), e + 1

    def method(self, ty, name):
        """the method `name` of the inherent impls of `ty`"""
        found = [f for (trait, t, fns) in self.impls if trait is None and t == ty
                 for f in fns if f.name == name]
        if len(found) != 1:
            err('%s: expected exactly one inherent method %s::%s, found %d' % (self.fname, ty, name, len(found)))
        if found[0].body is None:
            err('%s: %s::%s has no body' % (self.fname, ty, name))
        return found[0]

    def free_fn(self, name):
        if name not in self.fns:
            err('%s: free fn %s not found' % (self.fname, name))
        return self.fns[name]


# ==========================================================================
# 3. Parser for function signatures and bodies (Rust subset)
# ==========================================================================
#
# Expressions are tuples (tag, ..., nid) for nodes that can panic or bind;
# see the constructors below.

class Parser:
    def __init__(self, toks, what):
        self.t = toks
        self.i = 0
        self.what = what
        self.nid = 0

    # -- token helpers
    def peek(self, o=0):
        j = self.i + o
        return self.t[j] if j < len(self.t) else None

    def at(self, s, o=0):
        t = self.peek(o)
        return t is not None and t.k in ('p', 'id') and t.s == s

    def eat(self, s=None):
        t = self.peek()
        if t is None or (s is not None and t.s != s):
            self.fail('expected %r, got %r' % (s, t.s if t else None))
        self.i += 1
        return t

    def fail(self, msg):
        ctx = ' '.join(x.s for x in self.t[max(0, self.i - 6):self.i + 6])
        err('%s: parse error: %s (near `%s`)' % (self.what, msg, ctx))

    def fresh(self):
        self.nid += 1
        return self.nid

    def done(self):
        return self.i >= len(self.t)

    # -- types: kept as normalised strings
    def type_(self, stop=(',', ')', '{', '=', ';')):
        out = []
        depth = 0
        while not self.done():
            t = self.peek()
            if depth == 0 and t.k == 'p' and t.s in stop:
                break
            if depth == 0 and t.k == 'id' and t.s == 'where':
                break
            if t.s in ('<', '(', '['):
                depth += 1
            elif t.s in ('>', ')', ']'):
                if depth == 0:
                    break
                depth -= 1
            out.append(t.s)
            self.i += 1
        if not out:
            self.fail('type expected')
        return ' '.join(out)

    # -- signature: [<generics>] ( params ) [-> type] [where ...]
    def signature(self):
        if self.at('<'):
            depth = 0
            while True:
                t = self.eat()
                if t.s == '<':
                    depth += 1
                elif t.s == '>':
                    depth -= 1
                    if depth == 0:
                        break
        self.eat('(')
        params = []
        selfkind = None
        while not self.at(')'):
            if self.at('&'):
                self.eat('&')
                if self.peek().k == 'life':
                    self.eat()
                if self.at('mut'):
                    self.eat('mut')
                    self.eat('self')
                    selfkind = '&mut'
                else:
                    self.eat('self')
                    selfkind = '&'
            elif self.at('self'):
                self.eat('self')
                selfkind = 'own'
            elif self.at('mut') and self.at('self', 1):
                self.eat('mut')
                self.eat('self')
                selfkind = 'own'
            else:
                mut = False
                if self.at('mut'):
                    self.eat('mut')
                    mut = True
                name = self.eat()
                if name.k != 'id':
                    self.fail('parameter name expected')
                self.eat(':')
                ty = self.type_(stop=(',', ')'))
                params.append((name.s, ty, mut))
            if self.at(','):
                self.eat(',')
        self.eat(')')
        ret = '()'
        if self.at('->'):
            self.eat('->')
            ret = self.type_(stop=('{',))
        # where clause: ignored (type bounds)
        return selfkind, params, ret

    # -- blocks and statements
    def block_body(self):
        """statements up to the end of the token list or a closing brace (not consumed)"""
        stmts = []
        tail = None
        while not self.done() and not self.at('}'):
            if self.at(';'):
                self.eat(';')
                continue
            if self.at('let'):
                self.eat('let')
                mut = False
                if self.at('mut'):
                    self.eat('mut')
                    mut = True
                pat = self.pattern()
                if self.at(':'):
                    self.eat(':')
                    self.type_(stop=('=', ';'))
                self.eat('=')
                e = self.expr()
                self.eat(';')
                stmts.append(('let', pat, mut, e))
                continue
            e = self.expr(stmt=True)
            if self.at(';'):
                self.eat(';')
                stmts.append(('expr', e))
            elif self.done() or self.at('}'):
                tail = e
            elif e[0] in ('if', 'match', 'loop', 'while', 'for', 'block'):
                stmts.append(('expr', e))
            else:
                self.fail('`;` expected')
        return ('block', stmts, tail)

    def block(self):
        self.eat('{')
        b = self.block_body()
        self.eat('}')
        return b

    # -- patterns
    def pattern(self):
        p = self.pattern1()
        if self.at('|'):
            alts = [p]
            while self.at('|'):
                self.eat('|')
                alts.append(self.pattern1())
            return ('por', alts)
        return p

    def pattern1(self):
        t = self.peek()
        if t.k == 'p' and t.s == '&':
            self.eat('&')
            return ('pref', self.pattern1())
        if t.k == 'p' and t.s == '(':
            self.eat('(')
            ps = []
            while not self.at(')'):
                ps.append(self.pattern())
                if self.at(','):
                    self.eat(',')
            self.eat(')')
            return ('ptuple', ps)
        if t.k == 'num':
            self.eat()
            return ('pnum', int(re.match(r'[\d_]+', t.s).group(0).replace('_', '')))
        if t.k == 'byte':
            self.eat()
            return ('pbyte', byte_value(t.s))
        if t.k == 'id':
            if t.s == '_':
                self.eat()
                return ('pwild',)
            if t.s == 'ref':
                self.eat()
                if self.at('mut'):
                    self.eat()
                n = self.eat()
                return ('pbind', n.s)
            if t.s == 'mut':
                self.eat()
                n = self.eat()
                return ('pbind', n.s)
            path = self.path()
            if self.at('('):
                self.eat('(')
                ps = []
                while not self.at(')'):
                    ps.append(self.pattern())
                    if self.at(','):
                        self.eat(',')
                self.eat(')')
                return ('pts', path, ps)
            if len(path) == 1 and (path[0][0].islower() or path[0][0] == '_'):
                return ('pbind', path[0])
            return ('ppath', path)
        self.fail('pattern expected')

    def path(self):
        segs = [self.eat().s]
        while self.at('::'):
            self.eat('::')
            t = self.eat()
            if t.k != 'id':
                self.fail('path segment expected')
            segs.append(t.s)
        return segs

    # -- expressions
    def expr(self, stmt=False, nostruct=False):
        return self.assign(stmt, nostruct)

    def assign(self, stmt, nostruct):
        t = self.peek()
        if t.k == 'id' and t.s == 'return':
            self.eat()
            if self.at(';') or self.at('}') or self.at(','):
                return ('return', None)
            return ('return', self.expr(nostruct=nostruct))
        if t.k == 'id' and t.s == 'break':
            self.eat()
            return ('break',)
        if t.k == 'id' and t.s == 'continue':
            self.eat()
            return ('continue',)
        l = self.lor(stmt, nostruct)
        if self.at('=') or self.at('+=') or self.at('-='):
            op = self.eat().s
            r = self.expr(nostruct=nostruct)
            return ('assign', op, l, r, self.fresh())
        return l

    def lor(self, stmt, nostruct):
        a = self.land(stmt, nostruct)
        while self.at('||'):
            self.eat()
            b = self.land(False, nostruct)
            a = ('binary', '||', a, b, self.fresh())
        return a

    def land(self, stmt, nostruct):
        a = self.cmp(stmt, nostruct)
        while self.at('&&'):
            self.eat()
            b = self.cmp(False, nostruct)
            a = ('binary', '&&', a, b, self.fresh())
        return a

    def cmp(self, stmt, nostruct):
        a = self.add(stmt, nostruct)
        if stmt and a[0] in ('if', 'match', 'loop', 'while', 'for', 'block'):
            return a
        t = self.peek()
        if t is not None and t.k == 'p' and t.s in ('==', '!=', '<', '>', '<=', '>='):
            op = self.eat().s
            b = self.add(False, nostruct)
            return ('binary', op, a, b, self.fresh())
        return a

    def add(self, stmt, nostruct):
        a = self.mul(stmt, nostruct)
        if stmt and a[0] in ('if', 'match', 'loop', 'while', 'for', 'block'):
            return a
        while True:
            t = self.peek()
            if t is not None and t.k == 'p' and t.s in ('+', '-'):
                op = self.eat().s
                b = self.mul(False, nostruct)
                a = ('binary', op, a, b, self.fresh())
            else:
                return a

    def mul(self, stmt, nostruct):
        a = self.cast(stmt, nostruct)
        if stmt and a[0] in ('if', 'match', 'loop', 'while', 'for', 'block'):
            return a
        while True:
            t = self.peek()
            if t is not None and t.k == 'p' and t.s in ('*', '/', '%'):
                self.fail('operator %s is not supported' % t.s)
            return a

    def cast(self, stmt, nostruct):
        a = self.unary(stmt, nostruct)
        while self.at('as'):
            self.eat('as')
            ty = self.eat().s
            a = ('cast', a, ty)
        return a

    def unary(self, stmt, nostruct):
        t = self.peek()
        if t.k == 'p' and t.s == '!':
            self.eat()
            return ('unary', '!', self.unary(False, nostruct))
        if t.k == 'p' and t.s == '*':
            self.eat()
            return ('unary', '*', self.unary(False, nostruct))
        if t.k == 'p' and t.s == '&':
            self.eat()
            if self.at('mut'):
                self.eat()
                return ('unary', '&mut', self.unary(False, nostruct))
            return ('unary', '&', self.unary(False, nostruct))
        if t.k == 'p' and t.s == '-':
            self.fail('unary minus is not supported')
        return self.postfix(stmt, nostruct)

    def args(self):
        self.eat('(')
        a = []
        while not self.at(')'):
            a.append(self.expr())
            if self.at(','):
                self.eat(',')
        self.eat(')')
        return a

    def postfix(self, stmt, nostruct):
        e = self.primary(stmt, nostruct)
        if stmt and e[0] in ('if', 'match', 'loop', 'while', 'for', 'block'):
            # a block-like expression statement ends here
            return e
        while True:
            if self.at('.'):
                self.eat('.')
                t = self.eat()
                if t.k == 'num':
                    e = ('field', e, t.s)
                elif t.k == 'id':
                    if self.at('('):
                        a = self.args()
                        e = ('mcall', e, t.s, a, self.fresh())
                    else:
                        e = ('field', e, t.s)
                else:
                    self.fail('field or method name expected')
            elif self.at('('):
                a = self.args()
                e = ('call', e, a, self.fresh())
            elif self.at('['):
                self.eat('[')
                lo = None
                if not self.at('..'):
                    lo = self.expr()
                if self.at('..'):
                    self.eat('..')
                    hi = None
                    if not self.at(']'):
                        hi = self.expr()
                    idx = ('range', lo, hi)
                else:
                    idx = lo
                self.eat(']')
                e = ('index', e, idx, self.fresh())
            elif self.at('?'):
                self.eat('?')
                e = ('try', e, self.fresh())
            else:
                return e

    def primary(self, stmt, nostruct):
        t = self.peek()
        if t is None:
            self.fail('expression expected')
        if t.k == 'num':
            self.eat()
            return ('num', int(re.match(r'[\d_]+', t.s).group(0).replace('_', '')))
        if t.k == 'byte':
            self.eat()
            return ('byte', byte_value(t.s))
        if t.k == 'bstr':
            self.eat()
            return ('bstr', t.s)
        if t.k == 'p' and t.s == '(':
            self.eat('(')
            if self.at(')'):
                self.eat(')')
                return ('unit',)
            e = self.expr()
            if self.at(','):
                es = [e]
                while self.at(','):
                    self.eat(',')
                    if self.at(')'):
                        break
                    es.append(self.expr())
                self.eat(')')
                return ('tuple', es)
            self.eat(')')
            return ('paren', e)
        if t.k == 'p' and t.s == '{':
            return self.block()
        if t.k == 'p' and t.s == '|':
            self.eat('|')
            ps = []
            while not self.at('|'):
                ps.append(self.pattern1())
                if self.at(','):
                    self.eat(',')
            self.eat('|')
            return ('closure', ps, self.expr())
        if t.k == 'id':
            if t.s == 'if':
                return self.if_()
            if t.s == 'match':
                self.eat()
                scrut = self.expr(nostruct=True)
                self.eat('{')
                arms = []
                while not self.at('}'):
                    pat = self.pattern()
                    guard = None
                    if self.at('if'):
                        self.eat('if')
                        guard = self.expr(nostruct=True)
                    self.eat('=>')
                    if self.at('{'):
                        body = self.block()
                        if self.at(','):
                            self.eat(',')
                    else:
                        body = self.expr()
                        if not self.at('}'):
                            self.eat(',')
                    arms.append((pat, guard, body))
                self.eat('}')
                return ('match', scrut, arms, self.fresh())
            if t.s == 'loop':
                self.eat()
                return ('loop', self.block(), self.fresh())
            if t.s == 'while':
                self.eat()
                c = self.cond()
                return ('while', c, self.block(), self.fresh())
            if t.s == 'for':
                self.eat()
                pat = self.pattern()
                self.eat('in')
                it = self.expr(nostruct=True)
                return ('for', pat, it, self.block(), self.fresh())
            if t.s == 'true':
                self.eat()
                return ('bool', True)
            if t.s == 'false':
                self.eat()
                return ('bool', False)
            path = self.path()
            if self.at('!'):
                # macro call
                self.eat('!')
                if not self.at('('):
                    self.fail('macro call with ( expected')
                self.eat('(')
                a = []
                while not self.at(')'):
                    if self.at('{'):
                        a.append(self.block())
                    else:
                        a.append(self.expr())
                    if self.at(','):
                        self.eat(',')
                self.eat(')')
                return ('macro', path[0], a, self.fresh())
            if self.at('{') and not nostruct and path[-1][0].isupper():
                self.eat('{')
                fs = []
                while not self.at('}'):
                    fname = self.eat()
                    if fname.k != 'id':
                        self.fail('field name expected')
                    if self.at(':'):
                        self.eat(':')
                        fs.append((fname.s, self.expr()))
                    else:
                        fs.append((fname.s, ('path', [fname.s])))
                    if self.at(','):
                        self.eat(',')
                self.eat('}')
                return ('struct', path, fs)
            return ('path', path)
        self.fail('expression expected, got %r' % t.s)

    def cond(self):
        if self.at('let'):
            self.eat('let')
            pat = self.pattern()
            self.eat('=')
            e = self.expr(nostruct=True)
            return ('letcond', pat, e)
        return self.expr(nostruct=True)

    def if_(self):
        self.eat('if')
        c = self.cond()
        th = self.block()
        el = None
        if self.at('else'):
            self.eat('else')
            if self.at('if'):
                el = ('block', [], self.if_())
            else:
                el = self.block()
        return ('if', c, th, el, self.fresh())


def parse_fn(fn, what):
    p = Parser(fn.sig, what + ' signature')
    selfkind, params, ret = p.signature()
    b = Parser(fn.body, what)
    body = b.block_body()
    if not b.done():
        b.fail('trailing tokens')
    return selfkind, params, ret, body




# ==========================================================================
# 4. Values of the symbolic execution
# ==========================================================================
#
# Types: 'nat' 'Z' 'bool' 'bytes' 'listnat' 'state' 'stage' 'ioerr' 'err'
#        'policy' 'unit' ('option', ty) 'kind'

class T:
    """an opaque Gallina term of a known type"""

    def __init__(self, s, ty, defn=None):
        self.s, self.ty = s, ty
        self.defn = defn if defn is not None else s    # the term a let-bound name stands for

    def __repr__(self):
        return 'T(%s : %s)' % (self.s, self.ty)


class VNum:
    def __init__(self, n):
        self.n = n


class VSome:
    def __init__(self, v):
        self.v = v


class VNone:
    pass


class VOk:
    def __init__(self, v):
        self.v = v


class VErr:
    def __init__(self, v):
        self.v = v


class VUnit:
    pass


class VTuple:
    def __init__(self, vs):
        self.vs = vs


class VStruct:
    def __init__(self, name, fields):
        self.name, self.fields = name, fields


class VIoErr:
    """an io::Error: `interrupted` is True/False (known kind) with payload term k"""

    def __init__(self, k, interrupted):
        self.k, self.interrupted = k, interrupted


class VKindOf:
    """e.kind() of a VIoErr"""

    def __init__(self, e):
        self.e = e


class VKindConst:
    def __init__(self, name):
        self.name = name


COQ_TY = {'nat': 'nat', 'Z': 'Z', 'bool': 'bool', 'bytes': 'list byte', 'listnat': 'list nat',
          'stage': 'stage', 'policy': 'policy', 'fa_set': 'fa_set', 'fq_set': 'fq_set'}


def coq_ty(ty):
    if isinstance(ty, tuple) and ty[0] == 'option':
        return 'option %s' % paren(coq_ty(ty[1]))
    if isinstance(ty, tuple) and ty[0] == 'tuple':
        return ' * '.join(paren(coq_ty(t)) for t in ty[1])
    if ty in COQ_TY:
        return COQ_TY[ty]
    err('no Gallina type for %r' % (ty,))


def paren(s):
    """parenthesise s for use as an argument of an application"""
    s = s.strip()
    if re.match(r'^[A-Za-z_0-9\'.]+$', s) or (s.startswith('(') and match_paren_all(s)) or (s.startswith('[') and s.endswith(']') and '[' not in s[1:]):
        return s
    return '(' + s + ')'


def opnd(s):
    """parenthesise s for use as an operand of an infix operator: applications need no parentheses"""
    s = s.strip()
    if re.match(r'^(if|match|let|fun)\b', s):
        return '(' + s + ')'
    d = 0
    for c in s:
        if c in '([':
            d += 1
        elif c in ')]':
            d -= 1
        elif d == 0 and c in '+-<>=?:&|%,;':
            return paren(s)
    return s


def match_paren_all(s):
    """s starts with '(' : does the matching ')' close the whole string?"""
    d = 0
    for i, c in enumerate(s):
        if c == '(':
            d += 1
        elif c == ')':
            d -= 1
            if d == 0:
                return i == len(s) - 1
    return False


def subst_ph(code, ph, text):
    """replace the placeholder ph in code by the (multi-line) text, keeping the indentation"""
    while True:
        i = code.find(ph)
        if i < 0:
            return code
        ls = code.rfind('\n', 0, i) + 1
        line = code[ls:i]
        pad = len(line) - len(line.lstrip(' '))
        if line.strip() == '':
            t = ind(text, pad).lstrip(' ')
        else:
            lines = text.split('\n')
            t = '\n'.join([lines[0]] + [(' ' * (pad + 2) + l if l else l) for l in lines[1:]])
        code = code[:i] + t + code[i + len(ph):]


def ind(s, n=2):
    pad = ' ' * n
    return '\n'.join(pad + l if l else l for l in s.split('\n'))


BYTE_NAMES = {10: 'LF', 13: 'CR', 32: 'SP', 43: 'PLUS', 62: 'GT', 64: 'AT'}


# ==========================================================================
# 5. Configuration: how the Rust reader maps to the model
# ==========================================================================

class Abi:
    """A result type of the model: constructors with the Rust value they stand for.

    ctors: list of (name, template) with template one of
      ('unit',) ('ok', t) ('err', t) ('some', t) ('none',) ('hole', ty) ('struct', name) ('tuple', [t..])
      'panic' (one nat argument: the site)   'fuel' (no argument)
      ('perr', ty): an error outcome of the model's type that the Rust method cannot produce; propagated by callers
    """

    def __init__(self, coq, ctors):
        self.coq = coq
        self.ctors = ctors

    def ctor_of(self, kind):
        for n, t in self.ctors:
            if t == kind:
                return n
        return None


H = lambda ty: ('hole', ty)


class Fmt:
    pass


def make_fa():
    f = Fmt()
    f.name = 'fa'
    f.file = 'fasta.rs'
    f.sty = 'fa'
    f.fields = {
        'self.buf_pos.start': ('start', 'set_start', 'nat'),
        'self.buf_pos.seq_pos': ('seqpos', 'set_seqpos', 'listnat'),
        'self.search_pos': ('spos', 'set_spos', 'nat'),
        'self.position.line': ('pline', 'set_pline', 'nat'),
        'self.position.byte': ('pbyte', 'set_pbyte', 'nat'),
        'self.state': ('st', 'set_st', 'state'),
    }
    f.structs = {'self.position': ('Position', ['line', 'byte']),
                 'self.buf_pos': ('BufferPosition', ['start', 'seq_pos'])}
    f.buf, f.set_buf, f.cap, f.set_cap = 'buf', 'set_buf', 'cap', 'set_cap'
    f.src, f.set_src, f.log, f.set_log = 'src', 'set_src', 'log', 'set_log'
    f.polf, f.polh, f.set_pol = 'polf', 'polh', 'set_pol'
    f.fill = 'fa_fill'
    f.states = ['New', 'Parsing', 'Incomplete', 'Positioned', 'Finished']   # order of the model's inductive
    f.state_ctor = {s: 'F' + s for s in f.states}
    f.state_eqb = 'fa_state_eqb'
    f.err_io = 'FaIo'
    f.errs = {'BufferLimit': ('FaBufferLimit', []), 'InvalidStart': ('FaInvalidStart', ['line', 'found'])}
    f.rec = 'fa_cur'
    f.reader_fields = ['buf_reader', 'buf_pos', 'position', 'search_pos', 'state', 'buf_policy']
    f.reader_path = 'self.buf_reader'
    f.set_ty = 'fa_set'
    f.set_fields = {'npos': ('snpos', 'fs_set_npos', 'nat'), 'positions': ('spositions', 'fs_set_positions', 'poslist'),
                    'buffer': ('sbuf', 'fs_set_buffer', 'bytes')}
    f.bufpos_term = lambda st: '(start %s, seqpos %s)' % (st, st)
    return f


def make_fq():
    f = Fmt()
    f.name = 'fq'
    f.file = 'fastq.rs'
    f.sty = 'fq'
    f.fields = {
        'self.buf_pos.pos.0': ('p0', 'qset_p0', 'nat'),
        'self.buf_pos.pos.1': ('p1', 'qset_p1', 'nat'),
        'self.buf_pos.seq': ('pseq', 'qset_seq', 'nat'),
        'self.buf_pos.sep': ('psep', 'qset_sep', 'nat'),
        'self.buf_pos.qual': ('pqual', 'qset_qual', 'nat'),
        'self.incomplete_pos': ('inc', 'qset_inc', ('option', 'stage')),
        'self.position.line': ('qline', 'qset_line', 'nat'),
        'self.position.byte': ('qbyte', 'qset_byte', 'nat'),
        'self.state': ('qst', 'qset_st', 'state'),
    }
    f.structs = {'self.position': ('Position', ['line', 'byte'])}
    f.buf, f.set_buf, f.cap, f.set_cap = 'qbuf', 'qset_buf', 'qcap', 'qset_cap'
    f.src, f.set_src, f.log, f.set_log = 'qsrc', 'qset_src', 'qlog', 'qset_log'
    f.polf, f.polh, f.set_pol = 'qpolf', 'qpolh', 'qset_pol'
    f.fill = 'fq_fill'
    f.states = ['New', 'Parsing', 'Positioned', 'Finished']
    f.state_ctor = {s: 'Q' + s for s in f.states}
    f.state_eqb = 'fq_state_eqb'
    f.err_io = 'FqIo'
    f.errs = {'BufferLimit': ('FqBufferLimit', []),
              'InvalidStart': ('FqInvalidStart', ['found', 'pos']),
              'InvalidSep': ('FqInvalidSep', ['found', 'pos']),
              'UnequalLengths': ('FqUnequalLengths', ['seq', 'qual', 'pos']),
              'UnexpectedEnd': ('FqUnexpectedEnd', ['pos'])}
    f.rec = 'fq_cur'
    f.reader_fields = ['buf_reader', 'buf_pos', 'incomplete_pos', 'position', 'state', 'buf_policy']
    f.reader_path = 'self.buf_reader'
    f.set_ty = 'fq_set'
    f.set_fields = {'buf_positions': ('qspos', 'qs_set_positions', 'poslist'), 'buffer': ('qsbuf', 'qs_set_buffer', 'bytes')}
    f.bufpos_term = lambda st: 'fq_bp %s' % st
    return f


def make_lib():
    """lib.rs: free functions; the state of fill_buf is the BufReader it is given"""
    f = Fmt()
    f.name = 'lib'
    f.file = 'lib.rs'
    f.sty = 'br'
    f.fields = {}
    f.structs = {}
    f.buf, f.set_buf, f.cap, f.set_cap = 'br_buf', 'br_set_buf', 'br_cap', None
    f.src, f.set_src, f.log, f.set_log = 'br_src', 'br_set_src', 'br_log', 'br_set_log'
    f.polf = f.polh = f.set_pol = None
    f.fill = None
    f.states = []
    f.state_ctor = {}
    f.state_eqb = None
    f.err_io = None
    f.errs = {}
    f.rec = None
    f.reader_fields = []
    f.reader_path = 'reader'
    f.set_ty = None
    f.set_fields = {}
    return f


STAGES = ['Head', 'Seq', 'Sep', 'Qual']

FILL_ABI = Abi('fill_res', [('FillOk', ('ok', H('nat'))), ('FillErr', ('err', H('ioerr'))), ('FillFuel', 'fuel')])


class M:
    """configuration of one translated (or primitive) method"""

    def __init__(self, rust, coq, kind, owner='Reader', abi=None, ret=None, fuels=(), sites=(),
                 panic_state='current', prim=None, params=None, call_sites=None):
        self.rust, self.coq, self.kind, self.owner = rust, coq, kind, owner
        self.abi, self.ret, self.fuels, self.sites = abi, ret, list(fuels), list(sites)
        self.panic_state = panic_state
        self.prim = prim          # for primitives: python function building the call
        self.params = params      # for primitives: parameter types
        self.call_sites = call_sites


FA_GRES = lambda okt: Abi('gres', [('GOk', okt), ('GErr', ('err', H('err')) if okt != ('unit',) else ('perr', 'err')), ('GPanic', 'panic')])
FQ_GRES = lambda okt: Abi('qgres', [('QGOk', okt), ('QGErr', ('err', H('err')) if okt != ('unit',) else ('perr', 'err')), ('QGPanic', 'panic')])


# ==========================================================================
# 6. Symbolic execution (continuation-passing): Rust AST -> Gallina text
# ==========================================================================

class Env:
    """immutable environment of the symbolic execution"""

    def __init__(self, frames, selfp, ret, loop, site_nid, panic_st):
        self.frames = frames        # list of dicts name -> value, innermost last
        self.selfp = selfp          # what `self` stands for (a flattened path)
        self.ret = ret              # ret(v, env, st) -> code : `return v`
        self.loop = loop            # None or (k_break, k_continue)
        self.site_nid = site_nid    # inside an inlined method: the node id of the call (all panics get its site)
        self.panic_st = panic_st    # state variable that accompanies a panic under the 'entry' convention

    def copy(self, **kw):
        e = Env(self.frames, self.selfp, self.ret, self.loop, self.site_nid, self.panic_st)
        for k, v in kw.items():
            setattr(e, k, v)
        return e

    def lookup(self, name):
        for f in reversed(self.frames):
            if name in f:
                return f[name]
        return None

    def bind(self, name, v):
        fr = list(self.frames)
        fr[-1] = dict(fr[-1])
        fr[-1][name] = v
        return self.copy(frames=fr)

    def assign(self, name, v):
        fr = list(self.frames)
        for i in range(len(fr) - 1, -1, -1):
            if name in fr[i]:
                fr[i] = dict(fr[i])
                fr[i][name] = v
                return self.copy(frames=fr)
        err('assignment to unknown local %s' % name)

    def push(self):
        return self.copy(frames=self.frames + [{}])

    def pop(self):
        return self.copy(frames=self.frames[:-1])

    def all_locals(self):
        """visible locals in order of declaration (outer first)"""
        out = []
        seen = set()
        for f in reversed(self.frames):
            for n in reversed(list(f.keys())):
                if n not in seen:
                    seen.add(n)
                    out.append(n)
        return list(reversed(out))


def flatten(e, env):
    """a place expression rooted at self or a local -> dotted path string, or None"""
    if e[0] == 'path' and len(e[1]) == 1:
        if e[1][0] == 'self':
            return env.selfp
        return e[1][0]
    if e[0] == 'field':
        b = flatten(e[1], env)
        if b is None:
            return None
        return b + '.' + e[2]
    if e[0] == 'paren':
        return flatten(e[1], env)
    if e[0] == 'unary' and e[1] in ('&', '&mut', '*'):
        return flatten(e[2], env)
    return None


class Exec:
    def __init__(self, tr, fmt, cfg, fn_items):
        self.tr = tr
        self.fmt = fmt
        self.cfg = cfg
        self.items = fn_items
        self.aux = []          # auxiliary definitions (loop fixpoints)
        self.discover = False
        self.site_req = []     # node ids for which a panic site was requested (discovery pass)
        self.site_of = {}
        self.used_fuels = set()
        self.extra = None      # name of the `&mut RecordSet` parameter, a second state variable

    # ---- names
    def reset_names(self):
        self.nv = 0
        self.nr = 0
        self.nloop = 0
        self.nj = 0
        self.njoin_id = 0
        self.ns = 0
        self.nfor = 0

    def fv(self):
        self.nv += 1
        return 'v%d' % self.nv

    def fr(self):
        self.nr += 1
        return 'r%d' % self.nr

    def fs(self):
        self.ns += 1
        return 's%d' % self.ns

    # ---- panics
    def panic(self, nid, env, st):
        if env.site_nid is not None:
            nid = env.site_nid
        if self.discover:
            if nid not in self.site_req:
                self.site_req.append(nid)
            site = 0
        else:
            if nid not in self.site_of:
                err('%s: no panic site configured for node %d' % (self.cfg.rust, nid))
            site = self.site_of[nid]
        return self.panic_with(str(site), env, st)

    def panic_with(self, site, env, st, propagated=False):
        k = self.cfg.kind
        if k == 'res':
            c = self.cfg.abi.ctor_of('panic')
            s = st
            if self.cfg.panic_state == 'entry' and not propagated:
                s = env.panic_st
            if getattr(self.cfg, 'wrap_panic', False):
                return self.out(s, env, 'Panicked %s' % site, wrapped=True)
            if c is None:
                err('%s: a panic can occur but the model type %s has no panic outcome' % (self.cfg.rust, self.cfg.abi.coq))
            return self.out(s, env, '%s %s' % (c, site))
        if k in ('optstate', 'pureopt'):
            return 'None'
        err('%s: a panic can occur but the method kind %s has no panic outcome' % (self.cfg.rust, k))

    def fuel_out(self, st, env):
        if self.cfg.kind != 'res' or self.cfg.abi.ctor_of('fuel') is None:
            err('%s: fuel can run out but the model type has no fuel outcome' % self.cfg.rust)
        return self.out(st, env, self.cfg.abi.ctor_of('fuel'))

    def out(self, st, env, res, wrapped=False):
        """an outcome of a method of kind 'res': (state, result), with the record set in between if there is one"""
        if getattr(self.cfg, 'wrap_panic', False) and not wrapped:
            res = 'Val %s' % paren(res)
        if self.extra is not None:
            v = env.lookup(self.extra)
            return '(%s, %s, %s)' % (st, v.s, res)
        return '(%s, %s)' % (st, res)

    # ---- conversion of values to Gallina
    def coq(self, v, want=None):
        if isinstance(v, T):
            return v.s
        if isinstance(v, VNum):
            return '%d%%Z' % v.n if want == 'Z' else str(v.n)
        if isinstance(v, VSome):
            return '(Some %s)' % paren(self.coq(v.v))
        if isinstance(v, VNone):
            return 'None'
        if isinstance(v, VTuple):
            return '(' + ', '.join(self.coq(x) for x in v.vs) + ')'
        if isinstance(v, VStruct):
            if v.name in ('Position', 'ErrorPosition'):
                return '(' + ', '.join(self.coq(x) for x in v.fields.values()) + ')'
            if v.name == 'RefRecord':
                return v.fields['_coq']
        err('%s: value %r cannot be turned into a term' % (self.cfg.rust, v))

    def vty(self, v):
        if isinstance(v, T):
            return v.ty
        if isinstance(v, VNum):
            return 'num'
        if isinstance(v, VSome):
            return ('option', self.vty(v.v))
        if isinstance(v, VIoErr):
            return 'ioerr'
        if isinstance(v, VUnit):
            return 'unit'
        return type(v).__name__

    # ---- templates of the result types
    def fresh_of(self, tmpl):
        """a value and the binder list for one constructor template"""
        if tmpl[0] == 'unit':
            return VUnit(), []
        if tmpl[0] == 'none':
            return VNone(), []
        if tmpl[0] in ('ok', 'err', 'some'):
            v, b = self.fresh_of(tmpl[1])
            return {'ok': VOk, 'err': VErr, 'some': VSome}[tmpl[0]](v), b
        if tmpl[0] == 'hole':
            n = self.fv()
            if tmpl[1] == 'ioerr':
                return VIoErr(n, False), [n]
            if tmpl[1] == 'errio':
                # an Error that is known to be Error::Io(k)
                return T('(%s %s)' % (self.fmt.err_io, n), 'err'), [n]
            return T(n, tmpl[1]), [n]
        if tmpl[0] == 'tuple':
            vs, bs = [], []
            for t in tmpl[1]:
                v, b = self.fresh_of(t)
                vs.append(v)
                bs += b
            return VTuple(vs), bs
        err('template %r' % (tmpl,))

    def match_tmpl(self, v, tmpl):
        """arguments of the constructor if v has the shape of tmpl, else None"""
        if tmpl[0] == 'unit':
            return [] if isinstance(v, VUnit) else None
        if tmpl[0] == 'none':
            return [] if isinstance(v, VNone) else None
        if tmpl[0] == 'ok':
            return self.match_tmpl(v.v, tmpl[1]) if isinstance(v, VOk) else None
        if tmpl[0] == 'err':
            return self.match_tmpl(v.v, tmpl[1]) if isinstance(v, VErr) else None
        if tmpl[0] == 'some':
            return self.match_tmpl(v.v, tmpl[1]) if isinstance(v, VSome) else None
        if tmpl[0] == 'hole':
            ty = tmpl[1]
            if ty == 'errio':
                m = re.match(r'^\(%s (\w+)\)$' % self.fmt.err_io, v.s) if isinstance(v, T) and v.ty == 'err' else None
                return [m.group(1)] if m else None
            if isinstance(v, T) and v.ty == ty:
                return [v.s]
            if isinstance(v, VNum) and ty == 'nat':
                return [str(v.n)]
            if isinstance(v, VIoErr) and ty == 'ioerr' and v.interrupted is False:
                return [v.k]
            if isinstance(v, VStruct) and ty == v.name:
                return [self.coq(v)]
            return None
        if tmpl[0] == 'tuple':
            if not isinstance(v, VTuple) or len(v.vs) != len(tmpl[1]):
                return None
            out = []
            for x, t in zip(v.vs, tmpl[1]):
                a = self.match_tmpl(x, t)
                if a is None:
                    return None
                out += a
            return out
        return None

    def find_opaque_option(self, v):
        if isinstance(v, T) and isinstance(v.ty, tuple) and v.ty[0] == 'option':
            return v
        if isinstance(v, (VOk, VErr, VSome)):
            return self.find_opaque_option(v.v)
        return None

    def subst_value(self, v, old, new):
        if v is old:
            return new
        if isinstance(v, VOk):
            return VOk(self.subst_value(v.v, old, new))
        if isinstance(v, VErr):
            return VErr(self.subst_value(v.v, old, new))
        if isinstance(v, VSome):
            return VSome(self.subst_value(v.v, old, new))
        return v

    def method_return(self, v, env, st):
        """`return v` of the method under translation"""
        cfg = self.cfg
        if cfg.kind == 'state':
            if not isinstance(v, VUnit) and not (isinstance(v, VStruct) and v.name == 'Reader'):
                err('%s: returns a value but is configured as a state transformer' % cfg.rust)
            return st
        if cfg.kind == 'optstate':
            if not isinstance(v, VUnit):
                err('%s: returns a value but is configured as a state transformer' % cfg.rust)
            return 'Some %s' % st
        if cfg.kind == 'pure':
            return self.coq(v)
        if cfg.kind == 'pureopt':
            return 'Some %s' % paren(self.coq(v))
        if cfg.kind == 'res':
            for name, tmpl in cfg.abi.ctors:
                if isinstance(tmpl, str) or tmpl[0] == 'perr':
                    continue
                a = self.match_tmpl(v, tmpl)
                if a is not None:
                    return self.out(st, env, ' '.join([name] + [paren(x) for x in a]))
            o = self.find_opaque_option(v)
            if o is not None:
                n = self.fv()
                yes = self.method_return(self.subst_value(v, o, VSome(T(n, o.ty[1]))), env, st)
                no = self.method_return(self.subst_value(v, o, VNone()), env, st)
                return 'match %s with\n| Some %s => %s\n| None => %s\nend' % (o.s, n, yes, no)
            err('%s: return value %s has no counterpart in the model type %s' % (cfg.rust, self.show(v), cfg.abi.coq))
        err('%s: unknown kind %s' % (cfg.rust, cfg.kind))

    def show(self, v):
        if isinstance(v, (VOk, VErr, VSome)):
            return '%s(%s)' % (type(v).__name__[1:], self.show(v.v))
        if isinstance(v, T):
            return repr(v)
        return type(v).__name__

    # ---- error conversion (`?`, try_opt!, .into())
    def from_err(self, v):
        if isinstance(v, VIoErr):
            if v.interrupted is not False:
                err('%s: conversion of an io::Error of unknown kind' % self.cfg.rust)
            return T('(%s %s)' % (self.fmt.err_io, v.k), 'err')
        if isinstance(v, T) and v.ty == 'err':
            return v
        err('%s: cannot convert %s into Error' % (self.cfg.rust, self.show(v)))

    # ======================================================================
    # statements and blocks
    # ======================================================================
    def block(self, b, env, st, k):
        """k(v, env, st): value of the block"""
        assert b[0] == 'block'
        env1 = env.push()

        def k_end(v, env2, st2):
            return k(v, env2.pop(), st2)
        return self.stmts(b[1], 0, b[2], env1, st, k_end)

    def stmts(self, ss, i, tail, env, st, k):
        if i == len(ss):
            if tail is None:
                return k(VUnit(), env, st)
            return self.ev(tail, env, st, k)
        s = ss[i]
        skip = 1
        pair = None
        if s[0] == 'expr':
            e = s[1]
            # statement pair  X.consume(n); X.make_room();
            if (e[0] == 'mcall' and e[2] == 'consume' and flatten(e[1], env) == self.fmt.reader_path
                    and i + 1 < len(ss) and ss[i + 1][0] == 'expr'):
                e2 = ss[i + 1][1]
                if e2[0] == 'mcall' and e2[2] == 'make_room' and flatten(e2[1], env) == self.fmt.reader_path and not e2[3]:
                    if len(e[3]) != 1:
                        err('consume: one argument expected')
                    skip = 2
                    pair = e[3][0]

        def rest(env2, st2):
            return self.stmts(ss, i + skip, tail, env2, st2, k)

        def run(nx):
            if s[0] == 'let':
                pat, mut, e = s[1], s[2], s[3]
                return self.ev(e, env, st, lambda v, env2, st2: self.bind_pattern(pat, v, env2, st2, nx))
            if pair is not None:
                def k_c(v, env2, st2):
                    n = self.as_nat(v)
                    r = self.fr()
                    f = self.fmt
                    return 'let %s := %s %s (skipn %s (%s %s)) in\n%s' % (
                        r, f.set_buf, st2, paren(n), f.buf, st2, nx(env2, r))
                return self.ev(pair, env, st, k_c)
            return self.ev(s[1], env, st, lambda v, env2, st2: nx(env2, st2))
        if i + skip == len(ss) and tail is None:
            return run(rest)
        if s[0] == 'expr' and s[1][0] in ('loop', 'while', 'for'):
            # the code after a loop is part of the loop function (executed at `break`)
            return run(rest)
        return self.join(env, st, run, rest)

    def same_value(self, a, b):
        if a is b:
            return True
        if isinstance(a, T) and isinstance(b, T):
            return a.s == b.s and a.ty == b.ty
        if isinstance(a, VNum) and isinstance(b, VNum):
            return a.n == b.n
        return False

    def join(self, env, st, run, rest):
        """run(nx) executes one statement, calling nx(env, st) wherever execution continues with the rest of the
        block.  If that happens at several places, the rest is emitted once as a local function (a join point)."""
        self.njoin_id += 1
        jid = self.njoin_id
        invs = []

        def nx(env2, st2):
            invs.append((env2, st2))
            return '\0J%d:%d\0' % (jid, len(invs) - 1)
        code = run(nx)

        def inline_all(code):
            for n, (e2, s2) in enumerate(invs):
                code = subst_ph(code, '\0J%d:%d\0' % (jid, n), rest(e2, s2))
            return code
        if len(invs) <= 1:
            return inline_all(code)
        names = invs[0][0].all_locals()
        params = []
        ok = True
        for n in names:
            vals = [e2.lookup(n) for e2, _ in invs]
            entry = env.lookup(n)
            if entry is not None and all(self.same_value(v, entry) for v in vals):
                continue
            vals = [T(str(v.n), 'nat') if isinstance(v, VNum) else v for v in vals]
            if not all(isinstance(v, T) for v in vals) or len(set(repr(v.ty) for v in vals)) != 1:
                ok = False
                break
            params.append((n, vals[0].ty))
        saved = (self.nv, self.nr, self.nloop, self.nj, len(self.aux), self.njoin_id, self.nfor, self.ns)
        if ok:
            envj = invs[0][0]
            ps = []
            for n, ty in params:
                pn = self.fv()
                ps.append((pn, ty))
                envj = envj.assign(n, T(pn, ty))
            rj = self.fr()
            body = rest(envj, rj)
            if '\n' in body:
                self.nj += 1
                jn = 'j%d' % self.nj
                # the counter of join names must not depend on joins made inside the body
                for n, (e2, s2) in enumerate(invs):
                    call = ' '.join([jn] + [paren(self.coq(T(str(v.n), 'nat') if isinstance(v, VNum) else v))
                                            for v in [e2.lookup(pn_) for pn_, _ in params]] + [s2])
                    code = code.replace('\0J%d:%d\0' % (jid, n), call)
                hdr = 'let %s%s (%s : %s) :=\n%s in\n' % (
                    jn, ''.join(' (%s : %s)' % (pn, coq_ty(ty)) for pn, ty in ps), rj, self.state_ty(), ind(body))
                return hdr + code
        # small or not expressible: duplicate the rest
        self.nv, self.nr, self.nloop, self.nj, _, self.njoin_id, self.nfor, self.ns = saved
        del self.aux[saved[4]:]
        return inline_all(code)

    def bind_pattern(self, pat, v, env, st, k):
        """irrefutable patterns of `let`"""
        if pat[0] == 'pbind':
            if isinstance(v, T) and not re.match(r'^[A-Za-z_0-9\']+$', v.s):
                # name compound terms once
                n = self.fv()
                return 'let %s := %s in\n%s' % (n, v.s, k(env.bind(pat[1], T(n, v.ty, v.s)), st))
            return k(env.bind(pat[1], v), st)
        if pat[0] == 'pwild':
            return k(env, st)
        err('%s: let pattern %r not supported' % (self.cfg.rust, pat))

    def as_nat(self, v):
        if isinstance(v, VNum):
            return str(v.n)
        if isinstance(v, T) and v.ty == 'nat':
            return v.s
        err('%s: a usize value was expected, got %s' % (self.cfg.rust, self.show(v)))

    def as_bool(self, v):
        if isinstance(v, T) and v.ty == 'bool':
            return v.s
        err('%s: a bool value was expected, got %s' % (self.cfg.rust, self.show(v)))

    # ======================================================================
    # pure probing: evaluate an expression that emits no code
    # ======================================================================
    def try_pure(self, e, env, st):
        saved = (self.nv, self.nr)
        box = []
        HOLE = '\0HOLE\0'

        def k(v, env2, st2):
            box.append((v, env2, st2))
            return HOLE
        try:
            code = self.ev(e, env, st, k)
        except TranslateError:
            self.nv, self.nr = saved
            raise
        if code == HOLE and len(box) == 1 and box[0][2] == st and box[0][1].frames == env.frames:
            return box[0][0]
        self.nv, self.nr = saved
        return None

    # ======================================================================
    # expressions
    # ======================================================================
    def ev(self, e, env, st, k):
        tag = e[0]
        m = getattr(self, 'ev_' + tag, None)
        if m is None:
            err('%s: expression form %s is not supported' % (self.cfg.rust, tag))
        return m(e, env, st, k)

    def ev_num(self, e, env, st, k):
        return k(VNum(e[1]), env, st)

    def ev_byte(self, e, env, st, k):
        return k(T(BYTE_NAMES.get(e[1], str(e[1])), 'nat'), env, st)

    def ev_bstr(self, e, env, st, k):
        inner = e[1][2:-1]
        bs = []
        i = 0
        while i < len(inner):
            if inner[i] == '\\':
                if inner[i + 1] not in BYTE_ESC:
                    err('byte string %s not recognised' % e[1])
                bs.append(BYTE_ESC[inner[i + 1]])
                i += 2
            else:
                if ord(inner[i]) > 127:
                    err('byte string %s not recognised' % e[1])
                bs.append(ord(inner[i]))
                i += 1
        return k(T('[' + '; '.join(BYTE_NAMES.get(b, str(b)) for b in bs) + ']', 'bytes'), env, st)

    def ev_bool(self, e, env, st, k):
        return k(T('true' if e[1] else 'false', 'bool'), env, st)

    def ev_unit(self, e, env, st, k):
        return k(VUnit(), env, st)

    def ev_paren(self, e, env, st, k):
        return self.ev(e[1], env, st, k)

    def ev_block(self, e, env, st, k):
        return self.block(e, env, st, k)

    def ev_tuple(self, e, env, st, k):
        return self.ev_list(e[1], env, st, lambda vs, env2, st2: k(VTuple(vs), env2, st2))

    def ev_list(self, es, env, st, k, acc=None):
        acc = acc or []
        if len(acc) == len(es):
            return k(acc, env, st)
        return self.ev(es[len(acc)], env, st, lambda v, env2, st2: self.ev_list(es, env2, st2, k, acc + [v]))

    def ev_path(self, e, env, st, k):
        segs = e[1]
        if len(segs) == 1:
            n = segs[0]
            if n == 'None':
                return k(VNone(), env, st)
            if n == 'self':
                err('%s: `self` as a value is not supported' % self.cfg.rust)
            v = env.lookup(n)
            if v is None:
                err('%s: unknown identifier %s' % (self.cfg.rust, n))
            return k(v, env, st)
        if segs[0] == 'State' and len(segs) == 2:
            if segs[1] not in self.fmt.state_ctor:
                err('%s: unknown state %s' % (self.cfg.rust, segs[1]))
            return k(T(self.fmt.state_ctor[segs[1]], 'state'), env, st)
        if segs[0] == 'RecordPos' and len(segs) == 2 and self.fmt.name == 'fq':
            if segs[1] not in STAGES:
                err('%s: unknown RecordPos %s' % (self.cfg.rust, segs[1]))
            return k(T(segs[1], 'stage'), env, st)
        if segs[0] == 'Error' and len(segs) == 2:
            if segs[1] in self.fmt.errs and not self.fmt.errs[segs[1]][1]:
                return k(T(self.fmt.errs[segs[1]][0], 'err'), env, st)
        if segs == ['io', 'ErrorKind', 'Interrupted']:
            return k(VKindConst('Interrupted'), env, st)
        err('%s: unknown path %s' % (self.cfg.rust, '::'.join(segs)))

    def read_place(self, p, st):
        f = self.fmt
        if p in f.fields:
            g, _, ty = f.fields[p]
            return T('%s %s' % (g, st), ty)
        if p in f.structs:
            name, fl = f.structs[p]
            if all((p + '.' + x) in f.fields for x in fl):
                return VStruct(name, {x: self.read_place(p + '.' + x, st) for x in fl})
        return None

    def ev_field(self, e, env, st, k):
        p = flatten(e, env)
        if p is not None and p.startswith('self'):
            v = self.read_place(p, st)
            if v is None:
                err('%s: unknown reader field %s' % (self.cfg.rust, p))
            return k(v, env, st)
        # field of a value

        def k_f(v, env2, st2):
            if isinstance(v, T) and v.ty == self.fmt.set_ty and e[2] in self.fmt.set_fields:
                g, _, ty = self.fmt.set_fields[e[2]]
                return k(T('%s %s' % (g, v.s), ty), env2, st2)
            if isinstance(v, VStruct) and e[2] in v.fields:
                return k(v.fields[e[2]], env2, st2)
            if isinstance(v, VTuple) and e[2].isdigit() and int(e[2]) < len(v.vs):
                return k(v.vs[int(e[2])], env2, st2)
            err('%s: field .%s of %s' % (self.cfg.rust, e[2], self.show(v)))
        return self.ev(e[1], env, st, k_f)

    def ev_unary(self, e, env, st, k):
        op = e[1]
        if op == '!':
            def k_n(v, env2, st2):
                b = self.as_bool(v)
                if b == 'true':
                    return k(T('false', 'bool'), env2, st2)
                if b == 'false':
                    return k(T('true', 'bool'), env2, st2)
                return k(T('negb %s' % paren(b), 'bool'), env2, st2)
            return self.ev(e[2], env, st, k_n)
        if op in ('&', '&mut', '*'):
            return self.ev(e[2], env, st, k)
        err('%s: unary %s' % (self.cfg.rust, op))

    def ev_cast(self, e, env, st, k):
        ty = e[2]

        def k_c(v, env2, st2):
            if ty == 'i64':
                if isinstance(v, VNum):
                    return k(T('%d%%Z' % v.n, 'Z'), env2, st2)
                if isinstance(v, T) and v.ty == 'nat':
                    return k(T('Z.of_nat %s' % paren(v.s), 'Z'), env2, st2)
                if isinstance(v, T) and v.ty == 'Z':
                    return k(v, env2, st2)
            if ty in ('usize', 'u64'):
                if isinstance(v, VNum):
                    return k(v, env2, st2)
                if isinstance(v, T) and v.ty == 'nat':
                    return k(v, env2, st2)
                if isinstance(v, T) and v.ty == 'Z':
                    # the readers cast only after checking 0 <= pos; Z.to_nat as in the model
                    return k(T('Z.to_nat %s' % paren(v.s), 'nat'), env2, st2)
                if isinstance(v, T) and v.ty == 'stage':
                    return k(T('stage_num %s' % paren(v.s), 'nat'), env2, st2)
            err('%s: cast of %s to %s is not supported' % (self.cfg.rust, self.show(v), ty))
        return self.ev(e[1], env, st, k_c)

    def num_types(self, a, b):
        """common arithmetic type of two operands"""
        ta, tb = self.vty(a), self.vty(b)
        if ta == 'num' and tb == 'num':
            return 'nat'
        if ta == 'num':
            ta = tb
        if tb == 'num':
            tb = ta
        if ta != tb or ta not in ('nat', 'Z'):
            err('%s: arithmetic on %s and %s' % (self.cfg.rust, self.show(a), self.show(b)))
        return ta

    def zs(self, s, ty):
        return '(%s)%%Z' % s if ty == 'Z' else s

    def ev_binary(self, e, env, st, k):
        op, a, b, nid = e[1], e[2], e[3], e[4]
        if op in ('&&', '||'):
            def k_a(va, env2, st2):
                sa = self.as_bool(va)
                vb = self.try_pure(b, env2, st2)
                if vb is not None:
                    sb = self.as_bool(vb)
                    return k(T('%s %s %s' % (opnd(sa), op, opnd(sb)), 'bool'), env2, st2)
                # the right operand can panic or has effects: short-circuit explicitly
                if op == '&&':
                    return 'if %s then (\n%s\n) else (\n%s\n)' % (
                        sa, ind(self.ev(b, env2, st2, k)), ind(k(T('false', 'bool'), env2, st2)))
                return 'if %s then (\n%s\n) else (\n%s\n)' % (
                    sa, ind(k(T('true', 'bool'), env2, st2)), ind(self.ev(b, env2, st2, k)))
            return self.ev(a, env, st, k_a)

        def k_a(va, env2, st2):
            def k_b(vb, env3, st3):
                return self.binop(op, va, vb, nid, env3, st3, k)
            return self.ev(b, env2, st2, k_b)
        return self.ev(a, env, st, k_a)

    def binop(self, op, va, vb, nid, env, st, k):
        if op in ('+', '-'):
            ty = self.num_types(va, vb)
            sa, sb = self.coq(va), self.coq(vb)
            if op == '+':
                return k(T(self.zs('%s + %s' % (opnd(sa), opnd(sb)), ty), ty), env, st)
            if ty == 'Z':
                return k(T(self.zs('%s - %s' % (opnd(sa), opnd(sb)), ty), ty), env, st)
            # usize subtraction: underflow panics
            return 'if %s <? %s then %s else\n%s' % (
                opnd(sa), opnd(sb), self.panic(nid, env, st),
                k(T('%s - %s' % (opnd(sa), opnd(sb)), 'nat'), env, st))
        if op in ('==', '!=', '<', '>', '<=', '>='):
            ta, tb = self.vty(va), self.vty(vb)
            if ta == 'state' or tb == 'state':
                if op not in ('==', '!='):
                    err('%s: ordering of State' % self.cfg.rust)
                s = '%s %s %s' % (self.fmt.state_eqb, paren(self.coq(va)), paren(self.coq(vb)))
                return k(T(s if op == '==' else 'negb (%s)' % s, 'bool'), env, st)
            if ta == 'stage' or tb == 'stage':
                if ta != tb:
                    err('%s: comparison of RecordPos with %s' % (self.cfg.rust, tb))
                sa, sb = paren(self.coq(va)), paren(self.coq(vb))
                s = {'==': 'stage_eqb %s %s' % (sa, sb), '!=': 'negb (stage_eqb %s %s)' % (sa, sb),
                     '<=': 'stage_leb %s %s' % (sa, sb), '>=': 'stage_leb %s %s' % (sb, sa),
                     '<': 'negb (stage_leb %s %s)' % (sb, sa), '>': 'negb (stage_leb %s %s)' % (sa, sb)}[op]
                return k(T(s, 'bool'), env, st)
            if isinstance(va, VKindOf) and isinstance(vb, VKindConst) and op == '==':
                if va.e.interrupted is None:
                    err('%s: kind of an unknown io::Error' % self.cfg.rust)
                return k(T('true' if va.e.interrupted else 'false', 'bool'), env, st)
            if ta == 'bytes' and tb == 'bytes' and op in ('==', '!='):
                s_ = 'bytes_eqb %s %s' % (paren(va.s), paren(vb.s))
                return k(T(s_ if op == '==' else 'negb (%s)' % s_, 'bool'), env, st)
            if ta == 'bool' and tb == 'bool' and op == '==':
                return k(T('Bool.eqb %s %s' % (paren(va.s), paren(vb.s)), 'bool'), env, st)
            ty = self.num_types(va, vb)
            sa, sb = opnd(self.coq(va)), opnd(self.coq(vb))
            s = {'==': '%s =? %s' % (sa, sb), '!=': None,
                 '<': '%s <? %s' % (sa, sb), '<=': '%s <=? %s' % (sa, sb),
                 '>': '%s <? %s' % (sb, sa), '>=': '%s <=? %s' % (sb, sa)}[op]
            if op == '!=':
                s = 'negb (%s)' % self.zs('%s =? %s' % (sa, sb), ty)
            else:
                s = self.zs(s, ty)
            return k(T(s, 'bool'), env, st)
        err('%s: operator %s' % (self.cfg.rust, op))

    # ---- assignment
    def ev_assign(self, e, env, st, k):
        op, lhs, rhs, nid = e[1], e[2], e[3], e[4]
        p = flatten(lhs, env)
        if p is None:
            err('%s: assignment target not supported' % self.cfg.rust)

        def k_r(v, env2, st2):
            if op == '=':
                return self.write_place(p, v, env2, st2, k)
            # compound: read, compute, write
            cur = self.read_any(p, env2, st2)
            return self.binop(op[0], cur, v, nid, env2, st2,
                              lambda nv, env3, st3: self.write_place(p, nv, env3, st3, k))
        return self.ev(rhs, env, st, k_r)

    def set_place(self, p, env):
        """p = '<record set local>.<field>' -> (local, field) or None"""
        if '.' in p:
            root, fld = p.split('.', 1)
            v = env.lookup(root)
            if isinstance(v, T) and v.ty == self.fmt.set_ty and self.fmt.set_ty is not None and fld in self.fmt.set_fields:
                return root, fld
        return None

    def write_set(self, root, fld, term, env, st, k):
        g, setter, ty = self.fmt.set_fields[fld]
        cur = env.lookup(root)
        n = self.fs()
        return 'let %s := %s %s %s in\n%s' % (n, setter, cur.s, paren(term), k(VUnit(), env.assign(root, T(n, cur.ty)), st))

    def read_any(self, p, env, st):
        sp = self.set_place(p, env)
        if sp is not None:
            g, _, ty = self.fmt.set_fields[sp[1]]
            return T('%s %s' % (g, env.lookup(sp[0]).s), ty)
        if p.startswith('self'):
            v = self.read_place(p, st)
            if v is None:
                err('%s: unknown reader field %s' % (self.cfg.rust, p))
            return v
        v = env.lookup(p)
        if v is None:
            err('%s: unknown local %s' % (self.cfg.rust, p))
        return v

    def write_place(self, p, v, env, st, k):
        f = self.fmt
        if p.startswith('self'):
            if p in f.fields:
                _, setter, ty = f.fields[p]
                s = self.coq_as(v, ty)
                r = self.fr()
                return 'let %s := %s %s %s in\n%s' % (r, setter, st, paren(s), k(VUnit(), env, r))
            if p in f.structs:
                name, fl = f.structs[p]
                if isinstance(v, VStruct) and v.name == name and all((p + '.' + x) in f.fields for x in fl):
                    def go(i, st2):
                        if i == len(fl):
                            return k(VUnit(), env, st2)
                        _, setter, ty = f.fields[p + '.' + fl[i]]
                        r = self.fr()
                        return 'let %s := %s %s %s in\n%s' % (
                            r, setter, st2, paren(self.coq_as(v.fields[fl[i]], ty)), go(i + 1, r))
                    return go(0, st)
            err('%s: assignment to %s is not supported' % (self.cfg.rust, p))
        sp = self.set_place(p, env)
        if sp is not None:
            return self.write_set(sp[0], sp[1], self.coq_as(v, self.fmt.set_fields[sp[1]][2]), env, st, k)
        if env.lookup(p) is None:
            err('%s: assignment to unknown local %s' % (self.cfg.rust, p))
        if isinstance(v, VNum):
            v = T(str(v.n), 'nat')
        return k(VUnit(), env.assign(p, v), st)

    def coq_as(self, v, ty):
        """Gallina text of v, which must have type ty"""
        if isinstance(v, VNum) and ty == 'nat':
            return str(v.n)
        if isinstance(v, T) and v.ty == ty:
            return v.s
        if isinstance(ty, tuple) and ty[0] == 'option':
            if isinstance(v, VNone):
                return 'None'
            if isinstance(v, VSome):
                return 'Some %s' % paren(self.coq_as(v.v, ty[1]))
        err('%s: a value of type %s was expected, got %s' % (self.cfg.rust, ty, self.show(v)))

    # ---- control flow
    def ev_return(self, e, env, st, k):
        if e[1] is None:
            return env.ret(VUnit(), env, st)
        return self.ev(e[1], env, st, lambda v, env2, st2: env.ret(v, env2, st2))

    def ev_break(self, e, env, st, k):
        if env.loop is None:
            err('%s: break outside of a loop' % self.cfg.rust)
        return env.loop[0](env, st)

    def ev_continue(self, e, env, st, k):
        if env.loop is None:
            err('%s: continue outside of a loop' % self.cfg.rust)
        return env.loop[1](env, st)

    def ev_if(self, e, env, st, k):
        cond, th, el = e[1], e[2], e[3]
        # if let Some(pos) = <set>.positions.get_mut(i) { pos.update(&self.buf_pos); } else { .. }
        if cond[0] == 'letcond' and cond[2][0] == 'mcall' and cond[2][2] == 'get_mut' and len(cond[2][3]) == 1:
            p = flatten(cond[2][1], env)
            sp = self.set_place(p, env) if p is not None else None
            pat = cond[1]
            ok = (sp is not None and self.fmt.set_fields[sp[1]][2] == 'poslist'
                  and pat[0] == 'pts' and pat[1] == ['Some'] and len(pat[2]) == 1 and pat[2][0][0] == 'pbind'
                  and len(th[1]) == 1 and th[2] is None and th[1][0][0] == 'expr')
            if ok:
                u = th[1][0][1]
                ok = (u[0] == 'mcall' and u[2] == 'update' and u[1] == ('path', [pat[2][0][1]]) and len(u[3]) == 1
                      and u[3][0][0] == 'unary' and u[3][0][1] == '&' and flatten(u[3][0][2], env) == 'self.buf_pos')
            if not ok:
                err('%s: get_mut idiom not recognised' % self.cfg.rust)
            self.tr.check_digest(self.fmt, 'BufferPosition', 'update')
            root, fld = sp
            g, setter, _ = self.fmt.set_fields[fld]

            def k_i(vi, env2, st2):
                i = paren(self.as_nat(vi))
                cur = env2.lookup(root).s
                yes = self.write_set(root, fld, 'set_nth (%s %s) %s %s' % (g, cur, i, self.fmt.bufpos_term(st2)), env2, st2, k)
                no = k(VUnit(), env2, st2) if el is None else self.block(el, env2, st2, k)
                return 'if %s <? length (%s %s) then (\n%s\n) else (\n%s\n)' % (i, g, cur, ind(yes), ind(no))
            return self.ev(cond[2][3][0], env, st, k_i)

        def k_then(env2, st2):
            return self.block(th, env2, st2, k)

        def k_else(env2, st2):
            if el is None:
                return k(VUnit(), env2, st2)
            return self.block(el, env2, st2, k)
        if cond[0] == 'letcond':
            pat, ce = cond[1], cond[2]

            def k_v(v, env2, st2):
                envp = env2.push()
                return self.match_pat(pat, v, envp, st2,
                                      lambda env3, st3: self.block(th, env3, st3, lambda v2, env4, st4: k(v2, env4.pop(), st4)),
                                      lambda st3: k_else(env2, st3))
            return self.ev(ce, env, st, k_v)

        def k_c(v, env2, st2):
            c = self.as_bool(v)
            if c == 'true':
                return k_then(env2, st2)
            if c == 'false':
                return k_else(env2, st2)
            return 'if %s then (\n%s\n) else (\n%s\n)' % (c, ind(k_then(env2, st2)), ind(k_else(env2, st2)))
        return self.ev(cond, env, st, k_c)

    def match_pat(self, pat, v, env, st, k_yes, k_no):
        """refutable pattern matching on a (structured) value.
        k_yes(env, st) with the bindings; k_no(st)"""
        t = pat[0]
        if t == 'pwild':
            return k_yes(env, st)
        if t == 'pbind':
            return k_yes(env.bind(pat[1], v), st)
        if t == 'pref':
            return self.match_pat(pat[1], v, env, st, k_yes, k_no)
        if t == 'ptuple' and isinstance(v, T) and isinstance(v.ty, tuple) and v.ty[0] == 'tuple' and len(v.ty[1]) == len(pat[1]):
            ns = [self.fv() for _ in pat[1]]
            vt = VTuple([T(n, ty) for n, ty in zip(ns, v.ty[1])])
            return "let '(%s) := %s in\n%s" % (', '.join(ns), v.s, self.match_pat(pat, vt, env, st, k_yes, k_no))
        if t == 'ptuple':
            if not isinstance(v, VTuple) or len(v.vs) != len(pat[1]):
                err('%s: tuple pattern against %s' % (self.cfg.rust, self.show(v)))

            def go(i, env2, st2):
                if i == len(pat[1]):
                    return k_yes(env2, st2)
                return self.match_pat(pat[1][i], v.vs[i], env2, st2, lambda e3, s3: go(i + 1, e3, s3), k_no)
            return go(0, env, st)
        if t in ('pnum', 'pbyte'):
            n = pat[1]
            if isinstance(v, VNum):
                return k_yes(env, st) if v.n == n else k_no(st)
            if isinstance(v, T) and v.ty == 'nat':
                lit = BYTE_NAMES.get(n, str(n)) if t == 'pbyte' else str(n)
                return 'if %s =? %s then (\n%s\n) else (\n%s\n)' % (paren(v.s), lit, ind(k_yes(env, st)), ind(k_no(st)))
            err('%s: literal pattern against %s' % (self.cfg.rust, self.show(v)))
        if t == 'ppath':
            segs = pat[1]
            if segs == ['None']:
                if isinstance(v, VNone):
                    return k_yes(env, st)
                if isinstance(v, VSome):
                    return k_no(st)
                if isinstance(v, T) and isinstance(v.ty, tuple) and v.ty[0] == 'option':
                    n = self.fv()
                    return 'match %s with\n| Some %s =>\n%s\n| None =>\n%s\nend' % (v.s, n, ind(k_no(st)), ind(k_yes(env, st)))
            err('%s: pattern %s against %s' % (self.cfg.rust, '::'.join(segs), self.show(v)))
        if t == 'pts':
            segs, ps = pat[1], pat[2]
            if len(segs) == 1 and segs[0] in ('Some', 'Ok', 'Err') and len(ps) == 1:
                cls = {'Some': VSome, 'Ok': VOk, 'Err': VErr}[segs[0]]
                if isinstance(v, cls):
                    return self.match_pat(ps[0], v.v, env, st, k_yes, k_no)
                if isinstance(v, (VNone, VSome, VOk, VErr)):
                    return k_no(st)
                if segs[0] == 'Some' and isinstance(v, T) and isinstance(v.ty, tuple) and v.ty[0] == 'option':
                    n = self.fv()
                    inner = T(n, v.ty[1])
                    yes = self.match_pat(ps[0], inner, env, st, k_yes, k_no)
                    return 'match %s with\n| Some %s =>\n%s\n| None =>\n%s\nend' % (v.s, n, ind(yes), ind(k_no(st)))
            err('%s: pattern %s(..) against %s' % (self.cfg.rust, '::'.join(segs), self.show(v)))
        err('%s: pattern form %s is not supported' % (self.cfg.rust, t))

    def ev_match(self, e, env, st, k):
        scrut, arms = e[1], e[2]
        p = flatten(scrut, env)
        if p is not None and p.startswith('self') and p in self.fmt.fields and self.fmt.fields[p][2] == 'state':
            return self.match_state(p, arms, env, st, k)

        def k_s(v, env2, st2):
            def go(i, st3):
                if i == len(arms):
                    err('%s: non-exhaustive match (value %s)' % (self.cfg.rust, self.show(v)))
                pat, guard, body = arms[i]
                envp = env2.push()

                def yes(env3, st4):
                    def run(env4, st5):
                        return self.ev(body, env4, st5, lambda v2, env5, st6: k(v2, env5.pop(), st6))
                    if guard is None:
                        return run(env3, st4)

                    def k_g(gv, env4, st5):
                        g = self.as_bool(gv)
                        if g == 'true':
                            return run(env4, st5)
                        if g == 'false':
                            return go(i + 1, st5)
                        return 'if %s then (\n%s\n) else (\n%s\n)' % (g, ind(run(env4, st5)), ind(go(i + 1, st5)))
                    return self.ev(guard, env3, st4, k_g)
                return self.match_pat(pat, v, envp, st3, yes, lambda st4: go(i + 1, st4))
            return go(0, st2)
        return self.ev(scrut, env, st, k_s)

    def match_state(self, p, arms, env, st, k):
        """match self.state { State::A => .., State::B | State::C => .., _ => .. }: arms over distinct
        constructors are order-independent; they are emitted in the order of the model's inductive"""
        f = self.fmt
        by = {}
        wild = None
        for pat, guard, body in arms:
            if guard is not None:
                err('%s: guard in a match on the state' % self.cfg.rust)
            alts = pat[1] if pat[0] == 'por' else [pat]
            for a in alts:
                if a[0] == 'pwild':
                    if wild is not None:
                        err('%s: two wildcard arms' % self.cfg.rust)
                    wild = body
                elif a[0] == 'ppath' and len(a[1]) == 2 and a[1][0] == 'State' and a[1][1] in f.state_ctor:
                    if wild is not None:
                        err('%s: arm after the wildcard arm' % self.cfg.rust)
                    if a[1][1] in by:
                        err('%s: state %s matched twice' % (self.cfg.rust, a[1][1]))
                    by[a[1][1]] = body
                else:
                    err('%s: arm pattern of a state match not recognised' % self.cfg.rust)
        out = ['match %s %s with' % (f.fields[p][0], st)]
        for s in f.states:
            body = by.get(s, wild)
            if body is None:
                err('%s: state %s is not covered by the match' % (self.cfg.rust, s))
            out.append('| %s =>\n%s' % (f.state_ctor[s], ind(self.ev(body, env.push(), st, lambda v, env2, st2: k(v, env2.pop(), st2)))))
        out.append('end')
        return '\n'.join(out)

    # ---- macros
    def ev_macro(self, e, env, st, k):
        name, args = e[1], e[2]
        if name == 'try_opt':
            if len(args) != 1:
                err('try_opt!: one argument expected')

            def k_t(v, env2, st2):
                if isinstance(v, VOk):
                    return k(v.v, env2, st2)
                if isinstance(v, VErr):
                    return env2.ret(VSome(VErr(self.from_err(v.v))), env2, st2)
                err('%s: try_opt! on %s' % (self.cfg.rust, self.show(v)))
            return self.ev(args[0], env, st, k_t)
        if name == 'unwrap_or':
            if len(args) != 2 or args[1][0] != 'block':
                err('unwrap_or!: (expr, block) expected')

            def k_u(v, env2, st2):
                def k_none(st3):
                    return self.block(args[1], env2, st3, k)
                return self.match_pat(('pts', ['Some'], [('pbind', '%item')]), v, env2.push(), st2,
                                      lambda env3, st3: k(env3.lookup('%item'), env3.pop(), st3), k_none)
            return self.ev(args[0], env, st, k_u)
        if name == 'debug_assert':
            return k(VUnit(), env, st)
        err('%s: macro %s! is not supported' % (self.cfg.rust, name))

    def ev_try(self, e, env, st, k):
        def k_t(v, env2, st2):
            if isinstance(v, VOk):
                return k(v.v, env2, st2)
            if isinstance(v, VErr):
                x = v.v if self.cfg.errty == 'ioerr' else self.from_err(v.v)
                return env2.ret(VErr(x), env2, st2)
            err('%s: `?` on %s' % (self.cfg.rust, self.show(v)))
        return self.ev(e[1], env, st, k_t)

    # ---- constructors, struct literals, free function calls
    def ev_struct(self, e, env, st, k):
        path, fs = e[1], e[2]
        f = self.fmt
        names = [n for n, _ in fs]
        if path[0] == 'Error' and len(path) == 2 and path[1] in f.errs and f.errs[path[1]][1]:
            ctor, order = f.errs[path[1]]
            if sorted(names) != sorted(order):
                err('%s: fields of Error::%s are %r' % (self.cfg.rust, path[1], names))
            exprs = [dict(fs)[n] for n in names]     # evaluation in source order

            def k_e(vs, env2, st2):
                d = dict(zip(names, vs))
                args = []
                for n in order:
                    v = d[n]
                    if isinstance(v, VStruct) and v.name == 'ErrorPosition':
                        args += [paren(self.coq(v.fields['line'])), paren(self.coq(v.fields['id']))]
                    else:
                        args.append(paren(self.as_nat(v)))
                return k(T('(%s %s)' % (ctor, ' '.join(args)), 'err'), env2, st2)
            return self.ev_list(exprs, env, st, k_e)
        if path == ['RefRecord']:
            ok = (len(fs) == 2 and names == ['buffer', 'buf_pos']
                  and fs[0][1] == ('mcall', ('path', ['self']), 'get_buf', [], fs[0][1][4] if fs[0][1][0] == 'mcall' else None)
                  and flatten(fs[1][1], env) == 'self.buf_pos' and fs[1][1][0] == 'unary' and fs[1][1][1] == '&')
            if not ok or env.selfp != 'self':
                err('%s: RefRecord literal not recognised' % self.cfg.rust)
            return k(VStruct('RefRecord', {'_coq': '(%s %s)' % (f.rec, st)}), env, st)
        if path == ['ErrorPosition']:
            if names != ['line', 'id']:
                err('%s: ErrorPosition literal not recognised' % self.cfg.rust)

            def k_p(vs, env2, st2):
                idv = vs[1]
                return k(VStruct('ErrorPosition', {'line': T(self.as_nat(vs[0]), 'nat'),
                                                   'id': T(self.coq_as(idv, ('option', 'bytes')), ('option', 'bytes'))}), env2, st2)
            return self.ev_list([fs[0][1], fs[1][1]], env, st, k_p)
        if path == ['Reader']:
            # set_policy: all fields moved over unchanged, except the policy
            if sorted(names) != sorted(f.reader_fields):
                err('%s: Reader literal: fields %r' % (self.cfg.rust, names))
            pol = None
            for n, x in fs:
                if n == 'buf_policy':
                    if x[0] != 'path' or len(x[1]) != 1:
                        err('%s: Reader literal: buf_policy must be a parameter' % self.cfg.rust)
                    pol = env.lookup(x[1][0])
                    if not (isinstance(pol, T) and pol.ty == 'policy'):
                        err('%s: Reader literal: buf_policy must be a policy parameter' % self.cfg.rust)
                elif flatten(x, env) != 'self.' + n or x[0] != 'field':
                    err('%s: Reader literal: field %s is not moved over unchanged' % (self.cfg.rust, n))
            r = self.fr()
            # a new policy object has not been consulted yet: empty history
            return 'let %s := %s %s %s [] in\n%s' % (r, f.set_pol, st, pol.s, k(VStruct('Reader', {}), env, r))
        err('%s: struct literal %s is not supported' % (self.cfg.rust, '::'.join(path)))

    def ev_call(self, e, env, st, k):
        fn, args, nid = e[1], e[2], e[3]
        if fn[0] != 'path':
            err('%s: call of a non-path' % self.cfg.rust)
        name = '::'.join(fn[1])
        if name in ('Some', 'Ok', 'Err') and len(args) == 1:
            cls = {'Some': VSome, 'Ok': VOk, 'Err': VErr}[name]
            return self.ev(args[0], env, st, lambda v, env2, st2: k(cls(v), env2, st2))
        if name == 'fill_buf':
            a = args[0] if len(args) == 1 else None
            if a is None or a[0] != 'unary' or a[1] != '&mut' or flatten(a[2], env) != 'self.buf_reader' or self.fmt.fill is None:
                err('%s: fill_buf argument not recognised' % self.cfg.rust)
            self.used_fuels.add('ffuel')
            return self.call_abi('%s ffuel %s' % (self.fmt.fill, st), FILL_ABI, env, k)
        if name == 'trim_cr' and len(args) == 1:
            def k_t(v, env2, st2):
                if not (isinstance(v, T) and v.ty == 'bytes'):
                    err('%s: trim_cr of %s' % (self.cfg.rust, self.show(v)))
                return k(T('trim_cr %s' % paren(v.s), 'bytes'), env2, st2)
            return self.ev(args[0], env, st, k_t)
        if name == 'String::from_utf8_lossy' and len(args) == 1:
            # the model keeps the id as raw bytes
            return self.ev(args[0], env, st, lambda v, env2, st2: k(VStruct('Lossy', {'b': v}), env2, st2))
        if name == 'Memchr::new' and len(args) == 2 and args[0] == ('byte', 10):
            def k_mn(v, env2, st2):
                if not (isinstance(v, T) and v.ty == 'bytes'):
                    err('%s: Memchr::new on %s' % (self.cfg.rust, self.show(v)))
                return k(VStruct('Iter', {'list': 'lf_positions %s' % paren(v.s), 'elt': 'nat'}), env2, st2)
            return self.ev(args[1], env, st, k_mn)
        if name == 'memchr' and len(args) == 2 and args[0] == ('byte', 10):
            def k_m(v, env2, st2):
                if not (isinstance(v, T) and v.ty == 'bytes'):
                    err('%s: memchr in %s' % (self.cfg.rust, self.show(v)))
                return k(T('find_lf %s' % paren(v.s), ('option', 'nat')), env2, st2)
            return self.ev(args[1], env, st, k_m)
        if name == 'io::SeekFrom::Start' and len(args) == 1:
            return self.ev(args[0], env, st, lambda v, env2, st2: k(VStruct('SeekStart', {'p': v}), env2, st2))
        err('%s: call of %s is not supported' % (self.cfg.rust, name))

    def call_abi(self, callee, abi, env, k, wrapped=False):
        """match <callee> with | (r', C args) => ... end, one arm per constructor of the result type"""
        out = ['match %s with' % callee]
        if wrapped:
            # the callee's model type has no panic outcome: its generated version returns `orpanic T`
            r, sv = self.fr(), self.fv()
            out.append('| (%s, Panicked %s) => %s' % (r, sv, self.panic_with(sv, env, r, propagated=True)))
        for cname, tmpl in abi.ctors:
            r = self.fr()
            if wrapped:
                cname = 'Val (' + cname
                if isinstance(tmpl, str) or tmpl[0] == 'perr':
                    err('wrapped result types with %r' % (tmpl,)) if tmpl != 'fuel' else None
                if tmpl == 'fuel':
                    out.append('| (%s, %s)) => %s' % (r, cname, self.fuel_out(r, env)))
                    continue
                v, bs = self.fresh_of(tmpl)
                out.append('| (%s, %s)) =>\n%s' % (r, ' '.join([cname] + bs), ind(k(v, env, r))))
                continue
            if tmpl == 'panic':
                s = self.fv()
                out.append('| (%s, %s %s) => %s' % (r, cname, s, self.panic_with(s, env, r, propagated=True)))
            elif tmpl == 'fuel':
                out.append('| (%s, %s) => %s' % (r, cname, self.fuel_out(r, env)))
            elif tmpl[0] == 'perr':
                x = self.fv()
                out.append('| (%s, %s %s) => %s' % (r, cname, x, self.method_err(T(x, tmpl[1]), env, r)))
            else:
                v, bs = self.fresh_of(tmpl)
                out.append('| (%s, %s) =>\n%s' % (r, ' '.join([cname] + bs), ind(k(v, env, r))))
        out.append('end')
        return '\n'.join(out)

    def method_err(self, e, env, st):
        """the error outcome of the method under translation (for error outcomes that the callee's type has
        but the Rust callee cannot produce)"""
        if self.cfg.kind != 'res':
            err('%s: no error outcome' % self.cfg.rust)
        for name, tmpl in self.cfg.abi.ctors:
            if not isinstance(tmpl, str) and tmpl[0] in ('err', 'perr'):
                return self.out(st, env, '%s %s' % (name, e.s))
            if not isinstance(tmpl, str) and tmpl == ('some', ('err', H('err'))):
                return self.out(st, env, '%s %s' % (name, e.s))
        err('%s: the model type %s has no error outcome' % (self.cfg.rust, self.cfg.abi.coq))

    # ---- indexing and slicing of byte slices
    def ev_index(self, e, env, st, k):
        base, idx, nid = e[1], e[2], e[3]

        def k_b(vb, env2, st2):
            if not (isinstance(vb, T) and vb.ty == 'bytes'):
                err('%s: indexing of %s' % (self.cfg.rust, self.show(vb)))
            b = paren(vb.s)
            if idx is not None and idx[0] == 'range':
                lo, hi = idx[1], idx[2]
                if lo is None:
                    err('%s: slice without lower bound' % self.cfg.rust)

                def k_lo(vlo, env3, st3):
                    slo = paren(self.as_nat(vlo))
                    if hi is None:
                        # &b[lo..]
                        return 'if length %s <? %s then %s else\n%s' % (
                            b, slo, self.panic(nid, env3, st3), k(T('skipn %s %s' % (slo, b), 'bytes'), env3, st3))

                    def k_hi(vhi, env4, st4):
                        n = self.fv()
                        return 'match slice %s %s %s with\n| None => %s\n| Some %s =>\n%s\nend' % (
                            b, slo, paren(self.as_nat(vhi)), self.panic(nid, env4, st4), n,
                            ind(k(T(n, 'bytes'), env4, st4)))
                    return self.ev(hi, env3, st3, k_hi)
                return self.ev(lo, env2, st2, k_lo)

            def k_i(vi, env3, st3):
                n = self.fv()
                return 'match nth_error %s %s with\n| None => %s\n| Some %s =>\n%s\nend' % (
                    b, paren(self.as_nat(vi)), self.panic(nid, env3, st3), n, ind(k(T(n, 'nat'), env3, st3)))
            return self.ev(idx, env2, st2, k_i)
        return self.ev(base, env, st, k_b)

    # ---- method calls
    def ev_mcall(self, e, env, st, k):
        recv, m, args, nid = e[1], e[2], e[3], e[4]
        f = self.fmt
        p = flatten(recv, env)
        if p == 'self' and env.selfp == 'self':
            return self.reader_call(m, args, nid, env, st, k)
        if p == f.reader_path:
            return self.bufreader_call(m, args, nid, env, st, k)
        if p == 'self.buf_policy' and m == 'grow_to' and len(args) == 1:
            def k_g(v, env2, st2):
                c = paren(self.as_nat(v))
                a, r = self.fv(), self.fr()
                return ('let %s := %s %s (%s %s) %s in\n' % (a, f.polf, st2, f.polh, st2, c)
                        + 'let %s := %s (%s %s (%s %s) (%s :: %s %s)) (EvGrow %s %s :: %s %s) in\n' % (
                            r, f.set_log, f.set_pol, st2, f.polf, st2, c, f.polh, st2, c, a, f.log, st2)
                        + k(T(a, ('option', 'nat')), env2, r))
            return self.ev(args[0], env, st, k_g)
        if p is not None and p.startswith('self') and (p, m) in self.tr.inline_methods(f):
            return self.inline_call(self.tr.inline_methods(f)[(p, m)], p, args, nid, env, st, k)
        if p is not None and p in f.fields and f.fields[p][2] == 'listnat':
            g, setter, _ = f.fields[p]
            if m == 'clear' and not args:
                r = self.fr()
                return 'let %s := %s %s [] in\n%s' % (r, setter, st, k(VUnit(), env, r))
            if m == 'push' and len(args) == 1:
                def k_p(v, env2, st2):
                    r = self.fr()
                    return 'let %s := %s %s (%s %s ++ [%s]) in\n%s' % (
                        r, setter, st2, g, st2, self.as_nat(v), k(VUnit(), env2, r))
                return self.ev(args[0], env, st, k_p)
        sp = self.set_place(p, env) if p is not None else None
        if sp is not None:
            root, fld = sp
            g, setter, ty = f.set_fields[fld]
            cur = env.lookup(root).s
            if ty == 'poslist':
                if m == 'clear' and not args:
                    return self.write_set(root, fld, '[]', env, st, k)
                if m == 'push' and len(args) == 1:
                    a = args[0]
                    if not (a[0] == 'mcall' and a[2] == 'clone' and not a[3] and flatten(a[1], env) == 'self.buf_pos'):
                        err('%s: only self.buf_pos.clone() can be pushed' % self.cfg.rust)
                    return self.write_set(root, fld, '%s %s ++ [%s]' % (g, cur, f.bufpos_term(st)), env, st, k)
                if m == 'is_empty' and not args:
                    return k(T('match %s %s with [] => true | _ :: _ => false end' % (g, cur), 'bool'), env, st)
                if m == 'len' and not args:
                    return k(T('length (%s %s)' % (g, cur), 'nat'), env, st)
            if ty == 'bytes':
                if m == 'clear' and not args:
                    return self.write_set(root, fld, '[]', env, st, k)
                if m == 'extend' and len(args) == 1:
                    def k_x(v, env2, st2):
                        if not (isinstance(v, T) and v.ty == 'bytes'):
                            err('%s: extend with %s' % (self.cfg.rust, self.show(v)))
                        return self.write_set(root, fld, '%s %s ++ %s' % (g, env2.lookup(root).s, opnd(v.s)), env2, st2, k)
                    return self.ev(args[0], env, st, k_x)
            err('%s: method .%s on %s is not supported' % (self.cfg.rust, m, p))
        if p is not None and p in f.fields and isinstance(f.fields[p][2], tuple) and f.fields[p][2][0] == 'option' \
                and m == 'take' and not args:
            g, setter, ty = f.fields[p]
            r = self.fr()
            return 'let %s := %s %s None in\n%s' % (r, setter, st, k(T('%s %s' % (g, st), ty), env, r))
        # methods of values
        if m == 'unwrap' and not args and recv[0] == 'mcall' and recv[2] == 'next' and not recv[3]:
            sp = recv[1]
            if sp[0] == 'mcall' and sp[2] == 'split' and len(sp[3]) == 1 and self.is_eq_closure(sp[3][0], 32):
                def k_s(v, env2, st2):
                    if not (isinstance(v, T) and v.ty == 'bytes'):
                        err('%s: split of %s' % (self.cfg.rust, self.show(v)))
                    # the first piece of split(' ') always exists
                    return k(T('fst (split_sp %s)' % paren(v.s), 'bytes'), env2, st2)
                return self.ev(sp[1], env, st, k_s)

        if m == 'all' and len(args) == 1 and recv[0] == 'mcall' and recv[2] == 'split' and len(recv[3]) == 1 \
                and self.is_eq_closure(recv[3][0], 10):
            # X.split(|c| *c == b'\\n').all(|l| body)  ->  forallb (fun l => body) (pieces X)
            def k_all(v, env2, st2):
                if not (isinstance(v, T) and v.ty == 'bytes'):
                    err('%s: split of %s' % (self.cfg.rust, self.show(v)))
                x, body = self.closure1(args[0], 'bytes', env2, st2)
                return k(T('forallb (fun %s => %s) (pieces %s)' % (x, self.as_bool(body), paren(v.s)), 'bool'), env2, st2)
            return self.ev(recv[1], env, st, k_all)

        def k_r(v, env2, st2):
            return self.value_method(v, m, args, nid, env2, st2, k)
        return self.ev(recv, env, st, k_r)

    def closure1(self, c, argty, env, st):
        """a one-parameter closure with a pure body: (binder, value of the body)"""
        if c[0] != 'closure' or len(c[1]) != 1 or c[1][0][0] != 'pbind':
            err('%s: closure form not supported' % self.cfg.rust)
        x = self.fv()
        envc = env.push().bind(c[1][0][1], T(x, argty))
        v = self.try_pure(c[2], envc, st)
        if v is None:
            err('%s: the body of a closure must be a pure expression' % self.cfg.rust)
        return x, v

    def is_eq_closure(self, c, byte):
        """|x| *x == b'..'"""
        if c[0] != 'closure' or len(c[1]) != 1 or c[1][0][0] != 'pbind':
            return False
        x = c[1][0][1]
        b = c[2]
        return (b[0] == 'binary' and b[1] == '==' and b[2] == ('unary', '*', ('path', [x]))
                and b[3] == ('byte', byte))

    def value_method(self, v, m, args, nid, env, st, k):
        if m in ('clone', 'to_owned') and not args:
            return k(v, env, st)
        if m == 'len' and not args and isinstance(v, T) and v.ty in ('bytes', 'listnat'):
            return k(T('length %s' % paren(v.s), 'nat'), env, st)
        if m == 'is_empty' and not args and isinstance(v, T) and v.ty in ('bytes', 'listnat'):
            return k(T('match %s with [] => true | _ :: _ => false end' % v.s, 'bool'), env, st)
        if m in ('is_none', 'is_some') and not args:
            if isinstance(v, (VNone, VSome)):
                return k(T('true' if isinstance(v, VNone) == (m == 'is_none') else 'false', 'bool'), env, st)
            if isinstance(v, T) and isinstance(v.ty, tuple) and v.ty[0] == 'option':
                a, b = ('true', 'false') if m == 'is_none' else ('false', 'true')
                return k(T('match %s with None => %s | Some _ => %s end' % (v.s, a, b), 'bool'), env, st)
        if m == 'ok_or' and len(args) == 1:
            def k_e(ve, env2, st2):
                if isinstance(v, VSome):
                    return k(VOk(v.v), env2, st2)
                if isinstance(v, VNone):
                    return k(VErr(ve), env2, st2)
                if isinstance(v, T) and isinstance(v.ty, tuple) and v.ty[0] == 'option':
                    n = self.fv()
                    return 'match %s with\n| None =>\n%s\n| Some %s =>\n%s\nend' % (
                        v.s, ind(k(VErr(ve), env2, st2)), n, ind(k(VOk(T(n, v.ty[1])), env2, st2)))
                err('%s: ok_or on %s' % (self.cfg.rust, self.show(v)))
            return self.ev(args[0], env, st, k_e)
        if m == 'into' and not args:
            if isinstance(v, VIoErr):
                return k(self.from_err(v), env, st)
            if isinstance(v, VStruct) and v.name == 'Lossy':
                return k(v.fields['b'], env, st)
        if m == 'split' and len(args) == 1 and self.is_eq_closure(args[0], 10) and isinstance(v, T) and v.ty == 'bytes':
            return k(VStruct('Iter', {'list': 'pieces %s' % paren(v.s), 'elt': 'bytes'}), env, st)
        if m == 'kind' and not args and isinstance(v, VIoErr):
            return k(VKindOf(v), env, st)
        if m == 'split_last' and not args and isinstance(v, T) and v.ty == 'bytes':
            return k(T('split_last %s' % paren(v.s), ('option', ('tuple', ('nat', 'bytes')))), env, st)
        if m == 'map' and len(args) == 1 and isinstance(v, T) and isinstance(v.ty, tuple) and v.ty[0] == 'option':
            x, body = self.closure1(args[0], v.ty[1], env, st)
            if not isinstance(body, T):
                err('%s: closure body %s' % (self.cfg.rust, self.show(body)))
            return k(T('option_map (fun %s => %s) %s' % (x, body.s, paren(v.s)), ('option', body.ty)), env, st)
        err('%s: method .%s on %s is not supported' % (self.cfg.rust, m, self.show(v)))

    def bufreader_call(self, m, args, nid, env, st, k):
        f = self.fmt
        if m == 'buffer' and not args:
            return k(T('%s %s' % (f.buf, st), 'bytes'), env, st)
        if m == 'capacity' and not args:
            return k(T('%s %s' % (f.cap, st), 'nat'), env, st)
        if m == 'buf_len' and not args:
            return k(T('length (%s %s)' % (f.buf, st), 'nat'), env, st)
        if m == 'reserve' and len(args) == 1:
            def k_r(v, env2, st2):
                r = self.fr()
                return 'let %s := %s %s (br_reserve (%s %s) (%s %s) %s) in\n%s' % (
                    r, f.set_cap, st2, f.buf, st2, f.cap, st2, paren(self.as_nat(v)), k(VUnit(), env2, r))
            return self.ev(args[0], env, st, k_r)
        if m == 'consume' and len(args) == 1:
            # without make_room(): only the whole window may be consumed (the cursors are then reset)
            def k_c(v, env2, st2):
                n = self.as_nat(v)
                if not isinstance(v, T) or v.defn != 'length (%s %s)' % (f.buf, st2):
                    err('%s: consume(n) without make_room() is only supported for n = buf_len()' % self.cfg.rust)
                r = self.fr()
                return 'let %s := %s %s (skipn %s (%s %s)) in\n%s' % (r, f.set_buf, st2, paren(n), f.buf, st2, k(VUnit(), env2, r))
            return self.ev(args[0], env, st, k_c)
        if m == 'read_into_buf' and not args and f.name == 'lib':
            # one read() into the free space of the buffer; the bytes delivered are appended
            a, d, res, r, n, kk, r2 = self.fv(), self.fv(), self.fv(), self.fr(), self.fv(), self.fv(), self.fr()
            off = '(%s %s - length (%s %s))' % (f.cap, st, f.buf, st)
            return ("let '(%s, %s, %s) := src_read (%s %s) %s in\n" % (a, d, res, f.src, st, off)
                    + 'let %s := %s (%s %s %s) (EvRead %s %s :: %s %s) in\n' % (r, f.set_log, f.set_src, st, a, off, res, f.log, st)
                    + 'match %s with\n| RData %s =>\n%s\n| RInterrupted =>\n%s\n| RFailed %s =>\n%s\nend' % (
                        res, n,
                        ind('let %s := %s %s (%s %s ++ %s) in\n%s' % (r2, f.set_buf, r, f.buf, r, d, k(VOk(T(n, 'nat')), env, r2))),
                        ind(k(VErr(VIoErr(None, True)), env, r)),
                        kk, ind(k(VErr(VIoErr(kk, False)), env, r))))
        if m == 'seek' and len(args) == 1:
            def k_s(v, env2, st2):
                if not (isinstance(v, VStruct) and v.name == 'SeekStart'):
                    err('%s: seek argument not recognised' % self.cfg.rust)
                p = paren(self.as_nat(v.fields['p']))
                a, b, r, kk, r2 = self.fv(), self.fv(), self.fr(), self.fv(), self.fr()
                # buffer_redux: `result = self.inner.seek(pos)?; self.buf.clear();` -- the window is dropped on success only
                return ("let '(%s, %s) := src_seek (%s %s) %s in\n" % (a, b, f.src, st2, p)
                        + 'let %s := %s (%s %s %s) (EvSeek %s %s :: %s %s) in\n' % (r, f.set_log, f.set_src, st2, a, p, b, f.log, st2)
                        + 'match %s with\n| Some %s =>\n%s\n| None =>\n%s\nend' % (
                            b, kk, ind(k(VErr(VIoErr(kk, False)), env2, r)),
                            ind('let %s := %s %s [] in\n%s' % (r2, f.set_buf, r, k(VOk(VUnit()), env2, r2)))))
            return self.ev(args[0], env, st, k_s)
        err('%s: buf_reader.%s is not supported here' % (self.cfg.rust, m))

    def coq_args(self, vs):
        out = []
        for v in vs:
            if isinstance(v, VNum):
                out.append(str(v.n))
            elif isinstance(v, T) and v.ty in ('nat', 'bool', 'stage', 'bytes', 'policy'):
                out.append(paren(v.s))
            else:
                err('%s: argument %s is not supported' % (self.cfg.rust, self.show(v)))
        return out

    def reader_call(self, m, args, nid, env, st, k):
        c = self.tr.method_cfg(self.fmt, m)
        if c is None:
            err('%s: call of self.%s(), which is neither translated nor a known primitive' % (self.cfg.rust, m))
        if c.kind == 'inline':
            return self.inline_call(c, 'self', args, nid, env, st, k)

        def k_a(vs, env2, st2):
            if c.kind == 'prim':
                return c.prim(self, vs, nid, env2, st2, k)
            for fu in c.fuels:
                self.used_fuels.add(fu)
            call = ' '.join([c.coq] + c.fuels + self.coq_args(vs) + [st2])
            if c.kind == 'res':
                return self.call_abi(call, c.abi, env2, k, wrapped=getattr(c, 'wrap_panic', False))
            if c.kind == 'state':
                r = self.fr()
                return 'let %s := %s in\n%s' % (r, call, k(VUnit(), env2, r))
            if c.kind == 'optstate':
                r = self.fr()
                return 'match %s with\n| None => %s\n| Some %s =>\n%s\nend' % (
                    call, self.panic(nid, env2, st2), r, ind(k(VUnit(), env2, r)))
            if c.kind == 'pure':
                return k(T(call, c.ret_ty), env2, st2)
            if c.kind == 'pureopt':
                v, bs = self.fresh_of_ret(c.ret_tmpl)
                return 'match %s with\n| None => %s\n| Some %s =>\n%s\nend' % (
                    call, self.panic(nid, env2, st2), self.pat_of_ret(c.ret_tmpl, bs), ind(k(v, env2, st2)))
            err('%s: call of a method of kind %s' % (self.cfg.rust, c.kind))
        return self.ev_list(args, env, st, k_a)

    def fresh_of_ret(self, tmpl):
        if isinstance(tmpl, tuple) and tmpl[0] == 'val':
            a = self.fv()
            return T(a, tmpl[1]), [a]
        if tmpl == 'ErrorPosition':
            a, b = self.fv(), self.fv()
            return VStruct('ErrorPosition', {'line': T(a, 'nat'), 'id': T(b, ('option', 'bytes'))}), [a, b]
        err('return template %r' % (tmpl,))

    def pat_of_ret(self, tmpl, bs):
        if len(bs) == 1:
            return bs[0]
        return '(' + ', '.join(bs) + ')'

    def inline_call(self, c, recv_path, args, nid, env, st, k):
        fn = self.tr.items[self.fmt.name].method(c.owner, c.rust)
        selfkind, params, ret, body = parse_fn(fn, c.rust)
        if len(params) != len(args):
            err('%s: call of %s with %d arguments' % (self.cfg.rust, c.rust, len(args)))

        def k_a(vs, env2, st2):
            frame = {}
            for (pn, pty, _), v in zip(params, vs):
                frame[pn] = v
            envi = Env([frame], recv_path,
                       lambda v, e_in, st3: k(v, env2, st3), None,
                       env2.site_nid if env2.site_nid is not None else nid, env2.panic_st)
            return self.block(body, envi, st2, lambda v, e_in, st3: envi.ret(v, e_in, st3))
        return self.ev_list(args, env, st, k_a)

    # ---- loops
    def ev_loop(self, e, env, st, k):
        return self.loop_common(None, e[1], env, st, k)

    def ev_while(self, e, env, st, k):
        if e[1][0] == 'letcond':
            err('%s: while let is not supported' % self.cfg.rust)
        return self.loop_common(e[1], e[2], env, st, k)

    def loop_common(self, cond, body, env, st, k):
        if self.cfg.kind != 'res':
            err('%s: loop in a method of kind %s' % (self.cfg.rust, self.cfg.kind))
        if self.cfg.panic_state == 'entry':
            err('%s: loop with the entry-state panic convention' % self.cfg.rust)
        self.nloop += 1
        name = '%s_loop%s' % (self.cfg.coq, '' if self.nloop == 1 else str(self.nloop))
        rec = '\0REC%d\0' % self.nloop
        names = env.all_locals()
        params = []
        frames = []
        newname = {}
        for n in names:
            v = env.lookup(n)
            if isinstance(v, VNum):
                v = T(str(v.n), 'nat')
            if not isinstance(v, T):
                err('%s: local %s of kind %s is live across a loop' % (self.cfg.rust, n, self.show(v)))
            pn = self.fv()
            newname[n] = T(pn, v.ty)
            params.append((pn, coq_ty(v.ty), v.s))
        seen = set()
        for fr_ in env.frames:
            for n in fr_:
                if n in seen:
                    err('%s: shadowed local %s is live across a loop' % (self.cfg.rust, n))
                seen.add(n)
            frames.append({n: newname[n] for n in fr_})
        r_in = self.fr()
        depth = len(env.frames)

        def k_break(env2, st2):
            return k(VUnit(), env2.copy(frames=env2.frames[:depth], loop=env.loop), st2)

        def k_cont(env2, st2):
            e3 = env2.copy(frames=env2.frames[:depth])
            return ' '.join([rec] + [paren(self.coq(e3.lookup(n))) for n in names] + [st2])
        inner = env.copy(frames=frames, loop=(k_break, k_cont))
        if cond is None:
            code = self.block(body, inner, r_in, lambda v, env2, st2: k_cont(env2, st2))
        else:
            def k_c(v, env2, st2):
                c = self.as_bool(v)
                return 'if %s then (\n%s\n) else (\n%s\n)' % (
                    c, ind(self.block(body, env2, st2, lambda v2, env3, st3: k_cont(env3, st3))), ind(k_break(env2, st2)))
            code = self.ev(cond, inner, r_in, k_c)
        fu = [x for x in ('fuel', 'ffuel') if re.search(r'\b%s\b' % x, code)]
        code = code.replace(rec, ' '.join([name, "lfuel'"] + fu))
        ps = ''.join(' (%s : %s)' % (pn, ty) for pn, ty, _ in params)
        text = ('Fixpoint %s (lfuel : nat)%s%s (%s : %s) {struct lfuel} : %s :=\n  match lfuel with\n  | 0 => %s\n  | S lfuel\' =>\n%s\n  end.'
                % (name, ''.join(' (%s : nat)' % x for x in fu), ps, r_in, self.state_ty(), self.ret_ty(),
                   self.fuel_out(r_in, inner), ind(code, 6)))
        if not self.discover:
            self.aux.append(text)
        self.used_fuels.add('fuel')
        for x in fu:
            self.used_fuels.add(x)
        return ' '.join([name, 'fuel'] + fu + [paren(s) for _, _, s in params] + [st])

    def ev_for_mapsub(self, e, env, st, k):
        """for s in &mut self.<vec field> { *s -= e; }   (element-wise subtraction; any underflow panics)"""
        pat, it, body, nid = e[1], e[2], e[3], e[4]
        f = self.fmt
        p = flatten(it, env) if it[0] == 'unary' and it[1] == '&mut' else None
        ok = (pat[0] == 'pbind' and p in f.fields and f.fields[p][2] == 'listnat'
              and len(body[1]) == 1 and body[2] is None and body[1][0][0] == 'expr')
        if ok:
            a = body[1][0][1]
            ok = (a[0] == 'assign' and a[1] == '-=' and a[2] == ('unary', '*', ('path', [pat[1]])))
        if not ok:
            return None
        g, setter, _ = f.fields[p]
        v = self.try_pure(a[3], env, st)
        if v is None:
            err('%s: for loop: the subtrahend must be a pure expression' % self.cfg.rust)
        c = paren(self.as_nat(v))
        if re.search(r'\b%s\b' % re.escape(pat[1]), c) and env.lookup(pat[1]) is not None:
            err('%s: for loop: variable capture' % self.cfg.rust)
        r = self.fr()
        x = self.fv()
        return 'if negb (all_geb (%s %s) %s) then %s else\nlet %s := %s %s (map (fun %s => %s - %s) (%s %s)) in\n%s' % (
            g, st, c, self.panic(nid, env, st), r, setter, st, x, x, c, g, st, k(VUnit(), env, r))

    def ev_for(self, e, env, st, k):
        """for x in <list-valued iterator> { body }: a local structural fix over the list; the live locals and the
        state are its parameters; `continue`/end of body = the call on the tail; `break` and the empty list run
        the code after the loop"""
        r = self.ev_for_mapsub(e, env, st, k)
        if r is not None:
            return r
        pat, it, body, nid = e[1], e[2], e[3], e[4]
        if pat[0] != 'pbind':
            err('%s: for pattern not supported' % self.cfg.rust)
        if self.cfg.kind != 'res' or self.cfg.panic_state == 'entry':
            err('%s: for loop in a method of kind %s' % (self.cfg.rust, self.cfg.kind))

        def k_it(vit, env1, st1):
            if not (isinstance(vit, VStruct) and vit.name == 'Iter'):
                err('%s: for loop over %s is not supported' % (self.cfg.rust, self.show(vit)))
            self.nfor += 1
            name = 'for%d' % self.nfor
            names = env1.all_locals()
            params = []
            newname = {}
            for n in names:
                v = env1.lookup(n)
                if isinstance(v, VNum):
                    v = T(str(v.n), 'nat')
                if not isinstance(v, T):
                    err('%s: local %s of kind %s is live across a loop' % (self.cfg.rust, n, self.show(v)))
                pn = self.fv()
                newname[n] = T(pn, v.ty)
                params.append((pn, coq_ty(v.ty), v.s))
            seen = set()
            frames = []
            for fr_ in env1.frames:
                for n in fr_:
                    if n in seen:
                        err('%s: shadowed local %s is live across a loop' % (self.cfg.rust, n))
                    seen.add(n)
                frames.append({n: newname[n] for n in fr_})
            r_in = self.fr()
            x, l, l2 = self.fv(), self.fv(), self.fv()
            depth = len(env1.frames)
            name = '%s_for%s' % (self.cfg.coq, '' if self.nfor == 1 else str(self.nfor))
            rec = '\0FOR%d\0' % self.nfor

            def k_after(env2, st2):
                e3 = env2.copy(frames=env2.frames[:depth])
                return ' '.join(['K'] + [paren(self.coq(e3.lookup(n))) for n in names] + [st2])

            def k_cont(env2, st2):
                e3 = env2.copy(frames=env2.frames[:depth])
                return ' '.join([rec, l2] + [paren(self.coq(e3.lookup(n))) for n in names] + [st2])
            inner = env1.copy(frames=frames, loop=(k_after, k_cont))
            benv = inner.push().bind(pat[1], T(x, vit.fields['elt']))
            code = self.block(body, benv, r_in, lambda v, env2, st2: k_cont(env2, st2))
            fu = [f_ for f_ in ('fuel', 'ffuel') if re.search(r'\b%s\b' % f_, code)]
            code = code.replace(rec, ' '.join([name, 'K'] + fu))
            ps = ''.join(' (%s : %s)' % (pn, ty) for pn, ty, _ in params)
            kty = ' -> '.join([ty if re.match(r'^\w+$', ty) else '(%s)' % ty for _, ty, _ in params] + [self.state_ty(), paren(self.ret_ty())])
            text = ('Fixpoint %s (K : %s)%s (%s : list %s)%s (%s : %s) {struct %s} : %s :=\n  match %s with\n  | [] => %s\n  | %s :: %s =>\n%s\n  end.'
                    % (name, kty, ''.join(' (%s : nat)' % f_ for f_ in fu), l, paren(coq_ty(vit.fields['elt'])), ps,
                       r_in, self.state_ty(), l, self.ret_ty(), l,
                       ' '.join(['K'] + [pn for pn, _, _ in params] + [r_in]), x, l2, ind(code, 6)))
            if not self.discover:
                self.aux.append(text)
            for f_ in fu:
                self.used_fuels.add(f_)
            # the code after the loop, as the continuation K
            r_k = self.fr()
            kenv = env1.copy(frames=frames)
            kps = ''.join(' (%s : %s)' % (pn, ty) for pn, ty, _ in params)
            after = k(VUnit(), kenv, r_k)
            lam = '(fun%s (%s : %s) =>\n%s)' % (kps, r_k, self.state_ty(), ind(after))
            return ' '.join([name, lam] + fu + [paren(vit.fields['list'])] + [paren(s_) for _, _, s_ in params] + [st1])
        return self.ev(it, env, st, k_it)

    # ======================================================================
    # driver for one method
    # ======================================================================
    def state_ty(self):
        return self.fmt.sty

    def ret_ty(self):
        c = self.cfg
        if c.kind == 'res':
            if self.extra is not None:
                return '%s * %s * %s' % (self.state_ty(), self.fmt.set_ty, c.abi.coq)
            if getattr(c, 'wrap_panic', False):
                return '%s * orpanic %s' % (self.state_ty(), c.abi.coq)
            return '%s * %s' % (self.state_ty(), c.abi.coq)
        if c.kind == 'state':
            return self.state_ty()
        if c.kind == 'optstate':
            return 'option %s' % self.state_ty()
        if c.kind == 'pure':
            return c.ret
        if c.kind == 'pureopt':
            return 'option %s' % paren(c.ret)
        err('kind %s' % c.kind)

    PARAM_TYPES = {
        'bool': 'bool', 'usize': 'nat', 'u64': 'nat', 'RecordPos': 'stage', 'T': 'policy',
        '& [ u8 ]': 'bytes', "& 'a [ u8 ]": 'bytes', 'Option < usize >': ('option', 'nat'),
    }

    def run(self, fn):
        c = self.cfg
        selfkind, params, ret, body = parse_fn(fn, c.rust)
        if c.sig is not None and (selfkind, [p[1] for p in params], ret) != c.sig:
            err('%s: signature changed: %r' % (c.rust, (selfkind, [p[1] for p in params], ret)))
        c.errty = 'ioerr' if ret.startswith('io ::') else 'err'
        frame = {}
        cparams = []
        n = 0
        nostate = getattr(c, 'nostate', False)
        if c.owner is None:
            if selfkind is not None:
                err('%s: a free function was expected' % c.rust)
        elif selfkind is None:
            err('%s: a method was expected' % c.rust)
        for pn, pty, mut in params:
            n += 1
            if pty.startswith('& mut buffer_redux :: BufReader <') and c.owner is None and pn == self.fmt.reader_path:
                continue     # the state
            if pty == '& mut RecordSet' and self.fmt.set_ty is not None and c.kind == 'res' and self.extra is None:
                self.extra = pn
                frame[pn] = T('s', self.fmt.set_ty)
                continue
            if pty == '& Position':
                a, b = 'a%d_line' % n, 'a%d_byte' % n
                cparams += [(a, 'nat'), (b, 'nat')]
                frame[pn] = VStruct('Position', {'line': T(a, 'nat'), 'byte': T(b, 'nat')})
            elif pty in self.PARAM_TYPES:
                ty = self.PARAM_TYPES[pty]
                a = 'a%d' % n
                cparams.append((a, coq_ty(ty)))
                frame[pn] = T(a, ty)
            else:
                err('%s: parameter type %s is not supported' % (c.rust, pty))
        st0 = '_nostate_' if nostate else 'r'

        def top_ret(v, env, st):
            return self.method_return(v, env, st)
        env0 = Env([frame], 'self', top_ret, None, None, st0)
        # pass 1: which nodes can panic
        self.discover = True
        self.reset_names()
        self.used_fuels = set()
        self.block(body, env0, st0, lambda v, env, st: env.ret(v, env, st))
        order = canonical_order(body, self.fmt)
        req = sorted(self.site_req, key=lambda nid: order.index(nid))
        if len(req) != len(c.sites):
            err('%s: %d operations can panic, but %d panic sites are configured' % (c.rust, len(req), len(c.sites)))
        self.site_of = dict(zip(req, c.sites))
        # pass 2
        self.discover = False
        self.reset_names()
        self.used_fuels = set()
        self.aux = []
        code = self.block(body, env0, st0, lambda v, env, st: env.ret(v, env, st))
        if sorted(self.used_fuels) != sorted(c.fuels):
            err('%s: needs fuel parameters %r, configured %r' % (c.rust, sorted(self.used_fuels), sorted(c.fuels)))
        ps = ''.join(' (%s : nat)' % x for x in c.fuels) + ''.join(' (%s : %s)' % (a, paren(t)) for a, t in cparams)
        if nostate:
            if st0 in code or any(st0 in a for a in self.aux):
                err('%s: a function without reader state touches the state' % c.rust)
            text = 'Definition %s%s : %s :=\n%s.' % (c.coq, ps, self.ret_ty(), ind(code))
        else:
            if self.extra is not None:
                ps += ' (%s : %s)' % (st0, self.state_ty())
                text = 'Definition %s%s (s : %s) : %s :=\n%s.' % (c.coq, ps, self.fmt.set_ty, self.ret_ty(), ind(code))
            else:
                text = 'Definition %s%s (%s : %s) : %s :=\n%s.' % (c.coq, ps, st0, self.state_ty(), self.ret_ty(), ind(code))
        return '\n\n'.join(self.aux + [text])


def canonical_order(body, fmt):
    """node ids in evaluation order, the arms of a match on the state in the order of the model's inductive"""
    out = []

    def walk(x):
        if isinstance(x, tuple):
            if x and x[0] == 'match' and isinstance(x[2], list):
                walk(x[1])
                arms = x[2]

                def key(arm):
                    pat = arm[0]
                    alts = pat[1] if pat[0] == 'por' else [pat]
                    ks = []
                    for a in alts:
                        if a[0] == 'ppath' and len(a[1]) == 2 and a[1][0] == 'State' and a[1][1] in fmt.states:
                            ks.append(fmt.states.index(a[1][1]))
                    return min(ks) if ks else None
                keys = [key(a) for a in arms]
                if all(kx is not None for kx in keys):
                    arms = [a for _, a in sorted(zip(keys, arms), key=lambda t: t[0])]
                for a in arms:
                    walk(a[1])
                    walk(a[2])
                out.append(x[3])
                return
            for y in x:
                walk(y)
            if x and isinstance(x[0], str) and x[0] in ('binary', 'assign', 'index', 'mcall', 'call', 'for', 'try', 'macro', 'if', 'loop', 'while') and isinstance(x[-1], int):
                out.append(x[-1])
        elif isinstance(x, list):
            for y in x:
                walk(y)
    walk(body)
    return out


# ==========================================================================
# 7. Method tables
# ==========================================================================

FB_ABI = Abi('fb_res', [('FbSome', ('ok', ('some', ('tuple', [H('nat'), H('nat'), H('nat')])))),
                        ('FbNone', ('ok', ('none',))),
                        ('FbErr', ('err', H('errio'))),
                        ('FbFuel', 'fuel')])


def fa_methods():
    E = H('err')
    ms = [
        M('get_buf', None, 'inline'),
        M('is_new', None, 'inline', owner='BufferPosition'),
        M('reset', None, 'inline', owner='BufferPosition'),
        M('discard_buffer', 'gen_fa_discard_buffer', 'state'),
        M('_search', 'gen_fa_search_', 'res', abi=Abi('sres', [('SFound', H('bool')), ('SPanic', 'panic')]), sites=[1, 0]),
        M('first_byte', 'gen_fa_first_byte', 'res', fuels=['fuel', 'ffuel'], abi=FB_ABI, sites=[0, 0, 0, 0]),
        M('increment_record', 'gen_fa_increment_record', 'optstate', sites=[0]),
        M('grow', 'gen_fa_grow', 'res', abi=FA_GRES(('ok', ('unit',))), sites=[0]),
        M('make_room', 'gen_fa_make_room', 'res', abi=FA_GRES(('unit',)), sites=[2, 2], panic_state='entry'),
        M('position', 'gen_fa_position', 'pure', ret='option (nat * nat)'),
        M('set_policy', 'gen_fa_set_policy', 'state'),
        M('search', 'gen_fa_search', 'res',
          abi=Abi('sres', [('SFound', ('ok', H('bool'))), ('SPanic', 'panic')])),
        M('seek', 'gen_fa_seek', 'res', fuels=['ffuel'],
          abi=Abi('fa_out', [('OOk', ('ok', ('unit',))), ('OErr', ('err', E)), ('OPanic', 'panic'), ('OFuel', 'fuel')])),
        M('init', 'gen_fa_init', 'res', fuels=['fuel', 'ffuel'],
          abi=Abi('ires', [('IOk', ('ok', H('bool'))), ('IErr', ('err', E)), ('IFuel', 'fuel')])),
    ]
    for m in ms:
        if m.rust in ('first_byte', 'init'):
            m.wrap_panic = True
    ms += [
        M('resume_incomplete_search', 'gen_fa_resume_incomplete_search', 'res', fuels=['fuel', 'ffuel'],
          abi=Abi('rres_b', [('RsOk', ('ok', H('bool'))), ('RsErr', ('err', E)), ('RsPanic', 'panic'), ('RsFuel', 'fuel')])),
        M('next', 'gen_fa_next', 'res', fuels=['fuel', 'ffuel'], sites=[3],
          abi=Abi('fa_out', [('ONone', ('none',)), ('ORec', ('some', ('ok', H('RefRecord')))),
                             ('OErr', ('some', ('err', E))), ('OPanic', 'panic'), ('OFuel', 'fuel')])),
        M('read_record_set_exact', 'gen_fa_read_record_set_exact', 'res', fuels=['fuel', 'ffuel'], sites=[3, 3],
          abi=Abi('fa_out', [('ONone', ('none',)), ('OSetOk', ('some', ('ok', ('unit',)))),
                             ('OErr', ('some', ('err', E))), ('OPanic', 'panic'), ('OFuel', 'fuel')])),
    ]
    return ms


FA_INLINE_RECV = {'is_new': 'self.buf_pos', 'reset': 'self.buf_pos'}

QRRES = Abi('qrres', [('QrOk', ('ok', H('bool'))), ('QrErr', ('err', H('err'))), ('QrPanic', 'panic'), ('QrFuel', 'fuel')])


def fq_methods():
    E = H('err')
    SITES_SEARCH = [21, 22, 23, 24, 0]
    ms = [
        M('get_buf', None, 'inline'),
        M('reset', None, 'inline', owner='BufferPosition'),
        M('head', None, 'inline', owner='BufferPosition'),
        M('seq', None, 'inline', owner='BufferPosition'),
        M('qual', None, 'inline', owner='BufferPosition'),
        M('discard_buffer', 'gen_fq_discard_buffer', 'state'),
        M('find_line', 'gen_fq_find_line', 'pureopt', ret='option nat', sites=[0]),
        M('increment_record', 'gen_fq_increment_record', 'optstate', sites=[0]),
        M('grow', 'gen_fq_grow', 'res', abi=FQ_GRES(('ok', ('unit',))), sites=[0]),
        M('make_room', 'gen_fq_make_room', 'res', abi=FQ_GRES(('unit',)), sites=[31, 31, 31]),
        M('get_error_pos', 'gen_fq_get_error_pos', 'pureopt', ret='nat * option (list byte)', sites=[0, 0]),
        M('validate', 'gen_fq_validate', 'res',
          abi=Abi('vres', [('VOk', ('ok', ('unit',))), ('VErr', ('err', E)), ('VPanic', 'panic')]),
          sites=[11, 12, 13, 14, 17, 17, 16]),
        M('set_policy', 'gen_fq_set_policy', 'state'),
        M('check_end', 'gen_fq_check_end', 'res', abi=QRRES, sites=[41, 42]),
        M('search', 'gen_fq_search', 'res',
          abi=Abi('qbres', [('QbOk', ('ok', H('bool'))), ('QbErr', ('err', E)), ('QbPanic', 'panic')]),
          sites=SITES_SEARCH),
        M('search_incomplete', 'gen_fq_search_incomplete', 'res',
          abi=Abi('qsres', [('QsRec', ('ok', ('none',))), ('QsIncomplete', ('ok', ('some', H('stage')))),
                            ('QsErr', ('err', E)), ('QsPanic', 'panic')]),
          sites=SITES_SEARCH),
        M('seek', 'gen_fq_seek', 'res', fuels=['ffuel'],
          abi=Abi('fq_out', [('QOOk', ('ok', ('unit',))), ('QOErr', ('err', E)), ('QOPanic', 'panic'), ('QOFuel', 'fuel')])),
        M('init', 'gen_fq_init', 'res', fuels=['ffuel'],
          abi=Abi('qires', [('QIOk', ('ok', H('bool'))), ('QIErr', ('err', E)), ('QIFuel', 'fuel')])),
        M('resume_incomplete_search', 'gen_fq_resume_incomplete_search', 'res', fuels=['fuel', 'ffuel'], abi=QRRES),
        M('next', 'gen_fq_next', 'res', fuels=['fuel', 'ffuel'], sites=[3],
          abi=Abi('fq_out', [('QONone', ('none',)), ('QORec', ('some', ('ok', H('RefRecord')))),
                             ('QOErr', ('some', ('err', E))), ('QOPanic', 'panic'), ('QOFuel', 'fuel')])),
        M('read_record_set_exact', 'gen_fq_read_record_set_exact', 'res', fuels=['fuel', 'ffuel'], sites=[3, 3],
          abi=Abi('fq_out', [('QONone', ('none',)), ('QOSetOk', ('some', ('ok', ('unit',)))),
                             ('QOErr', ('some', ('err', E))), ('QOPanic', 'panic'), ('QOFuel', 'fuel')])),
    ]
    for m in ms:
        if m.rust == 'get_error_pos':
            m.ret_tmpl = 'ErrorPosition'
        if m.rust == 'find_line':
            m.ret_tmpl = ('val', ('option', 'nat'))
    return ms


def lib_methods():
    ms = [
        M('trim_cr', 'gen_trim_cr', 'pure', owner=None, ret='list byte'),
        M('fill_buf', 'gen_fill_buf', 'res', owner=None, fuels=['fuel'], abi=FILL_ABI),
    ]
    ms[0].nostate = True
    return ms


FQ_INLINE_RECV = {'reset': 'self.buf_pos', 'head': 'self.buf_pos', 'seq': 'self.buf_pos', 'qual': 'self.buf_pos'}


PRELUDE = '''(* GENERATED by tools/translate_core.py from src/{lib,fasta,fastq}.rs of the repository under test -- do not edit *)
From SeqIO Require Import Model.Base Model.Fasta Model.Fastq.

(* ---- fixed prelude: helpers the generated definitions refer to ---- *)

(* RecordPos == RecordPos (derive(PartialEq) on a field-less enum) *)
Definition stage_eqb (a b : stage) : bool := stage_num a =? stage_num b.

(* outcome of a FASTQ method returning Result<bool, Error> for which the model has no type of its own
   (fastq `search`: the model folds it into fq_search_from) *)
Inductive qbres := QbOk (b : bool) | QbErr (e : fq_err) | QbPanic (site : nat).

(* the buffer_redux::BufReader that lib.rs `fill_buf` works on: window, capacity, wrapped source, event log *)
Record br := mkBr { br_buf : list byte; br_cap : nat; br_src : source; br_log : list ev }.
Definition br_set_buf b v := mkBr v (br_cap b) (br_src b) (br_log b).
Definition br_set_src b v := mkBr (br_buf b) (br_cap b) v (br_log b).
Definition br_set_log b v := mkBr (br_buf b) (br_cap b) (br_src b) v.

(* field updates of the record sets *)
Definition fs_set_buffer (s : fa_set) v := mkFaSet v (spositions s) (snpos s).
Definition fs_set_positions (s : fa_set) v := mkFaSet (sbuf s) v (snpos s).
Definition fs_set_npos (s : fa_set) v := mkFaSet (sbuf s) (spositions s) v.
Definition qs_set_buffer (s : fq_set) v := mkFqSet v (qspos s).
Definition qs_set_positions (s : fq_set) v := mkFqSet (qsbuf s) v.

(* result of a generated function whose model type has no panic outcome (the model asserts that the function
   cannot panic; the generated code has the guards, the equality proof shows them dead) *)
Inductive orpanic (A : Type) := Val (a : A) | Panicked (site : nat).
Arguments Val {A} a.
Arguments Panicked {A} site.

(* [u8] == [u8] *)
Fixpoint bytes_eqb (a b : list byte) : bool :=
  match a, b with
  | [], [] => true
  | x :: a', y :: b' => (x =? y) && bytes_eqb a' b'
  | _, _ => false
  end.

(* Memchr::new(b'\n', s): the indices of the LFs of s, in order *)
Fixpoint lf_positions_from (l : list byte) (i : nat) : list nat :=
  match l with
  | [] => []
  | c :: t => if c =? LF then i :: lf_positions_from t (S i) else lf_positions_from t (S i)
  end.
Definition lf_positions (l : list byte) : list nat := lf_positions_from l 0.

(* <[u8]>::split_last *)
Fixpoint split_last (l : list byte) : option (byte * list byte) :=
  match l with
  | [] => None
  | c :: t => match split_last t with
              | None => Some (c, [])
              | Some (x, i) => Some (x, c :: i)
              end
  end.
'''


class Translator:
    def __init__(self, repo):
        rd = lambda f: open(os.path.join(repo, 'src', f)).read()
        self.items = {'fa': Items('fasta.rs', rd('fasta.rs')), 'fq': Items('fastq.rs', rd('fastq.rs')),
                      'lib': Items('lib.rs', rd('lib.rs'))}
        self.fmts = {'fa': make_fa(), 'fq': make_fq(), 'lib': make_lib()}
        self.tables = {'lib': lib_methods(), 'fa': fa_methods(), 'fq': fq_methods()}
        self.recv = {'fa': FA_INLINE_RECV, 'fq': FQ_INLINE_RECV, 'lib': {}}
        for t in self.tables.values():
            for m in t:
                if not hasattr(m, 'sig'):
                    m.sig = None

    # ---- what the translation relies on besides the translated bodies
    MACROS = {
        'try_opt': '( $ expr : expr ) => { match $ expr { Ok ( item ) => item , Err ( e ) => return Some ( Err ( :: std :: convert :: From :: from ( e ) ) ) , } } ;',
        'unwrap_or': '( $ expr : expr , $ or : block ) => { match $ expr { Some ( item ) => item , None => $ or , } } ;',
    }
    STRUCTS = {
        'fa': {'Reader': [('buf_reader', 'buffer_redux :: BufReader < R >'), ('buf_pos', 'BufferPosition'),
                          ('position', 'Position'), ('search_pos', 'usize'), ('state', 'State'), ('buf_policy', 'P')],
               'Position': [('line', 'u64'), ('byte', 'u64')],
               'BufferPosition': [('start', 'usize'), ('seq_pos', 'Vec < usize >')]},
        'fq': {'Reader': [('buf_reader', 'buffer_redux :: BufReader < R >'), ('buf_pos', 'BufferPosition'),
                          ('incomplete_pos', 'Option < RecordPos >'), ('position', 'Position'), ('state', 'State'),
                          ('buf_policy', 'P')],
               'Position': [('line', 'u64'), ('byte', 'u64')],
               'BufferPosition': [('pos', '( usize , usize )'), ('seq', 'usize'), ('sep', 'usize'), ('qual', 'usize')]},
    }
    # methods that are NOT translated but mapped to a function of the model as a whole (iterator-heavy code):
    # a change of their text must be looked at by a human, so their token stream is pinned
    PRIMITIVES = {'fa': {}, 'fq': {}}     # (none left: every method on the list is translated)

    def check_environment(self):
        lib = self.items['lib']
        for name, text in self.MACROS.items():
            if lib.macros.get(name) != text:
                err('lib.rs: macro %s! is not defined as expected' % name)
        for key in ('fa', 'fq'):
            it = self.items[key]
            fmt = self.fmts[key]
            # State: a field-less enum compared with == only
            if 'State' not in it.enums:
                err('%s: enum State not found' % fmt.file)
            attrs, variants = it.enums['State']
            if sorted(variants) != sorted(fmt.states):
                err('%s: the variants of State are %r' % (fmt.file, variants))
            if not any(re.search(r'\bPartialEq\b', a) for a in attrs if a.startswith('derive')):
                err('%s: State does not derive PartialEq' % fmt.file)
            for sname, fields in self.STRUCTS[key].items():
                if it.structs.get(sname) != fields:
                    err('%s: the fields of struct %s are %r' % (fmt.file, sname, it.structs.get(sname)))
            # Error: From<io::Error> wraps into Error::Io
            fr = [fns for (trait, ty, fns) in it.impls if trait == 'From' and ty == 'Error']
            if len(fr) != 1 or len(fr[0]) != 1 or fr[0][0].name != 'from' or \
                    ' '.join(t.s for t in fr[0][0].body) != 'Error :: Io ( e )':
                err('%s: impl From<io::Error> for Error is not `Error::Io(e)`' % fmt.file)
            attrs, variants = it.enums.get('Error', ([], []))
            if sorted(variants) != sorted(['Io'] + list(fmt.errs.keys())):
                err('%s: the variants of Error are %r' % (fmt.file, variants))
            for mname, (what, digest) in self.PRIMITIVES[key].items():
                fn = it.method('Reader', mname)
                txt = ' '.join(t.s for t in fn.sig) + ' { ' + ' '.join(t.s for t in fn.body) + ' }'
                d = hashlib.sha256(txt.encode()).hexdigest()[:16]
                if d != digest:
                    err('%s: %s is mapped to the model function %s as a whole and its text has changed (digest %s): '
                        'check the model by hand, then update the digest in tools/translate_core.py' % (fmt.file, mname, what, d))
        # RecordPos: the derived order is the order of declaration
        attrs, variants = self.items['fq'].enums.get('RecordPos', ([], []))
        if variants != STAGES:
            err('fastq.rs: the variants of RecordPos are %r' % variants)
        d = ' '.join(a for a in attrs if a.startswith('derive'))
        for tr_ in ('PartialEq', 'PartialOrd', 'Ord', 'Copy'):
            if not re.search(r'\b%s\b' % tr_, d):
                err('fastq.rs: RecordPos does not derive %s' % tr_)

    PINNED = {('fa', 'BufferPosition', 'update'): '55f2386eaf6f18f1'}

    def check_digest(self, fmt, owner, name):
        """a helper method whose meaning is built into a recogniser: its text is pinned"""
        fn = self.items[fmt.name].method(owner, name)
        txt = ' '.join(t.s for t in fn.sig) + ' { ' + ' '.join(t.s for t in fn.body) + ' }'
        d = hashlib.sha256(txt.encode()).hexdigest()[:16]
        if self.PINNED.get((fmt.name, owner, name)) != d:
            err('%s: %s::%s has changed (digest %s): check the recogniser that builds on it, then update the digest'
                % (fmt.file, owner, name, d))

    def method_cfg(self, fmt, name):
        for m in self.tables[fmt.name]:
            if m.rust == name and m.owner == 'Reader':
                return m
        return None

    def inline_methods(self, fmt):
        out = {}
        for m in self.tables[fmt.name]:
            if m.kind == 'inline' and m.owner != 'Reader':
                out[(self.recv[fmt.name][m.rust], m.rust)] = m
        return out

    def generate(self):
        self.check_environment()
        out = [PRELUDE]
        for key in ('lib', 'fa', 'fq'):
            fmt = self.fmts[key]
            for m in self.tables[key]:
                if m.kind in ('inline', 'prim'):
                    continue
                ex = Exec(self, fmt, m, self.items[key])
                if m.owner is None:
                    fn = self.items[key].free_fn(m.rust)
                    out.append('(* %s: fn %s *)\n' % (fmt.file, m.rust) + ex.run(fn))
                else:
                    fn = self.items[key].method(m.owner, m.rust)
                    out.append('(* %s: %s::%s *)\n' % (fmt.file, m.owner, m.rust) + ex.run(fn))
        return '\n\n'.join(out) + '\n'


def main():
    if len(sys.argv) != 3:
        print('usage: translate_core.py <repo dir> <out dir>')
        return 2
    repo, outdir = sys.argv[1], sys.argv[2]
    try:
        text = Translator(repo).generate()
    except TranslateError as e:
        print('TRANSLATE-CORE-ERROR %s' % e)
        return 1
    os.makedirs(outdir, exist_ok=True)
    p = os.path.join(outdir, 'CoreGen.v')
    open(p, 'w').write(text)
    print('translate_core: wrote %s (%d lines)' % (p, text.count('\n')))
    return 0


if __name__ == '__main__':
    sys.exit(main())
