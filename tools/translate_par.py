#!/usr/bin/env python3
"""Translator for the per-record closures of src/parallel.rs of seq_io.

usage: translate_par.py <repo dir> <out dir>      (writes <out dir>/ParGen.v)

Sibling of translate_core.py / translate_views.py (whose lexer and parser for the Rust subset it reuses).  It
locates, by brace matching on the token stream,

  * inside `macro_rules! parallel_record_impl`, in `pub fn $name_init`, the call `read_parallel_init::<..>(..)`:
    its 5th argument (the WORKER closure) and its 6th argument (the CONSUMER closure);
  * in `pub fn parallel_records`, the call `read_parallel(..)`: its 4th and 5th arguments (worker, consumer);
  * `ParallelRecordsets::next`;

and turns every closure body into Gallina definitions over lists by symbolic execution (every `for` / `while let`
becomes a structural `Fixpoint` over the list behind its iterator).  coq/core/ParGenP.v proves the generated
definitions equal to the hand-written model functions `work_zip` / `consume_zip` of Model/Par.v.

Strict by design: anything that is not recognised raises TranslateError; the program then prints a line
`TRANSLATE-PAR-ERROR ...` and exits with code 1.  See coq/core/README-par.md for the conventions.

  1. parser additions            3. values, store, symbolic execution
  2. locating the closures       4. fixed prelude, closure table, driver
"""
import os
import re
import sys

sys.path.insert(0, os.path.dirname(os.path.abspath(__file__)))
from translate_core import TranslateError, err, lex, match_close, Parser, paren, ind      # noqa: E402


# ==========================================================================
# 1. Parser additions: `&mut (..)` patterns, turbofish in paths
# ==========================================================================

class PParser(Parser):
    def pattern1(self):
        t = self.peek()
        if t is not None and t.k == 'p' and t.s == '&' and self.at('mut', 1) and self.at('(', 2):
            self.eat('&')
            self.eat('mut')
            return ('pref', self.pattern1())
        return Parser.pattern1(self)

    def primary(self, stmt, nostruct):
        if self.at('::'):
            self.eat('::')                # `::std::mem::replace`: a path from the crate root
            return ('path', ['::'] + self.path())
        if self.at('move') and self.at('|', 1):
            self.eat('move')          # `move |x| ..`: what is captured by value is irrelevant for the translation
        return Parser.primary(self, stmt, nostruct)

    def path(self):
        """a path; `::<..>` (turbofish) is kept as one segment '<a,b>'"""
        segs = [self.eat().s]
        while self.at('::'):
            self.eat('::')
            if self.at('<'):
                depth = 0
                g = []
                while True:
                    t = self.eat()
                    g.append(t.s)
                    if t.s == '<':
                        depth += 1
                    elif t.s == '>':
                        depth -= 1
                        if depth == 0:
                            break
                segs.append(''.join(g))
                continue
            t = self.eat()
            if t.k != 'id':
                self.fail('path segment expected')
            segs.append(t.s)
        return segs


# ==========================================================================
# 2. Locating the closures
# ==========================================================================

def text(toks):
    return ' '.join(t.s for t in toks)


def find_seq(toks, seq, a=0, b=None):
    """indices i in [a, b) where the token texts seq start"""
    b = len(toks) if b is None else b
    n = len(seq)
    return [i for i in range(a, b - n + 1) if all(toks[i + j].s == seq[j] for j in range(n))]


def once(found, what):
    if len(found) != 1:
        err('%s: expected exactly once, found %d times' % (what, len(found)))
    return found[0]


def split_args(toks, a, b):
    """the token ranges of the comma-separated arguments in toks[a:b] (a is just after the `(`, b the `)`); a comma
    inside brackets or inside the parameter list `|..|` of a closure that starts an argument does not split"""
    args = []
    start = a
    i = a
    depth = 0
    at_start = True
    while i < b:
        t = toks[i]
        if at_start and depth == 0 and t.k == 'p' and t.s == '|':
            # parameter list of a closure: skip to the closing `|` at bracket depth 0
            d = 0
            i += 1
            while i < b and not (d == 0 and toks[i].s == '|' and toks[i].k == 'p'):
                if toks[i].k == 'p' and toks[i].s in '([{':
                    d += 1
                elif toks[i].k == 'p' and toks[i].s in ')]}':
                    d -= 1
                i += 1
            if i >= b:
                err('unterminated closure parameter list')
            i += 1
            at_start = False
            continue
        at_start = False
        if t.k == 'p' and t.s in ('(', '[', '{'):
            depth += 1
        elif t.k == 'p' and t.s in (')', ']', '}'):
            depth -= 1
        elif t.k == 'p' and t.s == ',' and depth == 0:
            args.append((start, i))
            start = i + 1
            at_start = True
        i += 1
    if start < b:
        args.append((start, b))
    return args


def fn_parts(toks, i, what):
    """toks[i] is the `fn` keyword: (signature tokens, body start (after `{`), body end (the `}`))"""
    j = i
    while toks[j].s != '{':
        if toks[j].s == ';':
            err('%s has no body' % what)
        j += 1
    e = match_close(toks, j)
    return toks[i:j], j + 1, e


def require_sig(sig, pieces, what):
    s = ' ' + text(sig) + ' '
    for p in pieces:
        q = ' ' + text(lex(p)) + ' '
        if q not in s:
            err('%s: the signature no longer contains `%s`' % (what, p))


def parse_closure(toks, a, b, what):
    p = PParser(toks[a:b], what)
    e = p.expr()
    if not p.done():
        p.fail('trailing tokens after the closure')
    if e[0] != 'closure':
        err('%s: a closure is expected' % what)
    params, body = e[1], e[2]
    if body[0] != 'block':
        body = ('block', [], body)
    return params, body


def require_text(toks, a, b, expected, what):
    if text(toks[a:b]) != text(lex(expected)):
        err('%s: expected `%s`, found `%s`' % (what, expected, text(toks[a:b])))


def locate(src):
    toks = lex(src)
    out = {}

    # ---- read_parallel_init / read_parallel: which argument is what
    i = once(find_seq(toks, ['pub', 'fn', 'read_parallel_init']), 'pub fn read_parallel_init')
    sig, _, _ = fn_parts(toks, i + 1, 'read_parallel_init')
    require_sig(sig, ['( n_threads : u32 , queue_len : usize , reader_init : Ri , mut dataset_init : Di , work : W , func : F , )',
                      '-> Result<Out, E>',
                      'Di: Send + Sync + FnMut() -> Result<R::DataSet, Ed>',
                      'W: Send + Sync + Fn(&mut R::DataSet) -> O',
                      'F: FnOnce(&mut ParallelRecordsets<R::DataSet, R::Err, O>) -> Out'], 'read_parallel_init')
    i = once(find_seq(toks, ['pub', 'fn', 'read_parallel', '<']), 'pub fn read_parallel')
    sig, a, b = fn_parts(toks, i + 1, 'read_parallel')
    require_sig(sig, ['( reader : R , n_threads : u32 , queue_len : usize , work : W , func : F , ) -> Out',
                      'W: Send + Sync + Fn(&mut R::DataSet) -> O',
                      'F: FnMut(&mut ParallelRecordsets<R::DataSet, R::Err, O>) -> Out'], 'read_parallel')
    require_text(toks, a, b, 'read_parallel_init::<_, (), _, (), _, _, (), _, _, Out>( n_threads, queue_len, '
                 '|| Ok::<_, ()>(reader), || Ok::<_, ()>(R::DataSet::default()), work, func, ) .unwrap()', 'body of read_parallel')

    # ---- ParallelRecordsets
    i = once(find_seq(toks, ['pub', 'struct', 'ParallelRecordsets']), 'struct ParallelRecordsets')
    j = i
    while toks[j].s != '{':
        j += 1
    require_text(toks, j + 1, match_close(toks, j), 'empty_send: mpsc::SyncSender<R>, done_recv: mpsc::Receiver<Option<Result<(R, O), E>>>, '
                 'current_recordset: R,', 'fields of ParallelRecordsets')
    i = once(find_seq(toks, ['impl', '<', 'R', ',', 'E', ',', 'O', '>', 'ParallelRecordsets']), 'impl ParallelRecordsets')
    j = i
    while toks[j].s != '{':
        j += 1
    e = match_close(toks, j)
    fns = find_seq(toks, ['fn'], j, e)
    k = once([f for f in fns if toks[f + 1].s == 'next'], 'ParallelRecordsets::next')
    if len(fns) != 1:
        err('impl ParallelRecordsets: exactly the method `next` is expected')
    sig, a, b = fn_parts(toks, k, 'ParallelRecordsets::next')
    require_text(sig, 0, len(sig), 'fn next(&mut self) -> Option<Result<(&mut R, O), E>>', 'signature of ParallelRecordsets::next')
    out['next'] = toks[a:b]

    # ---- the macro
    i = once(find_seq(toks, ['macro_rules', '!', 'parallel_record_impl', '{']), 'macro_rules! parallel_record_impl')
    ma, mb = i + 4, match_close(toks, i + 3)
    j = ma
    if toks[j].s != '(':
        err('parallel_record_impl: one rule `( .. ) => { .. }` is expected')
    j2 = match_close(toks, j)
    require_text(toks, j, j2 + 1, '($name:ident, $name_init:ident, $io_r:tt, $rdr:ty, $dataset:ty, $record:ty, $err:ty)',
                 'parallel_record_impl: macro parameters')
    if text(toks[j2 + 1:j2 + 4]) != '= > {' and text(toks[j2 + 1:j2 + 3]) != '=> {':
        err('parallel_record_impl: `=> {` expected after the macro parameters')
    rb = j2 + 1
    while toks[rb].s != '{':
        rb += 1
    re_ = match_close(toks, rb)
    rest = [t for t in toks[re_ + 1:mb] if t.s != ';']
    if rest:
        err('parallel_record_impl: exactly one rule is expected')
    fns = find_seq(toks, ['pub', 'fn', '$'], rb, re_)
    names = [toks[f + 3].s for f in fns]
    if names != ['name', 'name_init']:
        err('parallel_record_impl: the functions `$name`, `$name_init` are expected, found %r' % (names,))
    # $name: the wrapper (pinned text: init = Ok(D::default()), the record-set data is `()` and is not passed on)
    sig, a, b = fn_parts(toks, fns[0] + 1, '$name')
    require_sig(sig, ['W: Send + Sync + Fn($record, &mut D)', 'F: FnMut($record, &mut D) -> Option<Out>', 'D: Default + Send',
                      '-> Result<Option<Out>, $err>'], '$name')
    require_text(toks, a, b, '$name_init( n_threads, queue_len, || Ok::<_, $err>(reader), || Ok::<_, $err>(D::default()), '
                 '|| Ok::<_, $err>(()), |record, record_out, _| work(record, record_out), '
                 '|record, record_out, _| func(record, record_out), )', 'body of $name')
    # $name_init
    sig, a, b = fn_parts(toks, fns[1] + 1, '$name_init')
    require_sig(sig, ['( n_threads : u32 , queue_len : usize , reader_init : Ri , record_data_init : Di , rset_data_init : Si , '
                      'work : W , mut func : F , ) -> Result<Option<Out>, E>',
                      'E: From<$err> + From<Er> + From<Ed> + From<Es>',
                      'Di: Fn() -> Result<D, Ed> + Send + Sync',
                      'W: Send + Sync + Fn($record, &mut D, &mut S)',
                      'F: FnMut($record, &mut D, &mut S) -> Option<Out>'], '$name_init')
    c = once(find_seq(toks, ['read_parallel_init'], a, b), '$name_init: call of read_parallel_init')
    require_text(toks, a, c, '$crate::parallel::', '$name_init: before read_parallel_init')
    p = c + 1
    if toks[p].s == '::':
        q = p
        while toks[q].s != '(':
            q += 1
        require_text(toks, p, q, '::<_, E, _, _, _, _, Es, _, _, _>', '$name_init: type arguments of read_parallel_init')
        p = q
    if toks[p].s != '(':
        err('$name_init: `(` expected after read_parallel_init')
    pe = match_close(toks, p)
    require_text(toks, pe + 1, b, '?', '$name_init: after the call of read_parallel_init')
    args = split_args(toks, p + 1, pe)
    if len(args) != 6:
        err('$name_init: read_parallel_init is called with %d arguments, 6 expected' % len(args))
    require_text(toks, args[0][0], args[0][1], 'n_threads', '$name_init: argument 1')
    require_text(toks, args[1][0], args[1][1], 'queue_len', '$name_init: argument 2')
    require_text(toks, args[2][0], args[2][1], '|| reader_init().map($crate::parallel::ReusableReader::<$rdr, (Vec<D>, S)>::new)',
                 '$name_init: argument 3')
    require_text(toks, args[3][0], args[3][1], '|| rset_data_init().map(|d| (<$dataset>::default(), (vec![], d)))',
                 '$name_init: argument 4 (the data set is `(RecordSet, (Vec<D>, S))`, the vector starts empty)')
    out['par_work'] = parse_closure(toks, args[4][0], args[4][1], '$name_init worker closure')
    out['par_consumer'] = parse_closure(toks, args[5][0], args[5][1], '$name_init consumer closure')

    # ---- ReusableReader: DataSet = (P::DataSet, O)
    i = once(find_seq(toks, ['for', 'ReusableReader', '<', 'P', ',', 'O', '>']), 'impl Reader for ReusableReader')
    j = i
    while toks[j].s != '{':
        j += 1
    require_text(toks, j + 1, match_close(toks, j), 'type DataSet = (P::DataSet, O); type Err = P::Err; #[inline] '
                 'fn fill_data(&mut self, data: &mut Self::DataSet) -> Option<Result<(), P::Err>> { self.0.fill_data(&mut data.0) }',
                 'impl Reader for ReusableReader')

    # ---- parallel_records
    i = once(find_seq(toks, ['pub', 'fn', 'parallel_records']), 'pub fn parallel_records')
    sig, a, b = fn_parts(toks, i + 1, 'parallel_records')
    require_sig(sig, ['( parser : R , n_threads : u32 , queue_len : usize , work : W , mut func : F , ) -> Result<Option<Out>, R::Err>',
                      "for<'a> &'a R::DataSet: IntoIterator", 'O: Default + Send',
                      'W: Fn(<&R::DataSet as IntoIterator>::Item, &mut O)',
                      'F: FnMut(<&R::DataSet as IntoIterator>::Item, &O) -> Option<Out>'], 'parallel_records')
    c = once(find_seq(toks, ['read_parallel', '('], a, b), 'parallel_records: call of read_parallel')
    require_text(toks, a, c, 'let reader = ReusableReader(parser, PhantomData);', 'parallel_records: before read_parallel')
    pe = match_close(toks, c + 1)
    if pe != b - 1:
        err('parallel_records: the call of read_parallel must be the value of the function')
    args = split_args(toks, c + 2, pe)
    if len(args) != 5:
        err('parallel_records: read_parallel is called with %d arguments, 5 expected' % len(args))
    for n, exp in enumerate(['reader', 'n_threads', 'queue_len']):
        require_text(toks, args[n][0], args[n][1], exp, 'parallel_records: argument %d' % (n + 1))
    out['parrec_work'] = parse_closure(toks, args[3][0], args[3][1], 'parallel_records worker closure')
    out['parrec_consumer'] = parse_closure(toks, args[4][0], args[4][1], 'parallel_records consumer closure')
    return out


# ==========================================================================
# 3. Values, store, symbolic execution
# ==========================================================================
#
# Types of opaque Coq terms (class Op):
#   'recset'  a record set (&RecordSet / &DataSet), the Coq term is the list of its records : list R
#   'vec'     the Vec<D> of output slots (never an Op: class Vec + store)
#   'D' 'R' 'Out' 'Ed' 'E' 'unit' 'sdata'     ('rs', ok, err)   ('opt', ty)    ('tuple', [ty..])

class Op:
    """an opaque Coq term of a known type"""
    def __init__(self, s, ty):
        self.s, self.ty = s, ty


class Tup:
    def __init__(self, vs):
        self.vs = vs


class Vec:
    """the vector of slots; its current contents are the Coq term st.vecs[id]"""
    def __init__(self, vid):
        self.id = vid


class SData:
    """the per-record-set data `rset_data`: passed through, not modelled"""


class LIter:
    """an owned list iterator (RecordSetIter); the remaining items are the Coq term st.iters[id] (None: moved)"""
    def __init__(self, iid):
        self.id = iid


class IterRef:
    """&mut <list iterator>"""
    def __init__(self, iid):
        self.id = iid


class Cursor:
    """slice::IterMut / slice::Iter over the vector: the index of the next slot"""
    def __init__(self, vid):
        self.vid = vid


class Zip:
    def __init__(self, a, b):
        self.a, self.b = a, b


class Slot:
    """a reference `&mut D` / `&D` into the vector: the index of the slot"""
    def __init__(self, vid, idx):
        self.vid, self.idx = vid, idx


class OptSlot:
    """the value of `out.last_mut()`"""
    def __init__(self, vid):
        self.vid = vid


class Callee:
    def __init__(self, name):
        self.name = name


class Unit:
    pass


class Hidden:
    """a local that was bound outside the loop whose body is being translated"""


class VOk:
    def __init__(self, v):
        self.v = v


class VSome:
    def __init__(self, v):
        self.v = v


class VNone:
    pass


class St:
    """the store: Coq terms for the current contents of the vectors, of the list iterators, and of the trace"""
    def __init__(self, vecs=None, iters=None, tr=None):
        self.vecs = dict(vecs or {})
        self.iters = dict(iters or {})
        self.tr = tr

    def copy(self):
        return St(self.vecs, self.iters, self.tr)


def tparen(s):
    """parenthesise a type for use as a component of a product"""
    return '(' + s + ')' if (' * ' in s or '->' in s) else s


def ty_coq(ty):
    if isinstance(ty, tuple):
        if ty[0] == 'rs':
            return 'rs %s %s' % (paren(ty_coq(ty[1])), paren(ty_coq(ty[2])))
        if ty[0] == 'opt':
            return 'option %s' % paren(ty_coq(ty[1]))
        if ty[0] == 'tuple':
            return ' * '.join(tparen(ty_coq(t)) for t in ty[1] if t != 'sdata')      # the record-set data is not modelled
        if ty[0] == 'list':
            return 'list %s' % paren(ty_coq(ty[1]))
    return {'recset': 'list R', 'vec': 'list D', 'unit': 'unit'}.get(ty, ty)


class Closure:
    """configuration of one translated closure"""
    def __init__(self, key, gen, kind, dataset, work_arity, gparams, errty, ret, msg=None, doc=''):
        self.key = key            # key in the result of locate()
        self.gen = gen            # name of the generated definition
        self.kind = kind          # 'worker' | 'consumer'
        self.dataset = dataset    # shape of the data set: nested lists of 'recset' | 'vec' | 'sdata'
        self.work_arity = work_arity  # number of arguments of work / func (3: with rset_data)
        self.gparams = gparams    # [(coq name, coq type)]: the captured closures and constants
        self.errty = errty        # error type of the value returned by the closure (None: returns no Result)
        self.ret = ret            # type of the value returned by the closure
        self.msg = msg            # consumer: type of an item of ParallelRecordsets
        self.doc = doc


class Exec:
    def __init__(self, cfg, params, body):
        self.cfg = cfg
        self.params = params
        self.body = body
        self.defs = []            # generated Fixpoints, in order
        self.nfor = 0
        self.nwhile = 0
        self.nsite = 0
        self.nobj = 0
        self.names = {}
        self.mut = 'vecs' if cfg.kind == 'worker' else 'tr'

    # ---- names
    def fresh(self, base):
        n = self.names.get(base, 0)
        self.names[base] = n + 1
        if base in ('o', 'tr', 'it', 'i', 'x', 'm'):      # o, o1, o2, ..
            return base if n == 0 else '%s%d' % (base, n)
        return '%s%d' % (base, n + 1)                     # v1, v2, ..

    def obj(self):
        self.nobj += 1
        return self.nobj

    def site(self):
        self.nsite += 1
        return self.nsite

    def ret_ty(self):
        store = 'list D' if self.cfg.kind == 'worker' else 'list (R * D)'
        return '%s * pout %s' % (store, paren(ty_coq(self.cfg.ret)))

    # ---- results
    def store_term(self, st):
        if self.cfg.kind == 'worker':
            if len(st.vecs) != 1:
                err('%s: exactly one vector of slots is expected' % self.cfg.gen)
            return list(st.vecs.values())[0]
        return st.tr

    def panic(self, st):
        return '(%s, PPanic %d)' % (self.store_term(st), self.site())

    def result(self, v, st):
        return '(%s, PRet %s)' % (self.store_term(st), paren(self.coq_val(v, self.cfg.ret)))

    def coq_val(self, v, ty):
        if isinstance(v, Unit) and ty == 'unit':
            return 'tt'
        if isinstance(v, VOk) and isinstance(ty, tuple) and ty[0] == 'rs':
            return 'ROk %s' % paren(self.coq_val(v.v, ty[1]))
        if isinstance(v, VSome) and isinstance(ty, tuple) and ty[0] == 'opt':
            return 'Some %s' % paren(self.coq_val(v.v, ty[1]))
        if isinstance(v, VNone) and isinstance(ty, tuple) and ty[0] == 'opt':
            return 'None'
        if isinstance(v, Op) and v.ty == ty:
            return v.s
        err('%s: a value of type %s is expected as the result of the closure' % (self.cfg.gen, ty_coq(ty)))

    # ---- patterns
    def bind(self, pat, v, env, st):
        """bind the Rust pattern to the value: returns the new environment (no Coq code is needed: values are symbolic)"""
        k = pat[0]
        if k == 'pref':
            return self.bind(pat[1], v, env, st)
        if k == 'pwild':
            return env
        if k == 'pbind':
            env = dict(env)
            env[pat[1]] = v
            return env
        if k == 'ptuple':
            if not isinstance(v, Tup) or len(v.vs) != len(pat[1]):
                err('%s: tuple pattern with %d components against another value' % (self.cfg.gen, len(pat[1])))
            for p, x in zip(pat[1], v.vs):
                env = self.bind(p, x, env, st)
            return env
        err('%s: pattern %r is not supported' % (self.cfg.gen, pat[0]))

    def destruct(self, ty, st):
        """a Coq pattern for a value of type ty with fresh variables at the leaves, and the symbolic value"""
        if ty == 'unit':
            return '_', Unit()
        if ty == 'sdata':
            err('internal: sdata has no Coq counterpart')
        if ty == 'recset':
            n = self.fresh('v')
            return n, Op(n, 'recset')
        if ty == 'vec':
            n = self.fresh('v')
            vid = self.obj()
            st.vecs[vid] = n
            return n, Vec(vid)
        if isinstance(ty, tuple) and ty[0] == 'tuple':
            ps, vs = [], []
            for t in ty[1]:
                if t == 'sdata':
                    vs.append(SData())
                    continue
                p, v = self.destruct(t, st)
                ps.append(p)
                vs.append(v)
            return ('(%s)' % ', '.join(ps) if len(ps) > 1 else ps[0]), Tup(vs)
        n = self.fresh('v')
        return n, Op(n, ty)

    # ---- blocks and statements: continuation-passing, k(value, env, st) -> Coq text
    def block(self, b, env, st, k):
        stmts, tail = b[1], b[2]
        return self.stmts(stmts, 0, tail, env, st, k)

    def stmts(self, ss, i, tail, env, st, k):
        if i == len(ss):
            if tail is None:
                return k(Unit(), env, st)
            if tail[0] in ('for', 'while'):
                return self.loop_stmt(tail, env, st, lambda env2, st2: k(Unit(), env2, st2))
            if tail[0] == 'if':
                return self.if_stmt(tail, env, st, lambda env2, st2: k(Unit(), env2, st2))
            return self.ev(tail, env, st, k)
        s = ss[i]
        rest = lambda env2, st2: self.stmts(ss, i + 1, tail, env2, st2, k)
        if s[0] == 'let':
            _, pat, _mut, e = s
            return self.ev(e, env, st, lambda v, env2, st2: rest(self.bind(pat, v, env2, st2), st2))
        e = s[1]
        if e[0] in ('for', 'while'):
            return self.loop_stmt(e, env, st, rest)
        if e[0] == 'if':
            return self.if_stmt(e, env, st, rest)
        return self.ev(e, env, st, lambda v, env2, st2: rest(env2, st2))

    # ---- expressions
    def ev(self, e, env, st, k):
        kind = e[0]
        if kind == 'path':
            return k(self.lookup(e[1], env, st), env, st)
        if kind == 'unit':
            return k(Unit(), env, st)
        if kind == 'paren':
            return self.ev(e[1], env, st, k)
        if kind == 'tuple':
            return self.ev_list(e[1], env, st, lambda vs, env2, st2: k(Tup(vs), env2, st2))
        if kind == 'field':
            def kf(v, env2, st2):
                if isinstance(v, Tup) and e[2].isdigit() and int(e[2]) < len(v.vs):
                    return k(v.vs[int(e[2])], env2, st2)
                err('%s: field .%s of a value that is not a tuple' % (self.cfg.gen, e[2]))
            return self.ev(e[1], env, st, kf)
        if kind == 'unary':
            op = e[1]
            if op in ('&', '&mut', '*'):
                def ku(v, env2, st2):
                    if op == '&mut' and isinstance(v, LIter):
                        self.live_iter(v.id, st2)
                        return k(IterRef(v.id), env2, st2)
                    if op in ('&', '&mut') and isinstance(v, (Slot, Vec, SData)):
                        # a reborrow / a reference to a reference: same place (deref coercion at the call)
                        return k(v, env2, st2)
                    err('%s: `%s` applied to this value is not supported' % (self.cfg.gen, op))
                return self.ev(e[2], env, st, ku)
            err('%s: unary operator %s is not supported' % (self.cfg.gen, op))
        if kind == 'call':
            return self.ev_call(e, env, st, k)
        if kind == 'mcall':
            return self.ev_mcall(e, env, st, k)
        if kind == 'try':
            return self.ev(e[1], env, st, lambda v, env2, st2: self.ev_try(v, env2, st2, k))
        if kind == 'return':
            if e[1] is None:
                err('%s: `return` without a value' % self.cfg.gen)
            return self.ev(e[1], env, st, lambda v, env2, st2: self.result(v, st2))
        if kind == 'block':
            return self.block(e, env, st, lambda v, env2, st2: k(v, env, st2))
        err('%s: expression of kind `%s` is not supported here' % (self.cfg.gen, kind))

    def ev_list(self, es, env, st, k, acc=None):
        acc = acc or []
        if not es:
            return k(acc, env, st)
        return self.ev(es[0], env, st, lambda v, env2, st2: self.ev_list(es[1:], env2, st2, k, acc + [v]))

    def lookup(self, path, env, st):
        if len(path) == 1 and path[0] in env:
            v = env[path[0]]
            if isinstance(v, Hidden):
                err('%s: the local `%s`, bound outside a loop, is used inside it: not supported' % (self.cfg.gen, path[0]))
            if isinstance(v, LIter):
                self.live_iter(v.id, st)
            return v
        if len(path) == 1 and path[0] == 'None':
            return VNone()
        err('%s: unknown name `%s`' % (self.cfg.gen, '::'.join(path)))

    def live_iter(self, iid, st):
        if st.iters.get(iid) is None:
            err('%s: use of an iterator after it was moved into a `for`' % self.cfg.gen)

    def ev_try(self, v, env, st, k):
        if not (isinstance(v, Op) and isinstance(v.ty, tuple) and v.ty[0] == 'rs'):
            err('%s: `?` on a value that is not a Result' % self.cfg.gen)
        if self.cfg.errty is None:
            err('%s: `?` in a closure that does not return a Result' % self.cfg.gen)
        e = self.fresh('e')
        if v.ty[2] == self.cfg.errty:
            conv = e
        else:
            conv = 'from_%s %s' % (v.ty[2].lower(), e)        # From<Ed> for E
        errv = '(%s, PRet (RErr %s))' % (self.store_term(st), paren(conv))
        st2 = st.copy()
        pat, val = self.destruct(v.ty[1], st2)
        return 'match %s with\n| RErr %s => %s\n| ROk %s =>\n%s\nend' % (v.s, e, errv, pat, ind(k(val, env, st2)))

    def read_slot(self, slot, st, k):
        """the value behind a reference into the vector"""
        o = st.vecs[slot.vid]
        n = self.fresh('v')
        p = self.panic(st)
        return 'match nth_error %s %s with\n| None => %s\n| Some %s =>\n%s\nend' % (o, paren(slot.idx), p, n, ind(k(n)))

    def ev_call(self, e, env, st, k):
        f, args = e[1], e[2]
        if f[0] != 'path':
            err('%s: call of a computed function' % self.cfg.gen)
        path = f[1]
        if path[0] == 'Ok' and len(path) <= 2 and len(args) == 1:
            if len(path) == 2:
                m = re.match(r'^<_,(\w+)>$', path[1])
                if not m or m.group(1) != self.cfg.errty:
                    err('%s: `Ok::%s`: the error type of the closure is expected to be %s' % (self.cfg.gen, path[1], self.cfg.errty))
            return self.ev(args[0], env, st, lambda v, env2, st2: k(VOk(v), env2, st2))
        if path == ['Some'] and len(args) == 1:
            return self.ev(args[0], env, st, lambda v, env2, st2: k(VSome(v), env2, st2))
        if path == ['O', 'default'] and not args and ('d0', 'D') in self.cfg.gparams:
            return k(Op('d0', 'D'), env, st)
        if len(path) == 1 and isinstance(env.get(path[0]), Callee):
            name = env[path[0]].name
            return self.ev_list(args, env, st, lambda vs, env2, st2: self.user_call(name, vs, env2, st2, k))
        err('%s: call of `%s` is not supported' % (self.cfg.gen, '::'.join(path)))

    def user_call(self, name, vs, env, st, k):
        cfg = self.cfg
        if name == 'init':
            if vs:
                err('%s: record_data_init takes no arguments' % cfg.gen)
            return k(Op('init', ('rs', 'D', 'Ed')), env, st)
        if len(vs) != cfg.work_arity or not isinstance(vs[0], Op) or vs[0].ty != 'R' or not isinstance(vs[1], Slot) \
                or (cfg.work_arity == 3 and not isinstance(vs[2], SData)):
            err('%s: `%s` must be called with (a record, a reference to a slot%s)'
                % (cfg.gen, name, ', the record-set data' if cfg.work_arity == 3 else ''))
        rec, slot = vs[0], vs[1]
        if name == 'work':
            def kw(d):
                st2 = st.copy()
                o = st.vecs[slot.vid]
                o2 = self.fresh('o')
                st2.vecs[slot.vid] = o2
                return 'let %s := set_nth %s %s (w %s %s) in\n%s' % (o2, o, paren(slot.idx), rec.s, d, k(Unit(), env, st2))
            return self.read_slot(slot, st, kw)
        if name == 'func':
            def kf(d):
                st2 = st.copy()
                st2.tr = self.fresh('tr')
                return 'let %s := %s ++ [(%s, %s)] in\n%s' % (st2.tr, st.tr, rec.s, d,
                                                            k(Op('f %s %s' % (rec.s, d), ('opt', 'Out')), env, st2))
            return self.read_slot(slot, st, kf)
        err('internal: callee %s' % name)

    def ev_mcall(self, e, env, st, k):
        _, recv, m, args, _nid = e

        def kr(v, env2, st2):
            if m == 'into_iter' and not args and isinstance(v, Op) and v.ty == 'recset':
                iid = self.obj()
                st3 = st2.copy()
                st3.iters[iid] = v.s
                return k(LIter(iid), env2, st3)
            if m == 'iter_mut' and not args and isinstance(v, Vec):
                return k(Cursor(v.id), env2, st2)
            if m == 'zip' and len(args) == 1 and isinstance(v, (LIter, IterRef, Cursor)):
                def kz(b, env3, st3):
                    if isinstance(b, Vec):
                        b = Cursor(b.id)        # `&Vec<O>: IntoIterator` (slice::Iter)
                    if not isinstance(b, (LIter, IterRef, Cursor)):
                        err('%s: the argument of zip is not a supported iterator' % self.cfg.gen)
                    return k(Zip(v, b), env3, st3)
                return self.ev(args[0], env2, st2, kz)
            if m == 'push' and len(args) == 1 and isinstance(v, Vec):
                def kp(x, env3, st3):
                    if not (isinstance(x, Op) and x.ty == 'D'):
                        err('%s: push of a value that is not a slot value' % self.cfg.gen)
                    st4 = st3.copy()
                    o2 = self.fresh('o')
                    st4.vecs[v.id] = o2
                    return 'let %s := %s ++ [%s] in\n%s' % (o2, st3.vecs[v.id], x.s, k(Unit(), env3, st4))
                return self.ev(args[0], env2, st2, kp)
            if m == 'last_mut' and not args and isinstance(v, Vec):
                return k(OptSlot(v.id), env2, st2)
            if m == 'unwrap' and not args and isinstance(v, OptSlot):
                o = st2.vecs[v.vid]
                n = self.fresh('v')
                p = self.panic(st2)
                return 'match %s with\n| [] => %s\n| _ :: _ =>\n%s\nend' % (
                    o, p, ind('let %s := length %s - 1 in\n%s' % (n, o, k(Slot(v.vid, n), env2, st2))))
            if m == 'next' and not args and isinstance(v, (LIter, IterRef)):
                err('%s: `.next()` is supported only in `while let Some(..) = X.next()`' % self.cfg.gen)
            err('%s: method `.%s(..)` is not supported on this value' % (self.cfg.gen, m))
        return self.ev(recv, env, st, kr)

    # ---- if let Some(x) = <option> { .. }
    def if_stmt(self, e, env, st, rest):
        _, c, th, el, _nid = e
        if c[0] != 'letcond' or c[1][0] != 'pts' or c[1][1] != ['Some'] or len(c[1][2]) != 1:
            err('%s: only `if let Some(x) = ..` is supported' % self.cfg.gen)

        def kc(v, env2, st2):
            if not (isinstance(v, Op) and isinstance(v.ty, tuple) and v.ty[0] == 'opt'):
                err('%s: `if let Some(..)` on a value that is not an Option' % self.cfg.gen)
            n = self.fresh('v')
            env_t = self.bind(c[1][2][0], Op(n, v.ty[1]), env2, st2)
            t_code = self.block(th, env_t, st2.copy(), lambda _v, _e, st3: rest(env2, st3))
            if el is None:
                e_code = rest(env2, st2.copy())
            else:
                e_code = self.block(el, env2, st2.copy(), lambda _v, _e, st3: rest(env2, st3))
            return 'match %s with\n| Some %s =>\n%s\n| None =>\n%s\nend' % (v.s, n, ind(t_code), ind(e_code))
        return self.ev(c[2], env, st, kc)

    # ---- loops
    def loop_stmt(self, e, env, st, rest):
        if e[0] == 'for':
            return self.for_loop(e, env, st, rest)
        return self.while_loop(e, env, st, rest)

    def for_loop(self, e, env, st, rest):
        _, pat, itexpr, body, _nid = e
        return self.ev(itexpr, env, st, lambda v, env2, st2: self.for_loop2(pat, v, body, env2, st2, rest))

    def for_loop2(self, pat, itv, body, env, st, rest):
        cfg = self.cfg
        comps = [itv.a, itv.b] if isinstance(itv, Zip) else [itv]
        if not all(isinstance(c, (LIter, IterRef, Cursor)) for c in comps):
            err('%s: `for` over a value that is not a supported iterator' % cfg.gen)
        lists = [c for c in comps if isinstance(c, (LIter, IterRef))]
        cursors = [c for c in comps if isinstance(c, Cursor)]
        if len(lists) != 1 or len(cursors) > 1:
            err('%s: a `for` must iterate over exactly one record iterator, alone or zipped with the slots' % cfg.gen)
        lst = lists[0]
        self.live_iter(lst.id, st)
        borrowed = isinstance(lst, IterRef)
        self.nfor += 1
        name = '%s_for%d' % (cfg.gen, self.nfor)
        vec_ids = sorted(st.vecs)
        if cursors and cursors[0].vid not in st.vecs:
            err('internal: cursor over an unknown vector')

        # ---- the Fixpoint, in its own naming scope
        saved_names = self.names
        self.names = {}
        it0 = self.fresh('it')
        i0 = self.fresh('i') if cursors else None
        fst = St()
        vec_params = []
        for vid in vec_ids:
            n = self.fresh('o')
            fst.vecs[vid] = n
            vec_params.append(n)
        if st.tr is not None:
            fst.tr = self.fresh('tr')
        fst.iters = {}

        def k_exit(st_x, remaining):
            a = self.mut_args(st_x, vec_ids)
            if borrowed:
                a.append(remaining)
            return 'K ' + ' '.join(paren(x) for x in a) if a else 'K'

        def k_rec(st_x, it_now, i_now):
            a = [paren(it_now)]
            if cursors:
                a.append(paren(i_now))
            a += [paren(st_x.vecs[vid]) for vid in vec_ids]
            if st.tr is not None:
                a.append(paren(st_x.tr))
            return '%s @GP@ K %s' % (name, ' '.join(a))

        def gen_next(idx, items, it_now, i_now):
            if idx == len(comps):
                item = Tup(items) if len(items) > 1 else items[0]
                env_b = self.bind(pat, item, self.loop_env(env), fst)
                st_b = fst.copy()
                st_b.iters = {}       # the iterators of the enclosing code are not accessible in the body
                return self.block(body, env_b, st_b, lambda _v, _e, st3: k_rec(st3, it_now, i_now))
            c = comps[idx]
            if isinstance(c, Cursor):
                o = fst.vecs[c.vid]
                inner = gen_next(idx + 1, items + [Slot(c.vid, i0)], it_now, 'S %s' % i0)
                return 'if %s <? length %s then\n%s\nelse %s' % (i0, o, ind(inner), k_exit(fst, it_now))
            x = self.fresh('x')
            it1 = self.fresh('it')
            inner = gen_next(idx + 1, items + [Op(x, 'R')], it1, i_now)
            return 'match %s with\n| [] => %s\n| %s :: %s =>\n%s\nend' % (it_now, k_exit(fst, '[]'), x, it1, ind(inner))

        body_code = gen_next(0, [], it0, i0)
        self.names = saved_names
        ktypes = self.mut_types(vec_ids) + (['list R'] if borrowed else [])
        kty = ' -> '.join(ktypes + [self.ret_ty()])
        params = [('K', kty), (it0, 'list R')]
        if cursors:
            params.append((i0, 'nat'))
        params += [(n, 'list D') for n in vec_params]
        if st.tr is not None:
            params.append((fst.tr, 'list (R * D)'))
        gp = self.emit_fix(name, params, it0, body_code)

        # ---- the call
        st_after = st.copy()
        knames = []
        if self.mut == 'vecs':
            for vid in vec_ids:
                n = self.fresh('o')
                st_after.vecs[vid] = n
                knames.append(n)
        elif st.tr is not None:
            st_after.tr = self.fresh('tr')
            knames.append(st_after.tr)
        if borrowed:
            n = self.fresh('it')
            st_after.iters[lst.id] = n
            knames.append(n)
        else:
            st_after.iters[lst.id] = None
        kcode = rest(env, st_after)
        kfun = '(fun %s =>\n%s)' % (' '.join(knames), ind(kcode, 3)) if knames else paren(kcode)
        a = [paren(st.iters[lst.id])]
        if cursors:
            a.append('0')
        a += [paren(st.vecs[vid]) for vid in vec_ids]
        if st.tr is not None:
            a.append(paren(st.tr))
        return '%s%s\n  %s\n  %s' % (name, ''.join(' ' + g for g in gp), kfun, ' '.join(a))

    def loop_env(self, env):
        """the environment of a loop body: a loop is a top-level Fixpoint whose parameters are the captured closures,
        the vector of slots, the trace and its iterator; any other local bound outside the loop is hidden"""
        return {n: (v if isinstance(v, (Callee, SData, Vec)) else Hidden()) for n, v in env.items()}

    def mut_args(self, st, vec_ids):
        if self.mut == 'vecs':
            return [st.vecs[vid] for vid in vec_ids]
        return [st.tr] if st.tr is not None else []

    def mut_types(self, vec_ids):
        if self.mut == 'vecs':
            return ['list D' for _ in vec_ids]
        return ['list (R * D)']

    def while_loop(self, e, env, st, rest):
        """`while let Some(x) = it.next() { .. }` over a list iterator; the code after the loop is part of the loop function"""
        cfg = self.cfg
        _, c, body, _nid = e
        if c[0] != 'letcond' or c[1][0] != 'pts' or c[1][1] != ['Some'] or len(c[1][2]) != 1:
            err('%s: only `while let Some(x) = <iterator>.next()` is supported' % cfg.gen)
        call = c[2]
        if call[0] != 'mcall' or call[2] != 'next' or call[3]:
            err('%s: only `while let Some(x) = <iterator>.next()` is supported' % cfg.gen)
        if call[1][0] != 'path':
            err('%s: `while let`: the iterator must be a variable' % cfg.gen)
        v = self.lookup(call[1][1], env, st)
        if not isinstance(v, (LIter, IterRef)):
            err('%s: `while let`: not a supported iterator' % cfg.gen)
        self.live_iter(v.id, st)
        if st.vecs:
            err('%s: `while let` with a live vector of slots is not supported' % cfg.gen)
        item_ty = cfg.msg
        self.nwhile += 1
        name = '%s_loop%d' % (cfg.gen, self.nwhile)
        saved_names = self.names
        self.names = {}
        it0 = self.fresh('it')
        fst = St()
        if st.tr is not None:
            fst.tr = self.fresh('tr')
        m = self.fresh('m')
        it1 = self.fresh('it')

        def k_rec(st_x):
            a = [it1] + ([paren(st_x.tr)] if st.tr is not None else [])
            return '%s @GP@ %s' % (name, ' '.join(a))
        st_b = fst.copy()
        env_b = self.bind(c[1][2][0], Op(m, item_ty), self.loop_env(env), st_b)
        body_code = self.block(body, env_b, st_b, lambda _v, _e, st3: k_rec(st3))
        st_e = fst.copy()
        st_e.iters[v.id] = '[]'
        after = rest(env, st_e)
        code = 'match %s with\n| [] =>\n%s\n| %s :: %s =>\n%s\nend' % (it0, ind(after), m, it1, ind(body_code))
        self.names = saved_names
        params = [(it0, 'list %s' % paren(ty_coq(item_ty)))]
        if st.tr is not None:
            params.append((fst.tr, 'list (R * D)'))
        gp = self.emit_fix(name, params, it0, code)
        a = [paren(st.iters[v.id])] + ([paren(st.tr)] if st.tr is not None else [])
        return '%s%s %s' % (name, ''.join(' ' + g for g in gp), ' '.join(a))

    def emit_fix(self, name, params, struct, code):
        """append the Fixpoint; returns the names of the global parameters it takes (those that occur in its body)"""
        gp = [(n, t) for (n, t) in self.cfg.gparams if re.search(r'(?<![\w\'])%s(?![\w\'])' % re.escape(n), code)]
        code = code.replace('@GP@ ', ''.join(n + ' ' for n, _ in gp))
        allp = gp + params
        sig = ' '.join('(%s : %s)' % p for p in allp)
        tys = self.type_params(' '.join(t for _, t in allp) + ' ' + self.ret_ty())
        self.defs.append('Fixpoint %s %s%s {struct %s} : %s :=\n%s.' % (name, tys, sig, struct, self.ret_ty(), ind(code)))
        return [n for n, _ in gp]

    @staticmethod
    def type_params(s):
        used = [t for t in ('R', 'D', 'Out', 'E', 'Ed') if re.search(r'(?<![\w])%s(?![\w])' % t, s)]
        return '{%s : Type} ' % ' '.join(used) if used else ''

    # ---- the closure
    def run(self):
        cfg = self.cfg
        if len(self.params) != 1:
            err('%s: a closure with one parameter is expected' % cfg.gen)
        st = St()
        args = []
        if cfg.kind == 'worker':
            # the parameter is `&mut DataSet`
            def shape(s):
                if s == 'recset':
                    args.append(('recs', 'list R'))
                    return Op('recs', 'recset')
                if s == 'vec':
                    vid = self.obj()
                    st.vecs[vid] = 'old'
                    args.append(('old', 'list D'))
                    return Vec(vid)
                if s == 'sdata':
                    return SData()
                return Tup([shape(x) for x in s])
            pv = shape(cfg.dataset)
            args.sort(key=lambda a: a[0] != 'old')      # parameter order of the model: work_zip w d0 old recs
        else:
            iid = self.obj()
            st.iters[iid] = 'msgs'
            st.tr = '[]'
            pv = IterRef(iid)
            args.append(('msgs', 'list %s' % paren(ty_coq(cfg.msg))))
        env = {}
        for n in ('work', 'func'):
            env[n] = Callee(n)
        if ('init', 'rs D Ed') in cfg.gparams:
            env['record_data_init'] = Callee('init')
        if cfg.kind == 'worker':
            del env['func']
        else:
            del env['work']
        env = self.bind(self.params[0], pv, env, st)
        code = self.block(self.body, env, st, lambda v, _e, st2: self.result(v, st2))
        gp = [(n, t) for (n, t) in cfg.gparams if re.search(r'(?<![\w\'])%s(?![\w\'])' % re.escape(n), code)]
        allp = gp + args
        sig = ' '.join('(%s : %s)' % p for p in allp)
        tys = self.type_params(' '.join(t for _, t in allp) + ' ' + self.ret_ty())
        self.defs.append('Definition %s %s%s : %s :=\n%s.' % (cfg.gen, tys, sig, self.ret_ty(), ind(code)))
        return self.defs


# ==========================================================================
# 4. Fixed prelude, closure table, driver
# ==========================================================================

PRELUDE = '''(* GENERATED by tools/translate_par.py from src/parallel.rs of the repository under test -- do not edit *)
Require Import List Arith Bool.
Import ListNotations.
From SeqIO Require Import Model.Base.

(* ---- fixed prelude ---- *)

(* Result<A, E> *)
Inductive rs (A E : Type) := ROk (a : A) | RErr (e : E).
Arguments ROk {A E} a.
Arguments RErr {A E} e.

(* how a closure ends: it returns a value, or a Rust panic (every site is shown to be dead in ParGenP.v) *)
Inductive pout (A : Type) := PRet (a : A) | PPanic (site : nat).
Arguments PRet {A} a.
Arguments PPanic {A} site.

(* Conventions (see README-par.md).  A record set is the list of its records (recs : list R); the vector of output
   slots is the list of its elements (old / o : list D); a reference `&mut D` into the vector is the index of the
   slot, reading it is nth_error, `work(r, slot, ..)` is `set_nth o i (w r d)` where d is the old value of the slot.
   `out.iter_mut()` / `&out` as an iterator is the index i of the next slot: next() = if i <? length o then Some i
   (and i := S i) else None.  A RecordSetIter is the list of the remaining records.  Zip::next is
   `let x = self.a.next()?; let y = self.b.next()?; Some((x, y))`: the LEFT iterator is advanced first.
   A worker returns (final vector, outcome); a consumer returns (the list of (record, slot value) pairs `func` was
   called with, outcome). *)
'''


def make_closures():
    dataset_macro = ['recset', ['vec', 'sdata']]
    dataset_rec = ['recset', 'vec']
    ds_macro = ('tuple', ['recset', ('tuple', ['vec', 'sdata'])])
    ds_rec = ('tuple', ['recset', 'vec'])
    return [
        Closure('par_work', 'gen_par_work', 'worker', dataset_macro, 3,
                [('w', 'R -> D -> D'), ('init', 'rs D Ed')], 'Ed', ('rs', 'unit', 'Ed'),
                doc='parallel_record_impl! / $name_init: the WORKER closure (5th argument of read_parallel_init).\n'
                    '   w r d: what work(r, &mut slot, rset_data) leaves in a slot that held d; init: the value of record_data_init()'),
        Closure('par_consumer', 'gen_par_consumer', 'consumer', dataset_macro, 3,
                [('f', 'R -> D -> option Out'), ('from_ed', 'Ed -> E')], 'E', ('rs', ('opt', 'Out'), 'E'),
                msg=('rs', ('tuple', [ds_macro, ('rs', 'unit', 'Ed')]), 'E'),
                doc='parallel_record_impl! / $name_init: the CONSUMER closure (6th argument of read_parallel_init).\n'
                    '   msgs: the values Some(..) returned by the successive calls of records.next() (None ends the list);\n'
                    '   f r d: the value of func(r, &mut slot, rset_data) on a slot holding d; from_ed: `From<Ed> for E`'),
        Closure('parrec_work', 'gen_parrec_work', 'worker', dataset_rec, 2,
                [('w', 'R -> D -> D'), ('d0', 'D')], None, 'unit',
                doc='parallel_records: the WORKER closure (4th argument of read_parallel); d0 is O::default()'),
        Closure('parrec_consumer', 'gen_parrec_consumer', 'consumer', dataset_rec, 2,
                [('f', 'R -> D -> option Out')], 'E', ('rs', ('opt', 'Out'), 'E'),
                msg=('rs', ('tuple', [ds_rec, 'unit']), 'E'),
                doc='parallel_records: the CONSUMER closure (5th argument of read_parallel); E is R::Err'),
    ]


class NextExec:
    """ParallelRecordsets::next: a function of the current record set and of the result of the ONE call of
    done_recv.recv() to (new current record set, the sets sent on empty_send in order, the value returned)"""
    ITEM = ('rs', ('tuple', ['Rs', 'Wo']), 'E')
    RET = 'Rs * list Rs * option (rs (Rs * Wo) E)'

    def __init__(self, toks):
        p = PParser(toks, 'ParallelRecordsets::next')
        self.body = p.block_body()
        if not p.done():
            p.fail('trailing tokens')
        self.n = 0
        self.recv_used = False

    def fresh(self, base='v'):
        self.n += 1
        return '%s%d' % (base, self.n)

    def fail(self, msg):
        err('ParallelRecordsets::next: ' + msg)

    def run(self):
        st = {'cur': 'cur', 'sends': []}
        code = self.block(self.body, {}, st, lambda v, env, st2: self.result(v, st2))
        return ('Definition gen_par_next {Rs Wo E : Type} (cur : Rs) (recv : rs (option (rs (Rs * Wo) E)) unit) : %s :=\n%s.'
                % (self.RET, ind(code)))

    def result(self, v, st):
        return '(%s, [%s], %s)' % (st['cur'], '; '.join(st['sends']), self.coq_val(v, ('opt', self.ITEM), st))

    def coq_val(self, v, ty, st):
        if isinstance(v, VSome) and ty[0] == 'opt':
            return 'Some %s' % paren(self.coq_val(v.v, ty[1], st))
        if isinstance(v, VNone) and ty[0] == 'opt':
            return 'None'
        if isinstance(v, VOk) and ty[0] == 'rs':
            return 'ROk %s' % paren(self.coq_val(v.v, ty[1], st))
        if isinstance(v, VErrV) and ty[0] == 'rs':
            return 'RErr %s' % paren(self.coq_val(v.v, ty[2], st))
        if isinstance(v, Tup) and ty[0] == 'tuple' and len(v.vs) == len(ty[1]):
            return '(%s)' % ', '.join(self.coq_val(x, t, st) for x, t in zip(v.vs, ty[1]))
        if isinstance(v, CurRef) and ty == 'Rs':
            return st['cur']          # `&mut self.current_recordset`, represented by the set it points to
        if isinstance(v, Op) and v.ty == ty:
            return v.s
        self.fail('the returned value does not have the type %r' % (ty,))

    def block(self, b, env, st, k):
        return self.stmts(b[1], 0, b[2], env, st, k)

    def stmts(self, ss, i, tail, env, st, k):
        if i == len(ss):
            if tail is None:
                return k(Unit(), env, st)
            return self.ev(tail, env, st, k)
        s = ss[i]
        rest = lambda env2, st2: self.stmts(ss, i + 1, tail, env2, st2, k)
        if s[0] == 'let':
            if s[1][0] != 'pbind':
                self.fail('only `let x = ..` is supported')
            return self.ev(s[3], env, st, lambda v, env2, st2: rest(dict(env2, **{s[1][1]: v}), st2))
        return self.ev(s[1], env, st, lambda v, env2, st2: rest(env2, st2))

    def ev(self, e, env, st, k):
        kind = e[0]
        if kind == 'path':
            if len(e[1]) == 1 and e[1][0] in env:
                return k(env[e[1][0]], env, st)
            if e[1] == ['None']:
                return k(VNone(), env, st)
            self.fail('unknown name `%s`' % '::'.join(e[1]))
        if kind == 'paren':
            return self.ev(e[1], env, st, k)
        if kind == 'block':
            return self.block(e, env, st, lambda v, env2, st2: k(v, env, st2))
        if kind == 'tuple':
            return self.ev_list(e[1], env, st, lambda vs, env2, st2: k(Tup(vs), env2, st2))
        if kind == 'field' and e[1] == ('path', ['self']):
            if e[2] == 'current_recordset':
                return k(CurRef(), env, st)
            if e[2] in ('done_recv', 'empty_send'):
                return k(Chan(e[2]), env, st)
            self.fail('unknown field self.%s' % e[2])
        if kind == 'unary' and e[1] == '&mut':
            def ku(v, env2, st2):
                if not isinstance(v, CurRef):
                    self.fail('`&mut` of something else than self.current_recordset')
                return k(v, env2, st2)
            return self.ev(e[2], env, st, ku)
        if kind == 'call' and e[1][0] == 'path':
            path, args = e[1][1], e[2]
            if path in (['Ok'], ['Err'], ['Some']) and len(args) == 1:
                cls = {'Ok': VOk, 'Err': VErrV, 'Some': VSome}[path[0]]
                return self.ev(args[0], env, st, lambda v, env2, st2: k(cls(v), env2, st2))
            if path == ['::', 'std', 'mem', 'replace'] and len(args) == 2:
                def kr(vs, env2, st2):
                    if not isinstance(vs[0], CurRef) or not (isinstance(vs[1], Op) and vs[1].ty == 'Rs'):
                        self.fail('mem::replace: (&mut self.current_recordset, a record set) expected')
                    old = self.fresh()
                    new = self.fresh('cur')
                    st3 = dict(st2, cur=new)
                    return 'let %s := %s in\nlet %s := %s in\n%s' % (old, st2['cur'], new, vs[1].s, k(Op(old, 'Rs'), env2, st3))
                return self.ev_list(args, env, st, kr)
            self.fail('call of `%s` is not supported' % '::'.join(path))
        if kind == 'mcall':
            return self.ev_mcall(e, env, st, k)
        if kind == 'match':
            return self.ev_match(e, env, st, k)
        self.fail('expression of kind `%s` is not supported' % kind)

    def ev_list(self, es, env, st, k, acc=None):
        acc = acc or []
        if not es:
            return k(acc, env, st)
        return self.ev(es[0], env, st, lambda v, env2, st2: self.ev_list(es[1:], env2, st2, k, acc + [v]))

    def ev_mcall(self, e, env, st, k):
        _, recv, m, args, _nid = e

        def kr(v, env2, st2):
            if m == 'recv' and not args and isinstance(v, Chan) and v.name == 'done_recv':
                if self.recv_used:
                    self.fail('more than one call of done_recv.recv()')
                self.recv_used = True
                return k(Op('recv', ('rs', ('opt', self.ITEM), 'unit')), env2, st2)
            if m == 'unwrap_or' and len(args) == 1 and isinstance(v, Op) and v.ty == ('rs', ('opt', self.ITEM), 'unit'):
                if args[0] != ('path', ['None']):
                    self.fail('unwrap_or: the default `None` is expected')
                n = self.fresh()
                a = self.fresh()
                return 'let %s := match %s with ROk %s => %s | RErr _ => None end in\n%s' % (
                    n, v.s, a, a, k(Op(n, ('opt', self.ITEM)), env2, st2))
            if m == 'map' and len(args) == 1 and isinstance(v, Op) and isinstance(v.ty, tuple) and v.ty[0] == 'opt':
                c = args[0]
                if c[0] != 'closure' or len(c[1]) != 1 or c[1][0][0] != 'pbind':
                    self.fail('map: a closure `|x| ..` is expected')
                x = self.fresh()
                env_c = dict(env2, **{c[1][0][1]: Op(x, v.ty[1])})
                some = self.ev(c[2], env_c, dict(st2), lambda r, _e, st3: k(VSome(r), env2, st3))
                none = k(VNone(), env2, dict(st2))
                return 'match %s with\n| None => %s\n| Some %s =>\n%s\nend' % (v.s, none, x, ind(some))
            if m == 'send' and len(args) == 1 and isinstance(v, Chan) and v.name == 'empty_send':
                def ks(x, env3, st3):
                    if not (isinstance(x, Op) and x.ty == 'Rs'):
                        self.fail('send: a record set is expected')
                    st4 = dict(st3, sends=st3['sends'] + [x.s])
                    return k(SendRes(), env3, st4)
                return self.ev(args[0], env2, st2, ks)
            if m == 'ok' and not args and isinstance(v, SendRes):
                return k(Unit(), env2, st2)     # the error (channel closed) is ignored
            self.fail('method `.%s(..)` is not supported on this value' % m)
        return self.ev(recv, env, st, kr)

    def ev_match(self, e, env, st, k):
        _, scrut, arms, _nid = e

        def km(v, env2, st2):
            if not (isinstance(v, Op) and isinstance(v.ty, tuple) and v.ty[0] == 'rs'):
                self.fail('`match` on a value that is not a Result')
            byc = {}
            for pat, guard, body in arms:
                if guard is not None or pat[0] != 'pts' or pat[1] not in (['Ok'], ['Err']) or len(pat[2]) != 1 or pat[1][0] in byc:
                    self.fail('`match`: exactly the arms Ok(..) and Err(..) are expected')
                byc[pat[1][0]] = (pat[2][0], body)
            if sorted(byc) != ['Err', 'Ok']:
                self.fail('`match`: exactly the arms Ok(..) and Err(..) are expected')
            out = []
            for ctor, cq, ty in (('Ok', 'ROk', v.ty[1]), ('Err', 'RErr', v.ty[2])):
                pat, body = byc[ctor]
                cp, env_a = self.pat(pat, ty, env2)
                out.append('| %s %s =>\n%s' % (cq, cp, ind(self.ev(body, env_a, dict(st2), lambda r, _e, st3: k(r, env2, st3)))))
            return 'match %s with\n%s\nend' % (v.s, '\n'.join(out))
        return self.ev(scrut, env, st, km)

    def pat(self, pat, ty, env):
        if pat[0] == 'pbind':
            n = self.fresh()
            return n, dict(env, **{pat[1]: Op(n, ty)})
        if pat[0] == 'pwild':
            return '_', env
        if pat[0] == 'ptuple' and isinstance(ty, tuple) and ty[0] == 'tuple' and len(pat[1]) == len(ty[1]):
            ps = []
            for p, t in zip(pat[1], ty[1]):
                c, env = self.pat(p, t, env)
                ps.append(c)
            return '(%s)' % ', '.join(ps), env
        self.fail('pattern not supported')


class CurRef:
    """the place self.current_recordset"""


class Chan:
    def __init__(self, name):
        self.name = name


class SendRes:
    """the value of empty_send.send(..)"""


class VErrV:
    def __init__(self, v):
        self.v = v


NEXT_DOC = """(* ---- ParallelRecordsets::next, as a function of the current record set and of the result of the one call of
   done_recv.recv() (RErr tt: the channel is closed): (the new current record set, the record sets sent on
   empty_send, in order, the value returned).  `&mut self.current_recordset` in the returned value is represented by
   the record set it points to; whether the send succeeds does not matter (`.ok()`). *)"""


def translate(src):
    loc = locate(src)
    parts = [PRELUDE]
    for cfg in make_closures():
        params, body = loc[cfg.key]
        ex = Exec(cfg, params, body)
        defs = ex.run()
        parts.append('(* ---- %s *)' % cfg.doc)
        parts.extend(defs)
        if cfg.kind == 'consumer':
            parts.append(consume_wrapper(cfg, defs))
    parts.append(NEXT_DOC)
    parts.append(NextExec(loc['next']).run())
    return '\n\n'.join(parts) + '\n'


def consume_wrapper(cfg, defs):
    """the inner `for` of a consumer on its own: the pairs `func` is called with for ONE record set"""
    fors = [d for d in defs if d.startswith('Fixpoint %s_for' % cfg.gen)]
    if len(fors) != 1:
        err('%s: exactly one `for` loop is expected in a consumer' % cfg.gen)
    m = re.match(r'Fixpoint (\w+) (\{[^}]*\} )?(.*?) \{struct', fors[0], re.S)
    name = m.group(1)
    ps = re.findall(r'\((\w+) : ', m.group(3))
    expected = ['f', 'K', 'it', 'i', 'o', 'tr']
    if ps != expected:
        err('%s: the inner `for` is expected to have the parameters %s, found %s' % (cfg.gen, expected, ps))
    wname = cfg.gen.replace('consumer', 'consume')
    ret = ty_coq(cfg.ret)
    return ('(* the inner `for` of %s alone, for ONE record set: the (record, slot value) pairs `func` is called with,\n'
            '   up to and including the first one for which it returns Some *)\n'
            'Definition %s {R D Out : Type} (f : R -> D -> option Out) (recs : list R) (out : list D) : list (R * D) :=\n'
            '  fst (%s (E := unit) f (fun tr => (tr, PRet (ROk None))) recs 0 out []).' % (cfg.gen, wname, name))


def main():
    if len(sys.argv) != 3:
        print(__doc__)
        return 2
    repo, outdir = sys.argv[1], sys.argv[2]
    try:
        src = open(os.path.join(repo, 'src', 'parallel.rs')).read()
        out = translate(src)
    except TranslateError as e:
        print('TRANSLATE-PAR-ERROR %s' % e)
        return 1
    with open(os.path.join(outdir, 'ParGen.v'), 'w') as f:
        f.write(out)
    print('wrote %s' % os.path.join(outdir, 'ParGen.v'))
    return 0


if __name__ == '__main__':
    sys.exit(main())
