#!/usr/bin/env python3
"""Translator for the record views, the SeqLines iterator, the record-set iterators and the writer loops of seq_io.

usage: translate_views.py <repo dir> <out dir>      (writes <out dir>/ViewsGen.v and <out dir>/RecordsGen.v)

Sibling of translate_core.py (whose lexer, item scanner and parser for the Rust subset it reuses): reads
src/{fasta,fastq}.rs, parses the bodies of the functions listed in the tables of section 4 and turns every
body into a Gallina definition over the types of the hand-written models Model/Views.v, Model/WrapLoops.v and
Model/Iters.v by symbolic execution in continuation-passing style.  coq/core/ViewsGenP.v then proves every
generated definition equal to the hand-written model function.

Strict by design: anything that is not recognised raises TranslateError; the program then prints a line
`TRANSLATE-VIEWS-ERROR ...` and exits with code 1.  See coq/core/README-views.md for the conventions.

  1. parser additions               4. function tables, fixed prelude of ViewsGen.v
  2. values and types               5. environment checks, driver
  3. symbolic execution (VExec)
"""
import os
import re
import sys

sys.path.insert(0, os.path.dirname(os.path.abspath(__file__)))
from translate_core import (TranslateError, err, Items, Parser, match_close,      # noqa: E402
                            T, VNum, VSome, VNone, VOk, VErr, VUnit, VTuple, VStruct,
                            paren, opnd, ind, BYTE_NAMES, BYTE_ESC, flatten)


# ==========================================================================
# 1. Parser additions: char literals; trait bodies; trait impls
# ==========================================================================

class VParser(Parser):
    def primary(self, stmt, nostruct):
        t = self.peek()
        if t is not None and t.k == 'chr':
            self.eat()
            inner = t.s[1:-1]
            if len(inner) != 1 or ord(inner) > 127:
                self.fail('char literal %s is not supported' % t.s)
            return ('chr', ord(inner))
        return Parser.primary(self, stmt, nostruct)


def parse_fn(fn, what):
    p = VParser(fn.sig, what + ' signature')
    selfkind, params, ret = p.signature()
    where = ' '.join(t.s for t in fn.sig[p.i:])
    generics = ''
    if fn.sig and fn.sig[0].s == '<':
        d = 0
        g = []
        for t in fn.sig:
            g.append(t.s)
            if t.s == '<':
                d += 1
            elif t.s == '>':
                d -= 1
                if d == 0:
                    break
        generics = ' '.join(g)
    b = VParser(fn.body, what)
    body = b.block_body()
    if not b.done():
        b.fail('trailing tokens')
    return selfkind, params, ret, generics, where, body


def trait_fns(items, name):
    """the fns of `trait <name> { .. }` (translate_core's item scanner skips trait bodies)"""
    toks = items.toks
    found = []
    for i, t in enumerate(toks):
        if t.k == 'id' and t.s == 'trait' and toks[i + 1].s == name:
            j = i + 2
            while toks[j].s != '{':
                j += 1
            e = match_close(toks, j)
            found.append(items.scan_fns(j + 1, e, name))
    if len(found) != 1:
        err('%s: expected exactly one trait %s, found %d' % (items.fname, name, len(found)))
    return found[0]


def find_fn(items, owner, trait, name):
    """the fn `name` of `impl [trait for] owner`; the name must be unique among ALL impls of the type, so that
    method resolution cannot pick another body than the one translated"""
    if owner is None:
        return items.free_fn(name)
    if trait == 'trait':
        fs = [f for f in trait_fns(items, owner) if f.name == name]
        if len(fs) != 1 or fs[0].body is None:
            err('%s: trait %s: expected exactly one default method %s' % (items.fname, owner, name))
        return fs[0]
    allf = [(tr, f) for (tr, ty, fns) in items.impls if ty == owner for f in fns if f.name == name]
    if owner == '&':
        # impl<'a> iter::IntoIterator for &'a RecordSet (the item scanner keeps `iter` / `&` of the header)
        allf = [(tr, f) for (tr, ty, fns) in items.impls if ty == '&' and tr == 'iter' for f in fns if f.name == name]
        trait = 'iter'
    if len(allf) != 1:
        err('%s: expected exactly one method %s of %s, found %d' % (items.fname, name, owner, len(allf)))
    tr, f = allf[0]
    if tr != trait:
        err('%s: %s::%s is expected in `impl %s`, found in `impl %s`' % (items.fname, owner, name, trait, tr))
    if f.body is None:
        err('%s: %s::%s has no body' % (items.fname, owner, name))
    return f


# ==========================================================================
# 2. Values and types
# ==========================================================================
#
# Types of opaque terms T(s, ty):
#   'nat' 'bool' 'bytes' (&[u8]) 'vecu8' (Vec<u8>) 'str' (&str: bytes known to be valid UTF-8) 'writer'
#   'listnat' (Vec<usize>) 'lines' (an iterator over byte slices, as the list of its items)
#   'fa_rec' 'fq_rec' 'seqlines' 'fa_set' 'fq_set' 'fa_set_iter' 'fq_set_iter' 'fa_pos' 'fq_pos'
#   'fa_poslist' 'fq_poslist'  ('option', ty)  ('tuple', [ty..])  ('idx', vec): a reference into the vector `vec`
#   'utf8res': Result<&str, Utf8Error> as option (list byte)

COQ_TY = {'nat': 'nat', 'bool': 'bool', 'bytes': 'list byte', 'vecu8': 'list byte', 'str': 'list byte',
          'writer': 'list byte', 'listnat': 'list nat', 'lines': 'list (list byte)',
          'fa_rec': 'fa_rec', 'fq_rec': 'fq_rec', 'seqlines': 'seqlines', 'fa_set': 'fa_set', 'fq_set': 'fq_set',
          'fa_set_iter': 'fa_set_iter', 'fq_set_iter': 'fq_set_iter',
          'fa_pos': 'nat * list nat', 'fq_pos': 'nat * nat * nat * nat * nat',
          'fa_owned': 'list byte * list byte', 'fq_owned': 'list byte * list byte * list byte',
          'fa_poslist': 'list (nat * list nat)', 'fq_poslist': 'list (nat * nat * nat * nat * nat)',
          'utf8res': 'option (list byte)', 'fa_reader': 'fa', 'fq_reader': 'fq', 'fa_err': 'fa_err', 'fq_err': 'fq_err'}


def coq_ty(ty):
    if isinstance(ty, tuple) and ty[0] == 'option':
        return 'option %s' % paren(coq_ty(ty[1]))
    if isinstance(ty, tuple) and ty[0] == 'tuple':
        return ' * '.join(paren(coq_ty(t)) for t in ty[1])
    if isinstance(ty, tuple) and ty[0] == 'idx':
        return 'nat'
    if isinstance(ty, tuple) and ty[0] == 'result':
        return 'option %s' % paren(coq_ty(ty[1]))
    if isinstance(ty, tuple) and ty[0] == 'struct' and ty[1] == 'OwnedRecord':
        return None
    if ty == 'cow':
        return 'bool * list byte'
    if isinstance(ty, str) and ty in COQ_TY:
        return COQ_TY[ty]
    err('no Gallina type for %r' % (ty,))


def arrow_ty(ty):
    s = coq_ty(ty)
    return s if re.match(r'^\w+$', s) else '(%s)' % s


class VCow:
    """Cow<[u8]>: Borrowed (True) / Owned (False)"""

    def __init__(self, borrowed, v):
        self.borrowed, self.v = borrowed, v


class VMoved:
    pass


class Env:
    """immutable environment: frames of locals (the `self` object is the local '%self'), the flattened path that
    `self` stands for, the return continuation, the loop continuations"""

    def __init__(self, frames, selfp, ret, loop):
        self.frames, self.selfp, self.ret, self.loop = frames, selfp, ret, loop

    def copy(self, **kw):
        e = Env(self.frames, self.selfp, self.ret, self.loop)
        for k, v in kw.items():
            setattr(e, k, v)
        return e

    def lookup(self, name):
        for f in reversed(self.frames):
            if name in f:
                return f[name]
        return None

    def bind(self, name, v):
        fr = list(self.frames)
        fr[-1] = dict(fr[-1])
        fr[-1][name] = v
        return self.copy(frames=fr)

    def assign(self, name, v):
        fr = list(self.frames)
        for i in range(len(fr) - 1, -1, -1):
            if name in fr[i]:
                fr[i] = dict(fr[i])
                fr[i][name] = v
                return self.copy(frames=fr)
        err('assignment to unknown local %s' % name)

    def push(self):
        return self.copy(frames=self.frames + [{}])

    def pop(self):
        return self.copy(frames=self.frames[:-1])

    def all_locals(self):
        out = []
        seen = set()
        for f in reversed(self.frames):
            for n in reversed(list(f.keys())):
                if n not in seen:
                    seen.add(n)
                    out.append(n)
        return list(reversed(out))


# ==========================================================================
# 3. Symbolic execution
# ==========================================================================

# how the fields of the `self` object read, per type of self: path -> (getter applied to the self term, type)
SELF_FIELDS = {
    'fa_rec': {'self.buffer': ('rbuf %s', 'bytes'), 'self.buf_pos.start': ('rstart %s', 'nat'),
               'self.buf_pos.seq_pos': ('rseqpos %s', 'listnat')},
    'fq_rec': {'self.buffer': ('qrbuf %s', 'bytes'), 'self.buf_pos.pos.0': ('r0 %s', 'nat'),
               'self.buf_pos.pos.1': ('r1 %s', 'nat'), 'self.buf_pos.seq': ('rseq %s', 'nat'),
               'self.buf_pos.sep': ('rsep %s', 'nat'), 'self.buf_pos.qual': ('rqual %s', 'nat')},
    'seqlines': {'self.data': ('rbuf (sl_rec %s)', 'bytes')},
    'fa_set': {'self.buffer': ('sbuf %s', 'vecu8'), 'self.positions': ('spositions %s', 'fa_poslist'),
               'self.npos': ('snpos %s', 'nat')},
    'fq_set': {'self.buffer': ('qsbuf %s', 'vecu8'), 'self.buf_positions': ('qspos %s', 'fq_poslist')},
    'fa_set_iter': {'self.buffer': ('fsi_buf %s', 'bytes')},
    'fq_set_iter': {'self.buffer': ('qsi_buf %s', 'bytes')},
    'fa_owned': {'self.head': ('fst %s', 'vecu8'), 'self.seq': ('snd %s', 'vecu8')},
    'fq_owned': {'self.head': ('fst (fst %s)', 'vecu8'), 'self.seq': ('snd (fst %s)', 'vecu8'), 'self.qual': ('snd %s', 'vecu8')},
    'head': {},
    'hsq': {},
    'fa_reader': {},
    'fq_reader': {},
}
SELF_VAR = {'fa_owned': 'o', 'fq_owned': 'o', 'hsq': 'head', 'fa_reader': 'r', 'fq_reader': 'r','fa_rec': 'r', 'fq_rec': 'r', 'seqlines': 's', 'fa_set': 's', 'fq_set': 's',
            'fa_set_iter': 'it', 'fq_set_iter': 'it', 'head': 'head'}

# the iterator field of an iterator object: self path -> (prelude function of `.next()`, `.next_back()`, `.len()`),
# item type
ITER_FIELDS = {
    ('seqlines', 'self.pos_iter'): {'next': 'zip_next', 'next_back': 'zip_next_back', 'len': 'zip_len',
                                    'item': lambda st: ('tuple', [('idx', 'rseqpos (sl_rec %s)' % st)] * 2)},
    ('fa_set_iter', 'self.pos'): {'next': 'fsi_pos_next', 'item': lambda st: 'fa_pos'},
    ('fq_set_iter', 'self.pos'): {'next': 'qsi_pos_next', 'item': lambda st: 'fq_pos'},
}


# free writer functions that tools/translate.py turns into Gen/WriteGen.v (not duplicated here): Rust name ->
# (WriteGen function, parameter names and types after the writer)
WRITEGEN = {
    'fa': {'write_head': ('gen_fa_write_head', [('head', '& [ u8 ]', 'bytes')]),
           'write_seq': ('gen_fa_write_seq', [('seq', '& [ u8 ]', 'bytes')]),
           'write_to': ('gen_fa_write_to', [('head', '& [ u8 ]', 'bytes'), ('seq', '& [ u8 ]', 'bytes')])},
    'fq': {'write_to': ('gen_fq_write_to', [('head', '& [ u8 ]', 'bytes'), ('seq', '& [ u8 ]', 'bytes'), ('qual', '& [ u8 ]', 'bytes')])},
}

# Reader::next as generated by tools/translate_core.py (CoreGen.v): name, and the constructors of the model's
# outcome type for None / Some(Ok(rec)) / Some(Err(e)) / panic(site) / out of fuel.  The other constructors of the
# type are not outcomes of next(); the model maps them to ItPanic 0.
READER_NEXT = {'fa': ('gen_fa_next', 'ONone', 'ORec', 'OErr', 'OPanic', 'OFuel'),
               'fq': ('gen_fq_next', 'QONone', 'QORec', 'QOErr', 'QOPanic', 'QOFuel')}

GLUE_SL_ITEMS = '''(* glue: an iterator that is passed to a function with a generic parameter `P: Iterator<Item = &[u8]>` is modelled by
   the list of its items; for a SeqLines these are the results of SeqLines::next() up to the first None *)
Fixpoint gen_sl_items (lfuel : nat) (it : seqlines) {struct lfuel} : floop (list (list byte)) :=
  match lfuel with
  | 0 => OutOfFuel
  | S lfuel' =>
    match gen_sl_next it with
    | (it1, SlNone) => Done []
    | (it1, SlItem x) =>
      match gen_sl_items lfuel' it1 with
      | Done l => Done (x :: l)
      | Panic => Panic
      | OutOfFuel => OutOfFuel
      end
    | (it1, SlPanic) => Panic
    end
  end.'''


class F:
    """configuration of one translated function"""

    def __init__(self, fmt, owner, trait, rust, coq, self_ty, monad, ret, sig, params=None, shape='value', inline=False):
        self.fmt, self.owner, self.trait, self.rust, self.coq = fmt, owner, trait, rust, coq
        self.self_ty = self_ty      # type of `self` (None: free function)
        self.monad = monad          # 'pure' | 'opt' (None = panic) | 'floop' (Done / Panic / OutOfFuel) | 'slres'
        self.ret = ret              # type of the value returned
        self.sig = sig              # pinned signature: (selfkind, [param types], return type, generics, where clause)
        self.params = params        # types of the parameters (None: no parameters)
        self.shape = shape          # 'value' | 'writer' (the bytes written) | 'iter' (state, item)
        self.inline = inline
        self.fuel = monad == 'floop'
        self.fuel_name = 'vfuel' if monad == 'recnext' else 'fuel'     # the fuel handed to fuelled callees


class VExec:
    def __init__(self, tr, cfg):
        self.tr, self.cfg = tr, cfg
        self.aux = []
        self.nv = self.ns = self.nw = self.nl = self.nfor = self.nloop = 0
        self.used_fuel = False
        self.used_rfuel = False     # the reader's fuels (fuel, ffuel) of CoreGen's next

    def fv(self):
        self.nv += 1
        return 'v%d' % self.nv

    def fw(self):
        self.nw += 1
        return 'w%d' % self.nw

    def fl(self):
        self.nl += 1
        return 'l%d' % self.nl

    def fs(self, base):
        self.ns += 1
        return '%s%d' % (base, self.ns)

    def who(self):
        return '%s %s' % (self.cfg.fmt, self.cfg.rust)

    # ---- result type and outcomes of the function under translation
    def val_ty(self):
        c = self.cfg
        if c.shape == 'writer':
            return 'list byte'
        if c.shape == 'iter':
            return None
        if c.ret == ('struct', 'OwnedRecord'):
            return ' * '.join('list byte' for _ in self.tr.struct_fields(c.fmt, 'OwnedRecord'))
        return coq_ty(c.ret)

    def res_ty(self):
        c = self.cfg
        if c.monad == 'slres':
            return 'seqlines * sl_res'
        if c.monad == 'recnext':
            return '%s * option (own_item %s_err %s_owned)' % (c.fmt, c.fmt, c.fmt)
        if c.shape == 'iter':
            return '%s * %s' % (coq_ty(c.self_ty), paren(coq_ty(c.ret)))
        t = self.val_ty()
        if c.monad == 'pure':
            return t
        if c.monad == 'opt':
            return 'option %s' % paren(t)
        if c.monad == 'floop':
            return 'floop %s' % paren(t)
        err('monad %s' % c.monad)

    def panic(self, env):
        m = self.cfg.monad
        if m == 'opt':
            return 'None'
        if m == 'floop':
            return 'Panic'
        if m == 'slres':
            return '(%s, SlPanic)' % env.lookup('%self').s
        if m == 'recnext':
            # a panic inside to_owned_record(): the model's site 50
            return '(%s, Some (ItPanic 50))' % env.lookup('%self').s
        err('%s: a panic can occur, but the function is configured as one that cannot panic' % self.who())

    def fuel_out(self, env):
        if self.cfg.monad == 'recnext':
            return '(%s, Some ItFuel)' % env.lookup('%self').s
        if self.cfg.monad != 'floop':
            err('%s: a loop needs fuel, but the function is configured without fuel' % self.who())
        return 'OutOfFuel'

    def wrap(self, s):
        m = self.cfg.monad
        if m == 'pure':
            return s
        if m == 'opt':
            return 'Some %s' % paren(s)
        if m == 'floop':
            return 'Done %s' % paren(s)
        err('monad %s' % m)

    def method_return(self, v, env):
        c = self.cfg
        if c.shape == 'writer':
            # io::Result<()> of a writer into an infallible sink: the function returns the bytes written
            if not (isinstance(v, VOk) and isinstance(v.v, VUnit)):
                err('%s: a writer function must return Ok(()), got %s' % (self.who(), self.show(v)))
            w = self.writer_of(env)
            return self.wrap(env.lookup(w).s)
        if c.monad == 'slres':
            st = env.lookup('%self').s
            if isinstance(v, VNone):
                return '(%s, SlNone)' % st
            if isinstance(v, VSome) and isinstance(v.v, T) and v.v.ty == 'bytes':
                return '(%s, SlItem %s)' % (st, paren(v.v.s))
            err('%s: return value %s has no counterpart in sl_res' % (self.who(), self.show(v)))
        if c.monad == 'recnext':
            st = env.lookup('%self').s
            if isinstance(v, VNone):
                return '(%s, None)' % st
            if isinstance(v, VSome) and isinstance(v.v, VOk) and isinstance(v.v.v, T) and v.v.v.ty == c.fmt + '_owned':
                return '(%s, Some (ItOk %s))' % (st, paren(v.v.v.s))
            if isinstance(v, VSome) and isinstance(v.v, VErr) and isinstance(v.v.v, T) and v.v.v.ty == c.fmt + '_err':
                return '(%s, Some (ItErr %s))' % (st, paren(v.v.v.s))
            err('%s: return value %s has no counterpart in own_item' % (self.who(), self.show(v)))
        if c.shape == 'iter':
            st = env.lookup('%self').s
            return '(%s, %s)' % (st, self.coq_as(v, c.ret))
        return self.wrap(self.coq_as(v, c.ret))

    def writer_of(self, env):
        ws = [n for n in env.all_locals() if isinstance(env.lookup(n), T) and env.lookup(n).ty == 'writer']
        if len(ws) != 1:
            err('%s: exactly one writer expected' % self.who())
        return ws[0]

    # ---- values to Gallina
    def show(self, v):
        if isinstance(v, (VOk, VErr, VSome)):
            return '%s(%s)' % (type(v).__name__[1:], self.show(v.v))
        if isinstance(v, T):
            return repr(v)
        if isinstance(v, VStruct):
            return 'struct %s' % v.name
        return type(v).__name__

    def coq_as(self, v, ty):
        """Gallina text of v, which must have the type ty"""
        if isinstance(v, VNum) and ty == 'nat':
            return str(v.n)
        if isinstance(v, T):
            if v.ty == ty or (ty == 'bytes' and v.ty in ('str', 'vecu8')) or (isinstance(v.ty, tuple) and v.ty[0] == 'idx' and ty == 'idx'):
                return v.s
            err('%s: a value of type %s was expected, got %s' % (self.who(), ty, self.show(v)))
        if isinstance(ty, tuple) and ty[0] == 'option':
            if isinstance(v, VNone):
                return 'None'
            if isinstance(v, VSome):
                return 'Some %s' % paren(self.coq_as(v.v, ty[1]))
        if isinstance(ty, tuple) and ty[0] == 'tuple' and isinstance(v, VTuple) and len(v.vs) == len(ty[1]):
            return '(' + ', '.join(self.coq_as(x, t) for x, t in zip(v.vs, ty[1])) + ')'
        if ty == 'cow' and isinstance(v, VCow):
            return '(%s, %s)' % ('true' if v.borrowed else 'false', self.coq_as(v.v, 'bytes' if v.borrowed else 'vecu8'))
        if ty == 'utf8res':
            if isinstance(v, VOk):
                return 'Some %s' % paren(self.coq_as(v.v, 'str'))
        if isinstance(ty, tuple) and ty[0] == 'result':
            # Result<T, Utf8Error> as option: Err(_) is None
            if isinstance(v, VOk):
                return 'Some %s' % paren(self.coq_as(v.v, ty[1]))
            if isinstance(v, VErr) and isinstance(v.v, VStruct) and v.v.name == 'Utf8Error':
                return 'None'
        if isinstance(ty, tuple) and ty[0] == 'struct' and isinstance(v, VStruct) and v.name == ty[1]:
            if '_coq' in v.fields:
                return v.fields['_coq']
            order = self.tr.struct_fields(self.cfg.fmt, v.name)
            return '(' + ', '.join(self.coq_as(v.fields[n], 'vecu8') for n in order) + ')'
        err('%s: a value of type %s was expected, got %s' % (self.who(), ty, self.show(v)))

    def as_nat(self, v):
        if isinstance(v, VNum):
            return str(v.n)
        if isinstance(v, T) and v.ty == 'nat':
            return v.s
        err('%s: a usize value was expected, got %s' % (self.who(), self.show(v)))

    def as_bool(self, v):
        if isinstance(v, T) and v.ty == 'bool':
            return v.s
        err('%s: a bool value was expected, got %s' % (self.who(), self.show(v)))

    def as_bytes(self, v, what):
        if isinstance(v, T) and v.ty in ('bytes', 'vecu8', 'str'):
            return v.s
        err('%s: %s: a byte slice was expected, got %s' % (self.who(), what, self.show(v)))

    # ======================================================================
    # blocks and statements
    # ======================================================================
    def block(self, b, env, k):
        assert b[0] == 'block'
        return self.stmts(b[1], 0, b[2], env.push(), lambda v, env2: k(v, env2.pop()))

    def stmts(self, ss, i, tail, env, k):
        if i == len(ss):
            if tail is None:
                return k(VUnit(), env)
            return self.ev(tail, env, k)
        s = ss[i]

        def rest(env2):
            return self.stmts(ss, i + 1, tail, env2, k)
        if s[0] == 'let':
            pat, mut, e = s[1], s[2], s[3]
            return self.ev(e, env, lambda v, env2: self.bind_pattern(pat, v, env2, rest))
        return self.ev(s[1], env, lambda v, env2: rest(env2))

    def bind_pattern(self, pat, v, env, k):
        if pat[0] == 'pbind':
            if isinstance(v, T) and not re.match(r"^[A-Za-z_0-9']+$", v.s) and v.s != '[]':
                n = self.fv()
                return 'let %s := %s in\n%s' % (n, v.s, k(env.bind(pat[1], T(n, v.ty))))
            return k(env.bind(pat[1], v))
        if pat[0] == 'pwild':
            return k(env)
        if pat[0] == 'ptuple' and isinstance(v, VTuple) and len(v.vs) == len(pat[1]):
            def go(i, env2):
                if i == len(pat[1]):
                    return k(env2)
                return self.bind_pattern(pat[1][i], v.vs[i], env2, lambda env3: go(i + 1, env3))
            return go(0, env)
        err('%s: let pattern %r against %s is not supported' % (self.who(), pat[0], self.show(v)))

    # ======================================================================
    # expressions
    # ======================================================================
    def ev(self, e, env, k):
        m = getattr(self, 'ev_' + e[0], None)
        if m is None:
            err('%s: expression form %s is not supported' % (self.who(), e[0]))
        return m(e, env, k)

    def ev_num(self, e, env, k):
        return k(VNum(e[1]), env)

    def ev_byte(self, e, env, k):
        return k(T(BYTE_NAMES.get(e[1], str(e[1])), 'nat'), env)

    def ev_chr(self, e, env, k):
        return k(VStruct('Char', {'c': e[1]}), env)

    def ev_bstr(self, e, env, k):
        inner = e[1][2:-1]
        bs = []
        i = 0
        while i < len(inner):
            if inner[i] == '\\':
                if inner[i + 1] not in BYTE_ESC:
                    err('byte string %s not recognised' % e[1])
                bs.append(BYTE_ESC[inner[i + 1]])
                i += 2
            else:
                if ord(inner[i]) > 127:
                    err('byte string %s not recognised' % e[1])
                bs.append(ord(inner[i]))
                i += 1
        return k(T('[' + '; '.join(BYTE_NAMES.get(b, str(b)) for b in bs) + ']', 'bytes'), env)

    def ev_bool(self, e, env, k):
        return k(T('true' if e[1] else 'false', 'bool'), env)

    def ev_unit(self, e, env, k):
        return k(VUnit(), env)

    def ev_paren(self, e, env, k):
        return self.ev(e[1], env, k)

    def ev_block(self, e, env, k):
        return self.block(e, env, k)

    def ev_tuple(self, e, env, k):
        return self.ev_list(e[1], env, lambda vs, env2: k(VTuple(vs), env2))

    def ev_list(self, es, env, k, acc=None):
        acc = acc or []
        if len(acc) == len(es):
            return k(acc, env)
        return self.ev(es[len(acc)], env, lambda v, env2: self.ev_list(es, env2, k, acc + [v]))

    def ev_path(self, e, env, k):
        segs = e[1]
        if len(segs) == 1:
            n = segs[0]
            if n == 'None':
                return k(VNone(), env)
            if n == 'self':
                err('%s: `self` as a value is not supported' % self.who())
            v = env.lookup(n)
            if v is None:
                err('%s: unknown identifier %s' % (self.who(), n))
            if isinstance(v, VMoved):
                err('%s: use of the moved value %s' % (self.who(), n))
            return k(v, env)
        err('%s: unknown path %s' % (self.who(), '::'.join(segs)))

    def read_self(self, p, env):
        """the field path p (flattened, starts with 'self') of the self object"""
        sv = env.lookup('%self')
        if sv is None:
            err('%s: no self object' % self.who())
        tbl = SELF_FIELDS.get(sv.ty, {})
        if p in tbl:
            g, ty = tbl[p]
            return T(g % sv.s, ty)
        return None

    def ev_field(self, e, env, k):
        p = flatten(e, env)
        if p is not None and p.startswith('self'):
            v = self.read_self(p, env)
            if v is None:
                err('%s: unknown field %s of %s' % (self.who(), p, env.lookup('%self').ty))
            return k(v, env)

        def k_f(v, env2):
            if isinstance(v, VTuple) and e[2].isdigit() and int(e[2]) < len(v.vs):
                return k(v.vs[int(e[2])], env2)
            err('%s: field .%s of %s' % (self.who(), e[2], self.show(v)))
        return self.ev(e[1], env, k_f)

    def ev_unary(self, e, env, k):
        op = e[1]
        if op == '!':
            def k_n(v, env2):
                return k(T('negb %s' % paren(self.as_bool(v)), 'bool'), env2)
            return self.ev(e[2], env, k_n)
        if op in ('&', '&mut'):
            return self.ev(e[2], env, k)
        if op == '*':
            def k_d(v, env2):
                if isinstance(v, T) and isinstance(v.ty, tuple) and v.ty[0] == 'idx':
                    # a reference into a vector, represented by its index: reading it is nth_error
                    n = self.fv()
                    return 'match nth_error (%s) %s with\n| None => %s\n| Some %s =>\n%s\nend' % (
                        v.ty[1], paren(v.s), self.panic(env2), n, ind(k(T(n, 'nat'), env2)))
                if isinstance(v, (T, VNum)) and (isinstance(v, VNum) or v.ty in ('nat',)):
                    return k(v, env2)
                err('%s: dereference of %s' % (self.who(), self.show(v)))
            return self.ev(e[2], env, k_d)
        err('%s: unary %s' % (self.who(), op))

    def ev_binary(self, e, env, k):
        op, a, b = e[1], e[2], e[3]
        if op in ('&&', '||'):
            err('%s: operator %s is not supported here' % (self.who(), op))

        def k_a(va, env2):
            return self.ev(b, env2, lambda vb, env3: self.binop(op, va, vb, env3, k))
        return self.ev(a, env, k_a)

    def binop(self, op, va, vb, env, k):
        if op in ('+', '-'):
            sa, sb = self.as_nat(va), self.as_nat(vb)
            if op == '+':
                return k(T('%s + %s' % (opnd(sa), opnd(sb)), 'nat'), env)
            # usize subtraction: underflow panics
            return 'if %s <? %s then %s else\n%s' % (
                opnd(sa), opnd(sb), self.panic(env), k(T('%s - %s' % (opnd(sa), opnd(sb)), 'nat'), env))
        if op in ('==', '!=', '<', '>', '<=', '>='):
            sa, sb = opnd(self.as_nat(va)), opnd(self.as_nat(vb))
            s = {'==': '%s =? %s' % (sa, sb), '!=': 'negb (%s =? %s)' % (sa, sb),
                 '<': '%s <? %s' % (sa, sb), '<=': '%s <=? %s' % (sa, sb),
                 '>': '%s <? %s' % (sb, sa), '>=': '%s <=? %s' % (sb, sa)}[op]
            return k(T(s, 'bool'), env)
        err('%s: operator %s' % (self.who(), op))

    def ev_assign(self, e, env, k):
        op, lhs, rhs = e[1], e[2], e[3]
        p = flatten(lhs, env)
        if p is None or '.' in p or p == 'self':
            err('%s: assignment target not supported' % self.who())
        cur = env.lookup(p)
        if cur is None or isinstance(cur, VMoved):
            err('%s: assignment to unknown local %s' % (self.who(), p))

        def k_r(v, env2):
            if op == '=':
                if isinstance(v, VNum):
                    v = T(str(v.n), 'nat')
                if not isinstance(v, T):
                    err('%s: assignment of %s' % (self.who(), self.show(v)))
                return k(VUnit(), env2.assign(p, v))
            return self.binop(op[0], env2.lookup(p), v, env2, lambda nv, env3: k(VUnit(), env3.assign(p, nv)))
        return self.ev(rhs, env, k_r)

    def ev_return(self, e, env, k):
        if e[1] is None:
            return env.ret(VUnit(), env)
        return self.ev(e[1], env, lambda v, env2: env.ret(v, env2))

    def ev_break(self, e, env, k):
        if env.loop is None:
            err('%s: break outside of a loop' % self.who())
        return env.loop[0](env)

    def ev_continue(self, e, env, k):
        if env.loop is None:
            err('%s: continue outside of a loop' % self.who())
        return env.loop[1](env)

    def ev_if(self, e, env, k):
        cond, th, el = e[1], e[2], e[3]
        if cond[0] == 'letcond':
            err('%s: if let is not supported' % self.who())

        def k_c(v, env2):
            c = self.as_bool(v)
            yes = self.block(th, env2, k)
            no = k(VUnit(), env2) if el is None else self.block(el, env2, k)
            return 'if %s then (\n%s\n) else (\n%s\n)' % (c, ind(yes), ind(no))
        return self.ev(cond, env, k_c)

    def ev_try(self, e, env, k):
        def k_t(v, env2):
            if isinstance(v, VOk):
                return k(v.v, env2)
            if isinstance(v, T) and v.ty == 'utf8res':
                # Result<&str, Utf8Error>: `?` returns the error
                m = re.match(r'^if utf8_valid (.*) then Some \1 else None$', v.s)
                if m is None:
                    err('%s: `?` on %s' % (self.who(), self.show(v)))
                return 'if utf8_valid %s then (\n%s\n) else (\n%s\n)' % (
                    m.group(1), ind(k(T(m.group(1), 'str'), env2)), ind(env2.ret(VErr(VStruct('Utf8Error', {})), env2)))
            err('%s: `?` on %s' % (self.who(), self.show(v)))
        return self.ev(e[1], env, k_t)

    def ev_macro(self, e, env, k):
        name, args = e[1], e[2]
        if name == 'assert' and len(args) == 1:
            def k_a(v, env2):
                return 'if %s then (\n%s\n) else %s' % (self.as_bool(v), ind(k(VUnit(), env2)), self.panic(env2))
            return self.ev(args[0], env, k_a)
        err('%s: macro %s! is not supported' % (self.who(), name))

    # ---- struct literals
    def ev_struct(self, e, env, k):
        path, fs = e[1], e[2]
        names = [n for n, _ in fs]
        if len(path) != 1:
            err('%s: struct literal %s' % (self.who(), '::'.join(path)))
        name = path[0]
        want = self.tr.struct_fields(self.cfg.fmt, name)
        if sorted(names) != sorted(want):
            err('%s: %s literal: fields %r' % (self.who(), name, names))

        def k_f(vs, env2):
            d = dict(zip(names, vs))
            if name == 'OwnedRecord':
                for n in want:
                    if not (isinstance(d[n], T) and d[n].ty == 'vecu8'):
                        err('%s: OwnedRecord.%s must be a Vec<u8>, got %s' % (self.who(), n, self.show(d[n])))
                return k(VStruct('OwnedRecord', d), env2)
            if name == 'SeqLines':
                # the model's seqlines: the record, and the Zip as index ranges over ITS seq_pos
                z = d['pos_iter']
                data = d['data']
                sv = env2.lookup('%self')
                ok = (isinstance(z, VStruct) and z.name == 'Zip' and isinstance(data, T) and sv is not None and sv.ty == 'fa_rec'
                      and data.s == 'rbuf %s' % sv.s and z.fields['a']['vec'] == z.fields['b']['vec'] == 'rseqpos %s' % sv.s)
                if not ok:
                    err('%s: SeqLines literal: data must be self.buffer and pos_iter a Zip of two iterators over self.buf_pos.seq_pos' % self.who())
                a, b = z.fields['a'], z.fields['b']
                return k(T('mkSL %s %s %s %s %s' % (sv.s, paren(a['lo']), paren(a['hi']), paren(b['lo']), paren(b['hi'])), 'seqlines'), env2)
            if name == 'RefRecord':
                b, p = d['buffer'], d['buf_pos']
                if isinstance(b, T) and b.ty == 'bytes' and isinstance(p, T) and p.ty in ('fa_pos', 'fq_pos') \
                        and p.ty[:2] == self.cfg.fmt:
                    return k(T('%s_pos_rec %s %s' % (self.cfg.fmt, paren(b.s), paren(p.s)), self.cfg.fmt + '_rec'), env2)
                err('%s: RefRecord literal not recognised' % self.who())
            if name == 'RecordSetIter':
                b, p = d['buffer'], d['pos']
                if not (isinstance(b, T) and b.ty in ('bytes', 'vecu8')):
                    err('%s: RecordSetIter.buffer' % self.who())
                if self.cfg.fmt == 'fa' and isinstance(p, VStruct) and p.name == 'Take' and p.fields['elt'] == 'fa_pos':
                    return k(T('mkFaSetIter %s %s %s' % (paren(b.s), paren(p.fields['list']), paren(p.fields['n'])), 'fa_set_iter'), env2)
                if self.cfg.fmt == 'fq' and isinstance(p, VStruct) and p.name == 'ListIter' and p.fields['elt'] == 'fq_pos':
                    return k(T('mkFqSetIter %s %s' % (paren(b.s), paren(p.fields['list'])), 'fq_set_iter'), env2)
                err('%s: RecordSetIter.pos not recognised' % self.who())
            err('%s: struct literal %s is not supported' % (self.who(), name))
        return self.ev_list([x for _, x in fs], env, k_f)

    # ---- free function calls
    def ev_call(self, e, env, k):
        fn, args = e[1], e[2]
        if fn[0] != 'path':
            err('%s: call of a non-path' % self.who())
        name = '::'.join(fn[1])
        if name in ('Some', 'Ok', 'Err') and len(args) == 1:
            cls = {'Some': VSome, 'Ok': VOk, 'Err': VErr}[name]
            return self.ev(args[0], env, lambda v, env2: k(cls(v), env2))
        if name == 'trim_cr' and len(args) == 1:
            def k_t(v, env2):
                if not (isinstance(v, T) and v.ty == 'bytes'):
                    err('%s: trim_cr of %s' % (self.who(), self.show(v)))
                return k(T('trim_cr %s' % paren(v.s), 'bytes'), env2)
            return self.ev(args[0], env, k_t)
        if name == 'Vec::new' and not args:
            return k(T('[]', 'vecu8'), env)
        if name == 'str::from_utf8' and len(args) == 1:
            return self.ev(args[0], env, lambda v, env2: k(self.from_utf8(v), env2))
        if len(fn[1]) == 1 and args and self.is_writer_arg(args[0], env):
            return self.writer_call(name, args, env, k)
        err('%s: call of %s is not supported' % (self.who(), name))

    def is_writer_arg(self, a, env):
        if a[0] == 'unary' and a[1] == '&mut':
            a = a[2]
        if a[0] != 'path' or len(a[1]) != 1:
            return False
        v = env.lookup(a[1][0])
        return isinstance(v, T) and v.ty == 'writer'

    def writer_call(self, name, args, env, k):
        """f(&mut writer, args..) / f(writer, args..) of a free writer function: its output is appended"""
        fmt = self.cfg.fmt
        a0 = args[0][2] if args[0][0] == 'unary' else args[0]
        w = a0[1][0]
        own = [c for c in self.tr.table if c.fmt == fmt and c.owner is None and c.rust == name and c.shape == 'writer']
        if own:
            c = own[0]
            coq, ptys, monad, fuel = c.coq, c.params[1:], c.monad, c.fuel
        elif name in WRITEGEN[fmt]:
            coq, ps = WRITEGEN[fmt][name]
            self.tr.check_writegen(fmt, name, ps)
            ptys, monad, fuel = [t for _, _, t in ps], 'pure', False
        else:
            err('%s: call of the writer function %s, which is not known' % (self.who(), name))
        if len(args) - 1 != len(ptys):
            err('%s: call of %s with %d arguments' % (self.who(), name, len(args) - 1))

        def k_a(vs, env2):
            def go(i, terms, env3):
                if i == len(ptys):
                    return fin(terms, env3)
                v, ty = vs[i], ptys[i]
                if ty == 'bytes':
                    return go(i + 1, terms + [paren(self.as_bytes(v, name))], env3)
                if ty == 'nat':
                    return go(i + 1, terms + [paren(self.as_nat(v))], env3)
                if ty == 'lines':
                    if isinstance(v, T) and v.ty == 'lines':
                        return go(i + 1, terms + [paren(v.s)], env3)
                    if isinstance(v, T) and v.ty == 'seqlines':
                        self.used_fuel = True
                        n = self.fv()
                        return 'match gen_sl_items fuel %s with\n| Done %s =>\n%s\n| Panic => %s\n| OutOfFuel => %s\nend' % (
                            paren(v.s), n, ind(go(i + 1, terms + [n], env3)), self.panic(env3), self.fuel_out(env3))
                err('%s: argument %d of %s: %s' % (self.who(), i + 1, name, self.show(v)))

            def fin(terms, env3):
                cur = env3.lookup(w)
                call = ' '.join([coq] + (['fuel'] if fuel else []) + terms)

                def app(x):
                    nw = self.fw()
                    new = x if cur.s == '[]' else '%s ++ %s' % (opnd(cur.s), opnd(x))
                    return 'let %s := %s in\n%s' % (nw, new, k(VOk(VUnit()), env3.assign(w, T(nw, 'writer'))))
                if monad == 'pure':
                    return app(call)
                n = self.fv()
                if monad == 'opt':
                    return 'match %s with\n| None => %s\n| Some %s =>\n%s\nend' % (call, self.panic(env3), n, ind(app(n)))
                if monad == 'floop':
                    self.used_fuel = True
                    return 'match %s with\n| Done %s =>\n%s\n| Panic => %s\n| OutOfFuel => %s\nend' % (
                        call, n, ind(app(n)), self.panic(env3), self.fuel_out(env3))
                err('%s: call of %s' % (self.who(), name))
            return go(0, [], env2)
        return self.ev_list(args[1:], env, k_a)

    def from_utf8(self, v):
        if not (isinstance(v, T) and v.ty == 'bytes'):
            err('%s: str::from_utf8 of %s' % (self.who(), self.show(v)))
        s = paren(v.s)
        return T('if utf8_valid %s then Some %s else None' % (s, s), 'utf8res')

    # ---- indexing and slicing of byte slices
    def ev_index(self, e, env, k):
        base, idx = e[1], e[2]

        def k_b(vb, env2):
            b = paren(self.as_bytes(vb, 'indexing'))
            if idx is None or idx[0] != 'range' or idx[1] is None or idx[2] is None:
                err('%s: only slices &b[lo..hi] are supported' % self.who())

            def k_lo(vlo, env3):
                def k_hi(vhi, env4):
                    n = self.fv()
                    return 'match slice %s %s %s with\n| None => %s\n| Some %s =>\n%s\nend' % (
                        b, paren(self.as_nat(vlo)), paren(self.as_nat(vhi)), self.panic(env4), n, ind(k(T(n, 'bytes'), env4)))
                return self.ev(idx[2], env3, k_hi)
            return self.ev(idx[1], env2, k_lo)
        return self.ev(base, env, k_b)

    # ---- closures
    def is_sp_closure(self, c):
        """|x| *x == b' '"""
        if c[0] != 'closure' or len(c[1]) != 1 or c[1][0][0] != 'pbind':
            return False
        x = c[1][0][1]
        b = c[2]
        return b[0] == 'binary' and b[1] == '==' and b[2] == ('unary', '*', ('path', [x])) and b[3] == ('byte', 32)

    def apply_fn(self, f, v, env, k):
        """apply a closure or a path to the value v"""
        if f[0] == 'closure':
            if len(f[1]) != 1:
                err('%s: closure with %d parameters' % (self.who(), len(f[1])))
            envc = env.push()

            def k_done(r, env3):
                if env3.pop().frames != env.frames:
                    err('%s: a closure that assigns to captured variables or advances an iterator is not supported' % self.who())
                return k(r, env3.pop())

            def k_bound(env2):
                return self.ev(f[2], env2, k_done)
            return self.bind_closure_pat(f[1][0], v, envc, k_bound)
        if f[0] == 'path' and f[1] == ['str', 'from_utf8']:
            return k(self.from_utf8(v), env)
        err('%s: function argument not supported' % self.who())

    def bind_closure_pat(self, pat, v, env, k):
        if pat[0] == 'pbind':
            return k(env.bind(pat[1], v))
        if pat[0] == 'ptuple' and isinstance(v, VTuple) and len(v.vs) == len(pat[1]):
            def go(i, env2):
                if i == len(pat[1]):
                    return k(env2)
                return self.bind_closure_pat(pat[1][i], v.vs[i], env2, lambda env3: go(i + 1, env3))
            return go(0, env)
        err('%s: closure pattern against %s' % (self.who(), self.show(v)))

    def destruct(self, ty):
        """fresh binders for a value of type ty: (pattern text, value)"""
        if isinstance(ty, tuple) and ty[0] == 'tuple':
            ps, vs = [], []
            for t in ty[1]:
                p, v = self.destruct(t)
                ps.append(p)
                vs.append(v)
            return '(' + ', '.join(ps) + ')', VTuple(vs)
        n = self.fv()
        return n, T(n, ty)

    # ---- method calls
    def ev_mcall(self, e, env, k):
        recv, m, args = e[1], e[2], e[3]
        p = flatten(recv, env)
        sv = env.lookup('%self')
        # methods of self
        if p == 'self' and env.selfp == 'self':
            return self.self_call(m, args, env, k)
        # the iterator inside an iterator object
        if p is not None and sv is not None and (sv.ty, p) in ITER_FIELDS and not args:
            it = ITER_FIELDS[(sv.ty, p)]
            if m in ('next', 'next_back') and m in it:
                if self.cfg.shape != 'iter' and self.cfg.monad != 'slres':
                    err('%s: %s.%s() advances the iterator, but the function is not configured as a state transformer' % (self.who(), p, m))
                s2 = self.fs(SELF_VAR[sv.ty])
                o = self.fv()
                env2 = env.assign('%self', T(s2, sv.ty))
                return "let '(%s, %s) := %s %s in\n%s" % (s2, o, it[m], sv.s, k(T(o, ('option', it['item'](s2))), env2))
            if m == 'len' and 'len' in it:
                return k(T('%s %s' % (it['len'], sv.s), 'nat'), env)
            err('%s: %s.%s() is not supported' % (self.who(), p, m))
        # the reader inside RecordsIter / RecordsIntoIter
        if p == 'self.rdr' and sv is not None and sv.ty in ('fa_reader', 'fq_reader') and m == 'next' and not args:
            if self.cfg.monad != 'recnext':
                err('%s: self.rdr.next() in a function of another kind' % self.who())
            nm, c_none, c_rec, c_err, c_panic, c_fuel = READER_NEXT[self.cfg.fmt]
            self.used_rfuel = True
            r2 = self.fs('r')
            env2 = env.assign('%self', T(r2, sv.ty))
            rc, e_, site = self.fv(), self.fv(), self.fv()
            fmt = self.cfg.fmt
            arms = [
                '| (%s, %s) =>\n%s' % (r2, c_none, ind(k(VNone(), env2))),
                '| (%s, %s %s) =>\n%s' % (r2, c_rec, rc, ind(k(VSome(VOk(T(rc, fmt + '_rec'))), env2))),
                '| (%s, %s %s) =>\n%s' % (r2, c_err, e_, ind(k(VSome(VErr(T(e_, fmt + '_err'))), env2))),
                '| (%s, %s %s) => (%s, Some (ItPanic %s))' % (r2, c_panic, site, r2, site),
                '| (%s, %s) => (%s, Some ItFuel)' % (r2, c_fuel, r2),
                '| (%s, _) => (%s, Some (ItPanic 0))' % (r2, r2),
            ]
            return 'match %s fuel ffuel %s with\n%s\nend' % (nm, sv.s, '\n'.join(arms))
        # inlined methods of a sub-object (fastq BufferPosition::{head, seq, qual})
        if p is not None and p.startswith('self') and sv is not None and (sv.ty, p, m) in self.tr.inline:
            return self.inline_call(self.tr.inline[(sv.ty, p, m)], p, args, env, k)
        # the writer
        if p is not None and '.' not in p and isinstance(env.lookup(p), T) and env.lookup(p).ty == 'writer':
            if m == 'write_all' and len(args) == 1:
                def k_w(v, env2):
                    x = self.as_bytes(v, 'write_all')
                    cur = env2.lookup(p)
                    if cur.s == '[]':
                        new = x
                    else:
                        new = '%s ++ %s' % (opnd(cur.s), opnd(x))
                    w = self.fw()
                    return 'let %s := %s in\n%s' % (w, new, k(VOk(VUnit()), env2.assign(p, T(w, 'writer'))))
                return self.ev(args[0], env, k_w)
            err('%s: writer.%s is not supported' % (self.who(), m))
        # a mutable local: Vec<u8>::extend, SplitN::next
        if p is not None and '.' not in p and env.lookup(p) is not None:
            cur = env.lookup(p)
            if isinstance(cur, T) and cur.ty == 'vecu8' and m == 'extend' and len(args) == 1:
                def k_x(v, env2):
                    x = self.as_bytes(v, 'extend')
                    c2 = env2.lookup(p)
                    return k(VUnit(), env2.assign(p, T('%s ++ %s' % (opnd(c2.s), opnd(x)), 'vecu8')))
                return self.ev(args[0], env, k_x)
            if isinstance(cur, VStruct) and cur.name == 'SplitSp' and m == 'next' and not args:
                v, nxt = self.splitsp_next(cur)
                return k(v, env.assign(p, nxt))

        def k_r(v, env2):
            return self.value_method(v, m, args, env2, k)
        return self.ev(recv, env, k_r)

    def splitsp_next(self, it):
        """next() of  X.split(|b| *b == b' ')  /  X.splitn(2, |b| *b == b' ')  after `pos` calls"""
        s, pos, bounded, ty = it.fields['s'], it.fields['pos'], it.fields['bounded'], it.fields['ty']
        nxt = VStruct('SplitSp', dict(it.fields, pos=pos + 1))
        if pos == 0:
            # the first piece always exists
            return VSome(T('fst (split_sp %s)' % paren(s), ty)), nxt
        if pos == 1 and bounded:
            # splitn(2, ..): the second item is everything after the first separator
            return T('snd (split_sp %s)' % paren(s), ('option', ty)), nxt
        if pos >= 2 and bounded:
            return VNone(), nxt
        err('%s: only the first item of an unbounded split is supported' % self.who())

    def value_method(self, v, m, args, env, k):
        if m == 'unwrap' and not args:
            if isinstance(v, VSome):
                return k(v.v, env)
            if isinstance(v, T) and isinstance(v.ty, tuple) and v.ty[0] == 'option':
                pat, inner = self.destruct(v.ty[1])
                return 'match %s with\n| None => %s\n| Some %s =>\n%s\nend' % (v.s, self.panic(env), pat, ind(k(inner, env)))
            err('%s: unwrap of %s' % (self.who(), self.show(v)))
        if m in ('first', 'last') and not args and isinstance(v, T) and v.ty in ('listnat', 'bytes'):
            f = 'hd_error' if m == 'first' else 'last_opt'
            return k(T('%s %s' % (f, paren(v.s)), ('option', 'nat')), env)
        if m == 'len' and not args and isinstance(v, T) and v.ty in ('bytes', 'listnat', 'vecu8', 'fa_poslist', 'fq_poslist'):
            return k(T('length %s' % paren(v.s), 'nat'), env)
        if m == 'to_vec' and not args and isinstance(v, T) and v.ty == 'bytes':
            return k(T(v.s, 'vecu8'), env)
        if m == 'into' and not args and self.cfg.ret == 'cow':
            if isinstance(v, T) and v.ty == 'bytes':
                return k(VCow(True, v), env)
            if isinstance(v, T) and v.ty == 'vecu8':
                return k(VCow(False, v), env)
        if m == 'iter' and not args and isinstance(v, T) and v.ty == 'listnat':
            # slice::Iter<usize> as the index range [lo, hi) of the vector
            return k(VStruct('IdxIter', {'vec': v.s, 'lo': '0', 'hi': 'length %s' % paren(v.s)}), env)
        if m == 'iter' and not args and isinstance(v, T) and v.ty in ('fa_poslist', 'fq_poslist'):
            # slice::Iter<BufferPosition> as the list of the remaining items
            return k(VStruct('ListIter', {'list': v.s, 'elt': v.ty[:2] + '_pos'}), env)
        if m == 'skip' and len(args) == 1 and isinstance(v, VStruct) and v.name == 'IdxIter':
            def k_n(vn, env2):
                n = self.as_nat(vn)
                lo = n if v.fields['lo'] == '0' else '%s + %s' % (opnd(v.fields['lo']), opnd(n))
                return k(VStruct('IdxIter', dict(v.fields, lo='Nat.min %s %s' % (paren(lo), paren(v.fields['hi'])))), env2)
            return self.ev(args[0], env, k_n)
        if m == 'zip' and len(args) == 1 and isinstance(v, VStruct) and v.name == 'IdxIter':
            def k_z(vb, env2):
                if not (isinstance(vb, VStruct) and vb.name == 'IdxIter'):
                    err('%s: zip with %s' % (self.who(), self.show(vb)))
                return k(VStruct('Zip', {'a': v.fields, 'b': vb.fields}), env2)
            return self.ev(args[0], env, k_z)
        if m == 'take' and len(args) == 1 and isinstance(v, VStruct) and v.name == 'ListIter':
            return self.ev(args[0], env, lambda vn, env2: k(VStruct('Take', dict(v.fields, n=self.as_nat(vn))), env2))
        if m == 'chunks' and len(args) == 1 and isinstance(v, T) and v.ty == 'bytes':
            def k_c(vn, env2):
                n = self.as_nat(vn)
                # <[u8]>::chunks(0) panics
                return 'if %s =? 0 then %s else\n%s' % (
                    opnd(n), self.panic(env2),
                    k(VStruct('ListIter', {'list': 'chunks (length %s) %s %s' % (paren(v.s), paren(n), paren(v.s)), 'elt': 'bytes'}), env2))
            return self.ev(args[0], env, k_c)
        if m == 'split_at' and len(args) == 1 and isinstance(v, T) and v.ty == 'bytes':
            def k_s(vn, env2):
                n = paren(self.as_nat(vn))
                b = paren(v.s)
                # split_at(mid) panics if mid > len
                return 'if length %s <? %s then %s else\n%s' % (
                    b, n, self.panic(env2),
                    k(VTuple([T('firstn %s %s' % (n, b), 'bytes'), T('skipn %s %s' % (n, b), 'bytes')]), env2))
            return self.ev(args[0], env, k_s)
        if m in ('split', 'splitn') and isinstance(v, T) and v.ty in ('bytes', 'str'):
            bounded = m == 'splitn'
            sep = args[-1] if args else None
            ok = sep is not None and len(args) == (2 if bounded else 1) and (not bounded or args[0] == ('num', 2))
            if ok and v.ty == 'bytes':
                ok = self.is_sp_closure(sep)
            elif ok:
                ok = sep == ('chr', 32)
            if not ok:
                err('%s: only split(|b| *b == b\' \') and splitn(2, <the same>) are supported' % self.who())
            return k(VStruct('SplitSp', {'s': v.s, 'pos': 0, 'bounded': bounded, 'ty': v.ty}), env)
        if isinstance(v, VStruct) and v.name == 'SplitSp' and not args and m == 'next':
            r, _ = self.splitsp_next(v)
            return k(r, env)
        if isinstance(v, VStruct) and v.name == 'SplitSp' and m == 'nth' and len(args) == 1 and args[0][0] == 'num':
            it = v
            r = None
            for _ in range(args[0][1] + 1):
                r, it = self.splitsp_next(it)
            return k(r, env)
        if m == 'map' and len(args) == 1:
            if isinstance(v, T) and isinstance(v.ty, tuple) and v.ty[0] == 'option':
                pat, inner = self.destruct(v.ty[1])
                yes = self.apply_fn(args[0], inner, env, lambda r, env2: k(VSome(r), env))
                return 'match %s with\n| Some %s =>\n%s\n| None =>\n%s\nend' % (v.s, pat, ind(yes), ind(k(VNone(), env)))
            if isinstance(v, VSome):
                return self.apply_fn(args[0], v.v, env, lambda r, env2: k(VSome(r), env))
            if isinstance(v, VNone):
                return k(v, env)
            if isinstance(v, VOk):
                return self.apply_fn(args[0], v.v, env, lambda r, env2: k(VOk(r), env))
            if isinstance(v, VErr):
                return k(v, env)
        # methods of values of a type with translated methods
        if isinstance(v, T) and (v.ty, m) in self.tr.by_self:
            return self.call_cfg(self.tr.by_self[(v.ty, m)], v.s, args, env, k)
        err('%s: method .%s on %s is not supported' % (self.who(), m, self.show(v)))

    def self_call(self, m, args, env, k):
        sv = env.lookup('%self')
        if sv.ty == 'head':
            # default method of trait Record: the implementor's head() is a parameter
            if m == 'head' and not args:
                return k(T(sv.s, 'bytes'), env)
            c = self.tr.by_self.get((self.cfg.fmt + ':head', m))
        elif sv.ty == 'hsq':
            # default method of the FASTQ trait Record: the implementor's head(), seq(), qual() are parameters
            if m in ('head', 'seq', 'qual') and not args:
                return k(T(m, 'bytes'), env)
            c = None
        else:
            c = self.tr.by_self.get((sv.ty, m))
        if c is None:
            err('%s: call of self.%s(), which is not translated' % (self.who(), m))
        return self.call_cfg(c, sv.s, args, env, k)

    def call_cfg(self, c, selfterm, args, env, k):
        if args:
            err('%s: call of %s with arguments' % (self.who(), c.rust))
        if c.shape != 'value':
            err('%s: call of %s (a %s function)' % (self.who(), c.rust, c.shape))
        call = ' '.join([c.coq] + ([self.cfg.fuel_name] if c.fuel else []) + [paren(selfterm)])
        ty = c.ret
        if ty == ('struct', 'OwnedRecord'):
            ty = c.fmt + '_owned'
        if ty == 'cow' or (isinstance(ty, tuple) and ty[0] == 'struct'):
            err('%s: the result of %s cannot be used here' % (self.who(), c.rust))
        if c.monad == 'pure':
            return k(T(call, ty), env)
        pat, inner = self.destruct(ty)
        if c.monad == 'opt':
            return 'match %s with\n| None => %s\n| Some %s =>\n%s\nend' % (call, self.panic(env), pat, ind(k(inner, env)))
        if c.monad == 'floop':
            self.used_fuel = True
            return 'match %s with\n| Done %s =>\n%s\n| Panic => %s\n| OutOfFuel => %s\nend' % (
                call, pat, ind(k(inner, env)), self.panic(env), self.fuel_out(env))
        err('%s: call of %s' % (self.who(), c.rust))

    def inline_call(self, c, recv_path, args, env, k):
        fn = find_fn(self.tr.items[c.fmt], c.owner, c.trait, c.rust)
        selfkind, params, ret, generics, where, body = parse_fn(fn, c.rust)
        self.tr.check_sig(c, (selfkind, [p[1] for p in params], ret, generics, where))
        if len(params) != len(args):
            err('%s: call of %s with %d arguments' % (self.who(), c.rust, len(args)))

        def k_a(vs, env2):
            frame = {'%self': env2.lookup('%self')}
            for (pn, pty, _), v in zip(params, vs):
                frame[pn] = v
            envi = Env([frame], recv_path, lambda v, e_in: k(v, env2), None)
            return self.block(body, envi, lambda v, e_in: envi.ret(v, e_in))
        return self.ev_list(args, env, k_a)

    # ======================================================================
    # loops: every loop is a top-level Fixpoint; the code after the loop is its continuation K
    # ======================================================================
    def live(self, env):
        """the locals that a loop carries: (name, value)"""
        out = []
        for n in env.all_locals():
            if n == '%self':
                continue
            v = env.lookup(n)
            if isinstance(v, VMoved):
                continue
            if isinstance(v, VNum):
                v = T(str(v.n), 'nat')
            if not isinstance(v, T):
                err('%s: local %s of kind %s is live across a loop' % (self.who(), n, self.show(v)))
            out.append((n, v))
        return out

    def rename(self, env, live):
        """fresh parameter names for the live locals: (params, frames)"""
        newname = {}
        params = []
        for n, v in live:
            pn = self.fv()
            newname[n] = T(pn, v.ty)
            params.append((pn, v.ty, v.s))
        frames = []
        seen = set()
        for fr_ in env.frames:
            nf = {}
            for n, v in fr_.items():
                if n in newname:
                    if n in seen:
                        err('%s: shadowed local %s is live across a loop' % (self.who(), n))
                    seen.add(n)
                    nf[n] = newname[n]
                else:
                    nf[n] = v
            frames.append(nf)
        return params, frames

    def loop_fix(self, kind, env, k, body_of, head=None):
        """kind: 'list' (structural recursion over the list of items), 'iter' (fuel; the iterator object is `head`),
        'loop' (fuel).  body_of(inner_env, k_cont) -> code of one iteration."""
        sv = env.lookup('%self')
        if sv is not None and self.cfg.shape == 'iter':
            err('%s: loop in a state transformer' % self.who())
        if kind == 'loop':
            self.nloop += 1
            name = '%s_loop%s' % (self.cfg.coq, '' if self.nloop == 1 else str(self.nloop))
        else:
            self.nfor += 1
            name = '%s_for%s' % (self.cfg.coq, '' if self.nfor == 1 else str(self.nfor))
        live = self.live(env)
        names = [n for n, _ in live]
        params, frames = self.rename(env, live)
        depth = len(env.frames)
        rec = '\0REC:%s\0' % name

        def args_of(env2):
            e3 = env2.copy(frames=env2.frames[:depth])
            out = []
            for n in names:
                v = e3.lookup(n)
                out.append(paren(str(v.n) if isinstance(v, VNum) else v.s))
            return out

        def k_after(env2):
            return ' '.join(['K'] + args_of(env2))
        inner = env.copy(frames=frames)
        ps = ''.join(' (%s : %s)' % (pn, coq_ty(ty)) for pn, ty, _ in params)
        kty = ' -> '.join([arrow_ty(ty) for _, ty, _ in params] + [paren(self.res_ty())])
        if kind == 'list':
            x, l, l2 = self.fv(), self.fl(), self.fl()

            def k_cont(env2):
                return ' '.join([rec, l2] + args_of(env2))
            inner = inner.copy(loop=(k_after, k_cont))
            code = body_of(inner, k_cont, T(x, head['elt']))
            body = 'match %s with\n| [] => %s\n| %s :: %s =>\n%s\nend' % (
                l, ' '.join(['K'] + [pn for pn, _, _ in params]), x, l2, ind(code))
            struct = l
            lead = ' (%s : list %s)' % (l, paren(coq_ty(head['elt'])))
            first = [paren(head['list'])]
        else:
            self.used_fuel = True
            if kind == 'iter':
                it_in, it_out, x = self.fs('it'), self.fs('it'), self.fv()

                def k_cont(env2):
                    return ' '.join([rec, it_out] + args_of(env2))
                inner = inner.copy(loop=(k_after, k_cont))
                code = body_of(inner, k_cont, T(x, 'bytes'))
                nxt = self.tr.by_self.get(('seqlines', 'next'))
                if nxt is None or nxt.monad != 'slres':
                    err('%s: for over a SeqLines, but SeqLines::next is not translated' % self.who())
                step = 'match %s %s with\n| (%s, SlNone) => %s\n| (%s, SlItem %s) =>\n%s\n| (%s, SlPanic) => %s\nend' % (
                    nxt.coq, it_in, it_out, ' '.join(['K'] + [pn for pn, _, _ in params]), it_out, x, ind(code), it_out, self.panic(env))
                lead = ' (%s : seqlines)' % it_in
                first = [paren(head['term'])]
            else:
                def k_cont(env2):
                    return ' '.join([rec] + args_of(env2))
                inner = inner.copy(loop=(k_after, k_cont))
                step = body_of(inner, k_cont, None)
                lead = ''
                first = []
            body = "match lfuel with\n| 0 => %s\n| S lfuel' =>\n%s\nend" % (self.fuel_out(env), ind(step))
            struct = 'lfuel'
        # does the body mention the self object or the fuel of the function?
        selfp = ''
        selfa = []
        if sv is not None and re.search(r'\b%s\b' % re.escape(sv.s), body):
            selfp = ' (%s : %s)' % (sv.s, coq_ty(sv.ty))
            selfa = [sv.s]
        uses_fuel = re.search(r'\bfuel\b', body) is not None     # a fuelled loop or call inside the body
        if kind == 'list':
            fparams = ' (fuel : nat)' if uses_fuel else ''
            rec_fuel = ['fuel'] if uses_fuel else []
            call_fuel = rec_fuel
        else:
            fparams = (' (fuel : nat)' if uses_fuel else '') + ' (lfuel : nat)'
            rec_fuel = (['fuel'] if uses_fuel else []) + ["lfuel'"]
            call_fuel = (['fuel'] if uses_fuel else []) + ['fuel']
        body = body.replace(rec, ' '.join([name, 'K'] + selfa + rec_fuel))
        text = 'Fixpoint %s (K : %s)%s%s%s%s {struct %s} : %s :=\n%s.' % (
            name, kty, selfp, fparams, lead, ps, struct, self.res_ty(), ind(body))
        self.aux.append(text)
        if call_fuel:
            self.used_fuel = True
        # the code after the loop, as the continuation K
        kenv = env.copy(frames=frames)
        after = k(VUnit(), kenv)
        if params:
            lam = '(fun%s =>\n%s)' % (ps, ind(after))
        else:
            lam = paren(after)
        return ' '.join([name, lam] + selfa + call_fuel + first + [paren(s_) for _, _, s_ in params])

    def ev_for(self, e, env, k):
        pat, it, body = e[1], e[2], e[3]
        if pat[0] != 'pbind':
            err('%s: for pattern not supported' % self.who())

        def k_it(vit, env1):
            # a local that is iterated over is moved into the loop
            if it[0] == 'path' and len(it[1]) == 1 and env1.lookup(it[1][0]) is not None:
                env1 = env1.assign(it[1][0], VMoved())

            def body_of(inner, k_cont, x):
                benv = inner.push().bind(pat[1], x)
                return self.block(body, benv, lambda v, env2: k_cont(env2))
            if isinstance(vit, T) and vit.ty == 'lines':
                return self.loop_fix('list', env1, k, body_of, {'list': vit.s, 'elt': 'bytes'})
            if isinstance(vit, VStruct) and vit.name == 'ListIter' and vit.fields['elt'] == 'bytes':
                return self.loop_fix('list', env1, k, body_of, vit.fields)
            if isinstance(vit, T) and vit.ty == 'seqlines':
                # for x in <SeqLines>: repeated SeqLines::next()
                return self.loop_fix('iter', env1, k, body_of, {'term': vit.s})
            err('%s: for loop over %s is not supported' % (self.who(), self.show(vit)))
        return self.ev(it, env, k_it)

    def ev_loop(self, e, env, k):
        def body_of(inner, k_cont, x):
            return self.block(e[1], inner, lambda v, env2: k_cont(env2))
        return self.loop_fix('loop', env, k, body_of)

    # ======================================================================
    # driver for one function
    # ======================================================================
    PARAM_TYPES = {'& [ u8 ]': 'bytes', 'usize': 'nat'}

    def run(self, fn):
        c = self.cfg
        selfkind, params, ret, generics, where, body = parse_fn(fn, c.rust)
        self.tr.check_sig(c, (selfkind, [p[1] for p in params], ret, generics, where))
        frame = {}
        cparams = []
        want_self = {'pure': '&', 'opt': '&', 'floop': '&', 'slres': '&mut', 'recnext': '&mut'}[c.monad]
        if c.shape == 'iter':
            want_self = '&mut'
        if c.self_ty is None:
            if selfkind is not None:
                err('%s: a free function was expected' % self.who())
        else:
            if selfkind != want_self and not (c.owner == '&' and selfkind == 'own'):
                err('%s: self kind %r' % (self.who(), selfkind))
            sv = SELF_VAR[c.self_ty]
            frame['%self'] = T(sv, c.self_ty)
            if c.self_ty == 'hsq':
                cparams += [('head', 'list byte'), ('seq', 'list byte'), ('qual', 'list byte')]
            else:
                cparams.append((sv, 'list byte' if c.self_ty == 'head' else coq_ty(c.self_ty)))
        ptys = c.params or []
        if len(ptys) != len(params):
            err('%s: %d parameters configured, %d found' % (self.who(), len(ptys), len(params)))
        for n, ((pn, pty, mut), ty) in enumerate(zip(params, ptys), 1):
            if ty == 'writer':
                frame[pn] = T('[]', 'writer')      # the bytes written so far
                continue
            a = 'a%d' % n
            cparams.append((a, coq_ty(ty)))
            frame[pn] = T(a, ty)
        env0 = Env([frame], 'self', lambda v, env: self.method_return(v, env), None)
        code = self.block(body, env0, lambda v, env: env.ret(v, env))
        if c.monad == 'recnext':
            if not self.used_rfuel or self.used_fuel != (c.fmt == 'fa'):
                err('%s: expected a call of the reader%s' % (self.who(), ' and of a fuelled view' if c.fmt == 'fa' else ' and no fuelled view'))
        elif self.used_fuel != c.fuel or self.used_rfuel:
            err('%s: %s fuel, configured otherwise' % (self.who(), 'needs' if self.used_fuel else 'does not need'))
        ps = (' (fuel : nat)' if c.fuel else '') + ((' (fuel ffuel vfuel : nat)' if self.used_fuel else ' (fuel ffuel : nat)') if c.monad == 'recnext' else '') + ''.join(' (%s : %s)' % (a, t) for a, t in cparams)
        text = 'Definition %s%s : %s :=\n%s.' % (c.coq, ps, self.res_ty(), ind(code))
        return '\n\n'.join(self.aux + [text])


# ==========================================================================
# 4. Function tables and the fixed prelude
# ==========================================================================

BYTES_RET = "& [ u8 ]"
IO_RES = 'io :: Result < ( ) >'
OPTB = ('option', 'bytes')


def tables():
    fs = []

    def add(*a, **kw):
        fs.append(F(*a, **kw))
    for fmt in ('fa', 'fq'):
        # default methods of trait Record (identical in both files): functions of the header line
        hd = fmt + ':head'
        add(fmt, 'Record', 'trait', 'id_bytes', 'gen_%s_id_bytes' % fmt, 'head', 'pure', 'bytes', ('&', [], BYTES_RET, '', ''))
        add(fmt, 'Record', 'trait', 'desc_bytes', 'gen_%s_desc_bytes' % fmt, 'head', 'pure', OPTB,
            ('&', [], 'Option < & [ u8 ] >', '', ''))
        add(fmt, 'Record', 'trait', 'id_desc_bytes', 'gen_%s_id_desc_bytes' % fmt, 'head', 'pure', ('tuple', ['bytes', OPTB]),
            ('&', [], '( & [ u8 ] , Option < & [ u8 ] > )', '', ''))
        add(fmt, 'Record', 'trait', 'id', 'gen_%s_id' % fmt, 'head', 'pure', 'utf8res', ('&', [], 'Result < & str , Utf8Error >', '', ''))
        add(fmt, 'Record', 'trait', 'desc', 'gen_%s_desc' % fmt, 'head', 'pure', ('option', 'utf8res'),
            ('&', [], 'Option < Result < & str , Utf8Error > >', '', ''))
        add(fmt, 'Record', 'trait', 'id_desc', 'gen_%s_id_desc' % fmt, 'head', 'pure',
            ('result', ('tuple', ['str', ('option', 'str')])), ('&', [], 'Result < ( & str , Option < & str > ) , Utf8Error >', '', ''))
        for f in fs[-6:]:
            f.key = hd
    # fasta.rs: RefRecord
    add('fa', 'RefRecord', 'Record', 'head', 'gen_fa_head', 'fa_rec', 'opt', 'bytes', ('&', [], BYTES_RET, '', ''))
    add('fa', 'RefRecord', 'Record', 'seq', 'gen_fa_seq', 'fa_rec', 'opt', 'bytes', ('&', [], BYTES_RET, '', ''))
    add('fa', 'RefRecord', None, 'seq_lines', 'gen_fa_seq_lines', 'fa_rec', 'pure', 'seqlines', ('&', [], 'SeqLines', '', ''))
    # SeqLines
    add('fa', 'SeqLines', 'ExactSizeIterator', 'len', 'gen_sl_len', 'seqlines', 'pure', 'nat', ('&', [], 'usize', '', ''))
    add('fa', 'SeqLines', 'Iterator', 'size_hint', 'gen_sl_size_hint', 'seqlines', 'pure', ('tuple', ['nat', ('option', 'nat')]),
        ('&', [], '( usize , Option < usize > )', '', ''))
    add('fa', 'SeqLines', 'Iterator', 'next', 'gen_sl_next', 'seqlines', 'slres', OPTB, ('&mut', [], "Option < & 'a [ u8 ] >", '', ''))
    add('fa', 'SeqLines', 'DoubleEndedIterator', 'next_back', 'gen_sl_next_back', 'seqlines', 'slres', OPTB,
        ('&mut', [], "Option < & 'a [ u8 ] >", '', ''))
    add('fa', 'RefRecord', None, 'num_seq_lines', 'gen_fa_num_seq_lines', 'fa_rec', 'pure', 'nat', ('&', [], 'usize', '', ''))
    add('fa', 'RefRecord', None, 'owned_seq', 'gen_fa_owned_seq', 'fa_rec', 'floop', 'vecu8', ('&', [], 'Vec < u8 >', '', ''))
    add('fa', 'RefRecord', None, 'full_seq', 'gen_fa_full_seq', 'fa_rec', 'floop', 'cow', ('&', [], 'Cow < [ u8 ] >', '', ''))
    add('fa', 'RefRecord', None, 'to_owned_record', 'gen_fa_to_owned_record', 'fa_rec', 'floop', ('struct', 'OwnedRecord'),
        ('&', [], 'OwnedRecord', '', ''))
    add('fa', 'RefRecord', None, 'write_unchanged', 'gen_fa_write_unchanged', 'fa_rec', 'opt', None,
        ('&', ['W'], IO_RES, '< W : io :: Write >', ''), params=['writer'], shape='writer')
    # fasta.rs: the writer loops
    add('fa', None, None, 'write_wrap_seq', 'gen_fa_write_wrap_seq', None, 'opt', None,
        (None, ['W', '& [ u8 ]', 'usize'], IO_RES, '< W >', 'where W : io :: Write ,'), params=['writer', 'bytes', 'nat'], shape='writer')
    add('fa', None, None, 'write_seq_iter', 'gen_fa_write_seq_iter', None, 'pure', None,
        (None, ['W', 'P'], IO_RES, "< 'a , W , P >", "where W : io :: Write , P : Iterator < Item = & 'a [ u8 ] > ,"),
        params=['writer', 'lines'], shape='writer')
    add('fa', None, None, 'write_wrap_seq_iter', 'gen_fa_write_wrap_seq_iter', None, 'floop', None,
        (None, ['W', 'P', 'usize'], IO_RES, "< 'a , W , P >", "where W : io :: Write , P : IntoIterator < Item = & 'a [ u8 ] > ,"),
        params=['writer', 'lines', 'nat'], shape='writer')
    # fasta.rs: RefRecord::{write, write_wrap}, OwnedRecord
    add('fa', 'RefRecord', 'Record', 'write', 'gen_fa_write', 'fa_rec', 'floop', None,
        ('&', ['W'], IO_RES, '< W : io :: Write >', ''), params=['writer'], shape='writer')
    add('fa', 'RefRecord', 'Record', 'write_wrap', 'gen_fa_write_wrap', 'fa_rec', 'floop', None,
        ('&', ['W', 'usize'], IO_RES, '< W : io :: Write >', ''), params=['writer', 'nat'], shape='writer')
    add('fa', 'OwnedRecord', 'Record', 'head', 'gen_fa_ownedrec_head', 'fa_owned', 'pure', 'bytes', ('&', [], BYTES_RET, '', ''))
    add('fa', 'OwnedRecord', 'Record', 'seq', 'gen_fa_ownedrec_seq', 'fa_owned', 'pure', 'bytes', ('&', [], BYTES_RET, '', ''))
    add('fa', 'OwnedRecord', 'Record', 'write', 'gen_fa_ownedrec_write', 'fa_owned', 'pure', None,
        ('&', ['W'], IO_RES, '< W : io :: Write >', ''), params=['writer'], shape='writer')
    add('fa', 'OwnedRecord', 'Record', 'write_wrap', 'gen_fa_ownedrec_write_wrap', 'fa_owned', 'opt', None,
        ('&', ['W', 'usize'], IO_RES, '< W : io :: Write >', ''), params=['writer', 'nat'], shape='writer')
    # fastq.rs: BufferPosition accessors (inlined), RefRecord
    for m in ('head', 'seq', 'qual'):
        add('fq', 'BufferPosition', None, m, None, 'fq_rec', 'opt', 'bytes',
            ('&', ["& 'a [ u8 ]"], "& 'a [ u8 ]", "< 'a >", ''), params=['bytes'], inline=True)
        add('fq', 'RefRecord', 'Record', m, 'gen_fq_%s' % m, 'fq_rec', 'opt', 'bytes', ('&', [], BYTES_RET, '', ''))
    add('fq', 'RefRecord', None, 'to_owned_record', 'gen_fq_to_owned_record', 'fq_rec', 'opt', ('struct', 'OwnedRecord'),
        ('&', [], 'OwnedRecord', '', ''))
    add('fq', 'RefRecord', None, 'write_unchanged', 'gen_fq_write_unchanged', 'fq_rec', 'opt', None,
        ('&', ['W'], IO_RES, '< W : io :: Write >', ''), params=['writer'], shape='writer')
    # fastq.rs: the default method Record::write (over the implementor's head(), seq(), qual()), OwnedRecord
    add('fq', 'Record', 'trait', 'write', 'gen_fq_record_write', 'hsq', 'pure', None,
        ('&', ['W'], IO_RES, '< W : io :: Write >', ''), params=['writer'], shape='writer')
    for m in ('head', 'seq', 'qual'):
        add('fq', 'OwnedRecord', 'Record', m, 'gen_fq_ownedrec_%s' % m, 'fq_owned', 'pure', 'bytes', ('&', [], BYTES_RET, '', ''))
    # the owned-record iterators of the readers
    for fmt in ('fa', 'fq'):
        add(fmt, 'RecordsIter', 'Iterator', 'next', 'gen_%s_records_next' % fmt, fmt + '_reader', 'recnext', None,
            ('&mut', [], 'Option < Self :: Item >', '', ''))
        add(fmt, 'RecordsIntoIter', 'Iterator', 'next', 'gen_%s_records_into_next' % fmt, fmt + '_reader', 'recnext', None,
            ('&mut', [], 'Option < Self :: Item >', '', ''))
    # record sets
    add('fa', 'RecordSet', None, 'len', 'gen_fa_set_len', 'fa_set', 'pure', 'nat', ('&', [], 'usize', '', ''))
    add('fa', 'RecordSet', None, 'is_empty', 'gen_fa_set_is_empty', 'fa_set', 'pure', 'bool', ('&', [], 'bool', '', ''))
    add('fa', '&', 'iter', 'into_iter', 'gen_fa_set_into_iter', 'fa_set', 'pure', 'fa_set_iter', ('own', [], 'Self :: IntoIter', '', ''))
    add('fa', 'RecordSetIter', 'Iterator', 'next', 'gen_fa_set_iter_next', 'fa_set_iter', 'pure', ('option', 'fa_rec'),
        ('&mut', [], "Option < RefRecord < 'a > >", '', ''), shape='iter')
    add('fq', 'RecordSet', None, 'len', 'gen_fq_set_len', 'fq_set', 'pure', 'nat', ('&', [], 'usize', '', ''))
    add('fq', 'RecordSet', None, 'is_empty', 'gen_fq_set_is_empty', 'fq_set', 'pure', 'bool', ('&', [], 'bool', '', ''))
    add('fq', '&', 'iter', 'into_iter', 'gen_fq_set_into_iter', 'fq_set', 'pure', 'fq_set_iter', ('own', [], 'Self :: IntoIter', '', ''))
    add('fq', 'RecordSetIter', 'Iterator', 'next', 'gen_fq_set_iter_next', 'fq_set_iter', 'pure', ('option', 'fq_rec'),
        ('&mut', [], "Option < RefRecord < 'a > >", '', ''), shape='iter')
    return fs


PRELUDE = r'''(* GENERATED by tools/translate_views.py from src/{fasta,fastq}.rs of the repository under test -- do not edit *)
From SeqIO Require Import Model.Base Model.Fasta Model.Fastq Model.WrapLoops Gen.WriteGen Model.Views Model.Iters.

(* ---- fixed prelude: result type of functions with loops, and the iterator adaptors of std ---- *)

(* result of a generated function that contains a `loop` or a `for` over an iterator object: the value, a Rust
   panic, or the loop bound `fuel` of the generated Fixpoint was too small (not a behaviour of the code) *)
Inductive floop (A : Type) := Done (a : A) | Panic | OutOfFuel.
Arguments Done {A} a.
Arguments Panic {A}.
Arguments OutOfFuel {A}.

(* TRUSTED: core::slice::Iter<usize> over the elements [lo, hi) of a vector, as the pair (lo, hi); an item is
   a reference into the vector, represented by its index (reading it is nth_error on the vector) *)
Definition it_next (lo hi : nat) : nat * nat * option nat :=
  if lo <? hi then (S lo, hi, Some lo) else (lo, hi, None).
Definition it_next_back (lo hi : nat) : nat * nat * option nat :=
  if lo <? hi then (lo, hi - 1, Some (hi - 1)) else (lo, hi, None).
Definition it_len (lo hi : nat) : nat := hi - lo.
(* n calls of next_back, items dropped (the `for _ in 0..n { it.next_back(); }` of Zip::next_back) *)
Fixpoint it_drop_back (n lo hi : nat) : nat * nat :=
  match n with
  | 0 => (lo, hi)
  | S n' => let '(lo', hi', _) := it_next_back lo hi in it_drop_back n' lo' hi'
  end.

(* TRUSTED: core::iter::Zip<A, B> of the two index ranges of a SeqLines (B is the Skip<Iter>, represented by the
   range that remains after skipping), after the definitions of std:
     next:       let x = self.a.next()?; let y = self.b.next()?; Some((x, y))
     next_back:  trim the longer side by next_back() calls, then match (a.next_back(), b.next_back())
                 { (Some(x), Some(y)) => Some((x, y)), (None, None) => None, _ => unreachable!() }
     len:        min(a.len(), b.len()) *)
Definition zip_next (s : seqlines) : seqlines * option (nat * nat) :=
  let '(af1, ab1, x) := it_next (af s) (ab s) in
  match x with
  | None => (mkSL (sl_rec s) af1 ab1 (bf s) (bb s), None)
  | Some i =>
      let '(bf1, bb1, y) := it_next (bf s) (bb s) in
      match y with
      | None => (mkSL (sl_rec s) af1 ab1 bf1 bb1, None)
      | Some j => (mkSL (sl_rec s) af1 ab1 bf1 bb1, Some (i, j))
      end
  end.
Definition zip_next_back (s : seqlines) : seqlines * option (nat * nat) :=
  let a_sz := it_len (af s) (ab s) in
  let b_sz := it_len (bf s) (bb s) in
  let '(af1, ab1) := if b_sz <? a_sz then it_drop_back (a_sz - b_sz) (af s) (ab s) else (af s, ab s) in
  let '(bf1, bb1) := if a_sz <? b_sz then it_drop_back (b_sz - a_sz) (bf s) (bb s) else (bf s, bb s) in
  let '(af2, ab2, x) := it_next_back af1 ab1 in
  let '(bf2, bb2, y) := it_next_back bf1 bb1 in
  match x, y with
  | Some i, Some j => (mkSL (sl_rec s) af2 ab2 bf2 bb2, Some (i, j))
  | _, _ => (mkSL (sl_rec s) af2 ab2 bf2 bb2, None)
  end.
Definition zip_len (s : seqlines) : nat := Nat.min (it_len (af s) (ab s)) (it_len (bf s) (bb s)).

(* TRUSTED: core::slice::Iter<BufferPosition> as the list of the remaining items, and core::iter::Take:
     Take::next:  if self.n != 0 { self.n -= 1; self.iter.next() } else { None } *)
Definition lit_next {A : Type} (l : list A) : list A * option A :=
  match l with [] => ([], None) | p :: rest => (rest, Some p) end.
Definition fsi_pos_next (it : fa_set_iter) : fa_set_iter * option (nat * list nat) :=
  match fsi_take it with
  | 0 => (it, None)
  | S n => let '(rest, o) := lit_next (fsi_rest it) in (mkFaSetIter (fsi_buf it) rest n, o)
  end.
Definition qsi_pos_next (it : fq_set_iter) : fq_set_iter * option (nat * nat * nat * nat * nat) :=
  let '(rest, o) := lit_next (qsi_rest it) in (mkFqSetIter (qsi_buf it) rest, o).
'''


PRELUDE_RECORDS = r'''(* GENERATED by tools/translate_views.py from src/{fasta,fastq}.rs of the repository under test -- do not edit *)
(* the owned-record iterators of the readers: they call Reader::next (CoreGen.v, generated by tools/translate_core.py)
   and RefRecord::to_owned_record (ViewsGen.v) *)
From SeqIO Require Import Model.Base Model.Fasta Model.Fastq Model.Views Model.Iters.
From SeqIOCore Require Import CoreGen ViewsGen.
'''


# ==========================================================================
# 5. Environment checks and driver
# ==========================================================================

class Translator:
    ZIP_TY = "iter :: Zip < slice :: Iter < 'a , usize > , iter :: Skip < slice :: Iter < 'a , usize > > >"
    STRUCTS = {
        'fa': {'RefRecord': [('buffer', "& 'a [ u8 ]"), ('buf_pos', "& 'a BufferPosition")],
               'BufferPosition': [('start', 'usize'), ('seq_pos', 'Vec < usize >')],
               'SeqLines': [('data', "& 'a [ u8 ]"), ('pos_iter', ZIP_TY)],
               'OwnedRecord': [('head', 'Vec < u8 >'), ('seq', 'Vec < u8 >')],
               'RecordSet': [('buffer', 'Vec < u8 >'), ('positions', 'Vec < BufferPosition >'), ('npos', 'usize')],
               'RecordSetIter': [('buffer', "& 'a [ u8 ]"), ('pos', "iter :: Take < slice :: Iter < 'a , BufferPosition > >")],
               'RecordsIter': [('rdr', "& 'a mut Reader < R , P >")], 'RecordsIntoIter': [('rdr', 'Reader < R , P >')]},
        'fq': {'RefRecord': [('buffer', "& 'a [ u8 ]"), ('buf_pos', "& 'a BufferPosition")],
               'BufferPosition': [('pos', '( usize , usize )'), ('seq', 'usize'), ('sep', 'usize'), ('qual', 'usize')],
               'OwnedRecord': [('head', 'Vec < u8 >'), ('seq', 'Vec < u8 >'), ('qual', 'Vec < u8 >')],
               'RecordSet': [('buffer', 'Vec < u8 >'), ('buf_positions', 'Vec < BufferPosition >')],
               'RecordSetIter': [('buffer', "& 'a [ u8 ]"), ('pos', "slice :: Iter < 'a , BufferPosition >")],
               'RecordsIter': [('rdr', "& 'a mut Reader < R , P >")], 'RecordsIntoIter': [('rdr', 'Reader < R , P >')]},
    }

    def __init__(self, repo):
        rd = lambda f: open(os.path.join(repo, 'src', f)).read()
        self.items = {'fa': Items('fasta.rs', rd('fasta.rs')), 'fq': Items('fastq.rs', rd('fastq.rs')),
                      'lib': Items('lib.rs', rd('lib.rs'))}
        self.table = tables()
        self.by_self = {}
        self.inline = {}
        for c in self.table:
            if c.inline:
                self.inline[(c.self_ty, 'self.buf_pos', c.rust)] = c
                continue
            key = getattr(c, 'key', None) or c.self_ty
            if key is not None and c.owner != '&':
                self.by_self[(key, c.rust)] = c

    def struct_fields(self, fmt, name):
        if name not in self.STRUCTS[fmt]:
            err('%s: struct %s is not known' % (fmt, name))
        return [n for n, _ in self.STRUCTS[fmt][name]]

    def check_sig(self, c, sig):
        if sig != c.sig:
            err('%s %s: the signature has changed: %r' % (c.fmt, c.rust, sig))

    def check_writegen(self, fmt, name, ps):
        """a straight-line writer of Gen/WriteGen.v: the free function exists with the expected parameters"""
        fn = self.items[fmt].free_fn(name)
        selfkind, params, ret, generics, where, body = parse_fn(fn, name)
        if selfkind is not None or [(n, t) for n, t, _ in params] != [('writer', 'W')] + [(n, t) for n, t, _ in ps] \
                or ret != IO_RES:
            err('%s %s: the signature has changed' % (fmt, name))

    # the methods that the trait impls define -- nothing else may be overridden (the default methods of `Record` that
    # are translated as such, `size_hint` & co. of the iterators, which the model takes to be the trait defaults)
    IMPLS = {
        'fa': {('Record', 'RefRecord'): ['head', 'seq', 'write', 'write_wrap'],
               ('Record', 'OwnedRecord'): ['head', 'seq', 'write', 'write_wrap'],
               ('Iterator', 'SeqLines'): ['next', 'size_hint'], ('DoubleEndedIterator', 'SeqLines'): ['next_back'],
               ('ExactSizeIterator', 'SeqLines'): ['len'], ('Iterator', 'RecordSetIter'): ['next'],
               ('Iterator', 'RecordsIter'): ['next'], ('Iterator', 'RecordsIntoIter'): ['next']},
        'fq': {('Record', 'RefRecord'): ['head', 'seq', 'qual'], ('Record', 'OwnedRecord'): ['head', 'seq', 'qual'],
               ('Iterator', 'RecordSetIter'): ['next'],
               ('Iterator', 'RecordsIter'): ['next'], ('Iterator', 'RecordsIntoIter'): ['next']},
    }
    TYPES = ['RefRecord', 'OwnedRecord', 'SeqLines', 'RecordSetIter', 'RecordsIter', 'RecordsIntoIter']

    def check_environment(self):
        for key in ('fa', 'fq'):
            it = self.items[key]
            for sname, fields in self.STRUCTS[key].items():
                if it.structs.get(sname) != fields:
                    err('%s: the fields of struct %s are %r' % (it.fname, sname, it.structs.get(sname)))
            seen = {}
            for trait, ty, fns in it.impls:
                if ty in self.TYPES and trait is not None:
                    if (trait, ty) in seen:
                        err('%s: two impls of %s for %s' % (it.fname, trait, ty))
                    seen[(trait, ty)] = [f.name for f in fns]
            for kk, want in self.IMPLS[key].items():
                if seen.get(kk) is None or sorted(seen[kk]) != sorted(want):
                    err('%s: impl %s for %s defines %r, expected %r' % (it.fname, kk[0], kk[1], seen.get(kk), want))
            for kk in seen:
                if kk not in self.IMPLS[key] and kk[0] in ('Record', 'Iterator', 'DoubleEndedIterator', 'ExactSizeIterator', 'iter'):
                    err('%s: unexpected impl %s for %s' % (it.fname, kk[0], kk[1]))
        # lib.rs trim_cr is translated (and proved equal to the model's trim_cr) by translate_core.py
        if 'trim_cr' not in self.items['lib'].fns:
            err('lib.rs: fn trim_cr not found')
        # the IntoIterator impls are for &RecordSet with Item = RefRecord, IntoIter = RecordSetIter
        for key in ('fa', 'fq'):
            it = self.items[key]
            n = 0
            toks = it.toks
            for i, t in enumerate(toks):
                if t.k == 'id' and t.s == 'IntoIterator' and toks[i + 1].s == 'for':
                    hdr = ' '.join(x.s for x in toks[i:i + 5])
                    if hdr != "IntoIterator for & 'a RecordSet":
                        err('%s: impl %s' % (it.fname, hdr))
                    j = i
                    while toks[j].s != '{':
                        j += 1
                    e = match_close(toks, j)
                    txt = ' '.join(x.s for x in toks[j + 1:e])
                    if not txt.startswith("type Item = RefRecord < 'a > ; type IntoIter = RecordSetIter < 'a > ;"):
                        err('%s: associated types of IntoIterator for &RecordSet' % it.fname)
                    n += 1
            if n != 1:
                err('%s: expected one impl IntoIterator for &RecordSet' % it.fname)

    def generate(self):
        """{file name: text}"""
        self.check_environment()
        out = {'ViewsGen.v': [PRELUDE], 'RecordsGen.v': [PRELUDE_RECORDS]}
        names = {'fa': 'fasta.rs', 'fq': 'fastq.rs'}
        for c in self.table:
            if c.inline:
                continue
            fn = find_fn(self.items[c.fmt], c.owner, c.trait, c.rust)
            ex = VExec(self, c)
            where = 'fn %s' % c.rust if c.owner is None else \
                ('trait %s, default method %s' % (c.owner, c.rust) if c.trait == 'trait' else
                 '%s::%s' % ('<&RecordSet as IntoIterator>' if c.owner == '&' else c.owner, c.rust))
            dest = out['RecordsGen.v' if c.monad == 'recnext' else 'ViewsGen.v']
            dest.append('(* %s: %s *)\n' % (names[c.fmt], where) + ex.run(fn))
            if c.coq == 'gen_sl_next':
                dest.append(GLUE_SL_ITEMS)
        return {f: '\n\n'.join(t) + '\n' for f, t in out.items()}


def main():
    if len(sys.argv) != 3:
        print('usage: translate_views.py <repo dir> <out dir>')
        return 2
    repo, outdir = sys.argv[1], sys.argv[2]
    try:
        texts = Translator(repo).generate()
    except TranslateError as e:
        print('TRANSLATE-VIEWS-ERROR %s' % e)
        return 1
    os.makedirs(outdir, exist_ok=True)
    for f, text in texts.items():
        p = os.path.join(outdir, f)
        open(p, 'w').write(text)
        print('translate_views: wrote %s (%d lines)' % (p, text.count('\n')))
    return 0


if __name__ == '__main__':
    sys.exit(main())
