#!/usr/bin/env python3
"""replaces the seeded-changes table in DESIGN.md (between its header line and the marker SEEDED_TABLE_END) by the
output of tools/seeded_table.py"""
import os, subprocess, sys
ROOT = os.path.dirname(os.path.dirname(os.path.abspath(__file__)))
p = os.path.join(ROOT, 'DESIGN.md')
s = open(p).read()
tab = subprocess.run([sys.executable, os.path.join(ROOT, 'tools', 'seeded_table.py')], stdout=subprocess.PIPE).stdout.decode()
i = s.index('| id | property | change | verdict of the check(s) |')
j = s.index('<!-- SEEDED_TABLE_END -->')
s = s[:i] + tab.rstrip('\n') + '\n\n' + s[j:]
open(p, 'w').write(s)
print('rows:', tab.count('\n') - 2)
