# usage: VIEWS_SRC=<dir with the HEAD sources> VIEWS_SCRATCH=<scratch dir> bash all_mut.sh
# every line must print REFUSED or PROOF-FAILS
R="python3 $(dirname "$0")/run_mut.py"
$R M01_full_seq_le fasta.rs 'if self.num_seq_lines() == 1 {' 'if self.num_seq_lines() <= 1 {'
$R M02_next_back_no_trim fasta.rs '#2:.map(|(start, next_start)| trim_cr(&self.data[*start + 1..*next_start]))' '.map(|(start, next_start)| &self.data[*start + 1..*next_start])'
$R M03_num_lines_off1 fasta.rs '        self.seq_lines().len()
' '        self.seq_lines().len() + 1
'
$R M04_desc_any_ws fasta.rs "self.head().splitn(2, |b| *b == b' ').nth(1)" "self.head().splitn(2, |b| b.is_ascii_whitespace()).nth(1)"
$R M05_wrap_iter_lt fasta.rs 'if chunk.len() <= remaining {' 'if chunk.len() < remaining {'
$R M06_len_other fasta.rs '        self.pos_iter.len()' '        self.data.len()'
$R M07_head_incl_gt fasta.rs 'trim_cr(&self.buffer[self.buf_pos.start + 1..*self.buf_pos.seq_pos.first().unwrap()])' 'trim_cr(&self.buffer[self.buf_pos.start..*self.buf_pos.seq_pos.first().unwrap()])'
$R M08_seq_gt0 fasta.rs 'if self.buf_pos.seq_pos.len() > 1 {' 'if self.buf_pos.seq_pos.len() > 0 {'
$R M09_fa_unchanged_eq fasta.rs "if *data.last().unwrap() != b'\\n' {" "if *data.last().unwrap() == b'\\n' {"
$R M10_fq_head_off1 fastq.rs 'trim_cr(&buffer[self.pos.0 + 1..self.seq - 1])' 'trim_cr(&buffer[self.pos.0 + 1..self.seq])'
$R M11_fq_unchanged_nolf fastq.rs '        writer.write_all(data)?;
        writer.write_all(b"\n")
    }' '        writer.write_all(data)?;
        Ok(())
    }'
$R M12_set_take_plus1 fasta.rs 'pos: self.positions.iter().take(self.npos),' 'pos: self.positions.iter().take(self.npos + 1),'
$R M13_wrap_seq_no_lf fasta.rs '        writer.write_all(chunk)?;
        writer.write_all(b"\n")?;
    }
    Ok(())' '        writer.write_all(chunk)?;
    }
    Ok(())'
$R M14_skip2 fasta.rs '.zip(self.buf_pos.seq_pos.iter().skip(1)),' '.zip(self.buf_pos.seq_pos.iter().skip(2)),'
$R M15_splitn3 fastq.rs "let mut h = self.head().splitn(2, |c| *c == b' ');" "let mut h = self.head().splitn(3, |c| *c == b' ');"
$R M16_next_start fasta.rs '#1:.map(|(start, next_start)| trim_cr(&self.data[*start + 1..*next_start]))' '.map(|(start, next_start)| trim_cr(&self.data[*start..*next_start]))'
$R M17_owned_rev fasta.rs 'for segment in self.seq_lines() {' 'for segment in self.seq_lines().rev() {'
$R M18_fq_set_len fastq.rs '        self.buf_positions.len()' '        self.buffer.len()'
$R M19_size_hint_0 fasta.rs '        (l, Some(l))' '        (0, Some(l))'
$R M20_seq_iter_no_lf fasta.rs '        writer.write_all(subseq)?;
    }
    writer.write_all(b"\n")
}' '        writer.write_all(subseq)?;
    }
    Ok(())
}'
$R M21_wrap_nline fasta.rs '                n_line += chunk.len();' '                n_line = chunk.len();'
$R M22_fq_qual_bound fastq.rs 'trim_cr(&buffer[self.qual..self.pos.1])' 'trim_cr(&buffer[self.qual..self.pos.1 - 1])'
$R M23_to_owned_swap fastq.rs '            seq: self.seq().to_vec(),
            qual: self.qual().to_vec(),' '            seq: self.qual().to_vec(),
            qual: self.seq().to_vec(),'
$R M24_id_utf8_head fasta.rs '        str::from_utf8(self.id_bytes())' '        str::from_utf8(self.head())'
$R M25_records_drop_err fasta.rs '#1:        self.rdr.next().map(|rec| rec.map(|r| r.to_owned_record()))' '        self.rdr.next().and_then(|rec| rec.ok()).map(|r| Ok(r.to_owned_record()))'
$R M26_write_head_as_seq fasta.rs '#1:        write_head(&mut writer, self.head())?;' '        write_seq(&mut writer, self.head())?;'
$R M27_ownedrec_wrap_head fasta.rs '        write_wrap_seq(&mut writer, &self.seq, wrap)
    }' '        write_wrap_seq(&mut writer, &self.head, wrap)
    }'
$R M28_fq_write_order fastq.rs 'write_to(writer, self.head(), self.seq(), self.qual())' 'write_to(writer, self.head(), self.qual(), self.seq())'
$R M29_fq_records_seq fastq.rs '#2:        self.rdr.next().map(|rec| rec.map(|r| r.to_owned_record()))' '        self.rdr.next().map(|rec| rec.map(|r| r.to_owned_record())).filter(|x| x.is_ok())'
$R M30_fq_set_iter_swap fastq.rs '            pos: self.buf_positions.iter(),' '            pos: self.buf_positions.iter().rev(),'
$R M31_records_skip fasta.rs '#1:        self.rdr.next().map(|rec| rec.map(|r| r.to_owned_record()))' '        self.rdr.next();
        self.rdr.next().map(|rec| rec.map(|r| r.to_owned_record()))'
$R M32_setiter_size_hint fasta.rs '        self.pos.next().map(|p| RefRecord {
            buffer: self.buffer,
            buf_pos: p,
        })
    }
}' '        self.pos.next().map(|p| RefRecord {
            buffer: self.buffer,
            buf_pos: p,
        })
    }

    fn size_hint(&self) -> (usize, Option<usize>) {
        (1, None)
    }
}'
$R M33_override_id_bytes fastq.rs '    fn qual(&self) -> &[u8] {
        self.buf_pos.qual(self.buffer)
    }
}' '    fn qual(&self) -> &[u8] {
        self.buf_pos.qual(self.buffer)
    }

    fn id_bytes(&self) -> &[u8] {
        self.head()
    }
}'
