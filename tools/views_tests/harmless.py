import os, re, shutil, subprocess, sys
VERIF = os.path.dirname(os.path.dirname(os.path.dirname(os.path.abspath(__file__))))
HEAD = os.environ.get('VIEWS_SRC', '/repo/src')            # the sources to mutate (a directory with fasta.rs, fastq.rs, lib.rs)
SCRATCH = os.environ.get('VIEWS_SCRATCH', '/tmp/views_mut')  # scratch directory (never the repository)
def run(name, edits):
    d=os.path.join(SCRATCH, name)
    shutil.rmtree(d, ignore_errors=True); os.makedirs(d+'/src')
    for f in os.listdir(HEAD): shutil.copy(HEAD+'/'+f, d+'/src/'+f)
    for fname, old, new in edits:
        s=open(d+'/src/'+fname).read()
        assert s.count(old)==1, (name, old, s.count(old))
        open(d+'/src/'+fname,'w').write(s.replace(old,new))
    core=d+'/core'; os.makedirs(core)
    r=subprocess.run([sys.executable, VERIF+'/tools/translate_views.py', d, core], capture_output=True, text=True)
    if r.returncode: print(name, 'REFUSED', r.stdout.strip()[:200]); return
    same=all(open(core+'/'+f).read()==open(VERIF+'/coq/core/'+f).read() for f in ('ViewsGen.v','RecordsGen.v'))
    if same: print(name, 'IDENTICAL ViewsGen.v and RecordsGen.v'); return
    for f in os.listdir(VERIF+'/coq/core'):
        if f.startswith('CoreGen') or f in ('ViewsGenP.v','RecordsGenP.v'):
            subprocess.run(['cp','-p',VERIF+'/coq/core/'+f,core])
    open(core+'/_CoqProject','w').write('-Q %s/coq/theories SeqIO\n-Q . SeqIOCore\n-arg -w -arg -notation-overridden,-deprecated-hint-without-locality\nCoreGen.v\nCoreGenP.v\nViewsGen.v\nViewsGenP.v\nRecordsGen.v\nRecordsGenP.v\n' % VERIF)
    subprocess.run(['coq_makefile','-f','_CoqProject','-o','Makefile'],cwd=core,capture_output=True)
    r=subprocess.run(['make'],cwd=core,capture_output=True,text=True)
    print(name, 'DIFFERENT ViewsGen.v;', 'proofs pass' if r.returncode==0 else 'PROOFS FAIL: '+(re.search(r'File "\./(\w+\.v)", line (\d+)', r.stdout+r.stderr) or [''])[0])

run('H1_comments_ws', [
 ('fasta.rs', "        trim_cr(&self.buffer[self.buf_pos.start + 1..*self.buf_pos.seq_pos.first().unwrap()])",
              "        // the header line without '>'\n        trim_cr(\n            &self.buffer[self.buf_pos.start + 1 /* skip '>' */ ..\n                *self.buf_pos.seq_pos.first().unwrap()]\n        )"),
 ('fasta.rs', "            let remaining = wrap - n_line;", "            /* space left\n               on the line */\n            let remaining =   wrap   -   n_line ;"),
 ('fastq.rs', "        let data = &self.buffer[self.buf_pos.pos.0..self.buf_pos.pos.1];", "        // raw bytes\n\n        let data = &self.buffer[ self.buf_pos.pos.0 .. self.buf_pos.pos.1 ];"),
])
run('H2_renamed_locals', [
 ('fasta.rs', "        let data = &self.buffer[self.buf_pos.start..*self.buf_pos.seq_pos.last().unwrap()];\n        writer.write_all(data)?;\n        if *data.last().unwrap() != b'\\n' {",
              "        let raw = &self.buffer[self.buf_pos.start..*self.buf_pos.seq_pos.last().unwrap()];\n        writer.write_all(raw)?;\n        if *raw.last().unwrap() != b'\\n' {"),
 ('fasta.rs', "        let mut seq = Vec::new();\n        for segment in self.seq_lines() {\n            seq.extend(segment);\n        }\n        seq",
              "        let mut out = Vec::new();\n        for line in self.seq_lines() {\n            out.extend(line);\n        }\n        out"),
 ('fasta.rs', "        let l = self.len();\n        (l, Some(l))", "        let count = self.len();\n        (count, Some(count))"),
 ('fasta.rs', "    let mut n_line = 0;\n    for subseq in seq {\n        let mut chunk = subseq;\n        loop {\n            let remaining = wrap - n_line;\n            if chunk.len() <= remaining {\n                writer.write_all(chunk)?;\n                n_line += chunk.len();\n                break;\n            }\n            // chunk longer than line -> break\n            let (line, rest) = chunk.split_at(remaining);\n            chunk = rest;\n            writer.write_all(line)?;\n            writer.write_all(b\"\\n\")?;\n            n_line = 0;",
              "    let mut col = 0;\n    for piece in seq {\n        let mut c = piece;\n        loop {\n            let left = wrap - col;\n            if c.len() <= left {\n                writer.write_all(c)?;\n                col += c.len();\n                break;\n            }\n            let (x, y) = c.split_at(left);\n            c = y;\n            writer.write_all(x)?;\n            writer.write_all(b\"\\n\")?;\n            col = 0;"),
 ('fastq.rs', "        let mut h = self.head().splitn(2, |c| *c == b' ');\n        (h.next().unwrap(), h.next())", "        let mut parts = self.head().splitn(2, |byte| *byte == b' ');\n        (parts.next().unwrap(), parts.next())"),
])
# H3: reordered items: size_hint before next in `impl Iterator for SeqLines`; struct literal fields of OwnedRecord and SeqLines in another order... (SeqLines only: evaluation order of OwnedRecord fields would change the code)
s=open(HEAD+'/fasta.rs').read()
a=s.index("    #[inline]\n    fn next(&mut self) -> Option<&'a [u8]> {\n        self.pos_iter\n            .next()")
b=s.index("    #[inline]\n    fn size_hint(&self)")
c=s.index("}\n\nimpl<'a> DoubleEndedIterator for SeqLines")
nxt=s[a:b]; sh=s[b:c]
run('H3_reordered_items', [
 ('fasta.rs', nxt+sh, sh.rstrip('\n')+'\n\n'+nxt.rstrip('\n')+'\n'),
 ('fasta.rs', "            data: self.buffer,\n            pos_iter: self\n                .buf_pos\n                .seq_pos\n                .iter()\n                .zip(self.buf_pos.seq_pos.iter().skip(1)),",
              "            pos_iter: self\n                .buf_pos\n                .seq_pos\n                .iter()\n                .zip(self.buf_pos.seq_pos.iter().skip(1)),\n            data: self.buffer,"),
])
run('H4_negated_if', [
 ('fasta.rs', "        if self.num_seq_lines() == 1 {\n            // only one line\n            self.seq().into()\n        } else {\n            self.owned_seq().into()\n        }",
              "        if self.num_seq_lines() != 1 {\n            self.owned_seq().into()\n        } else {\n            self.seq().into()\n        }"),
])
