#!/usr/bin/env python3
"""run_mut.py <name> <file> <old> <new>  : copy the HEAD sources, apply ONE textual edit (must match exactly once,
or the n-th occurrence with old prefixed by '#n:'), run translate_views.py and build ViewsGen.v + ViewsGenP.v in a scratch directory."""
import os, re, shutil, subprocess, sys
VERIF = os.path.dirname(os.path.dirname(os.path.dirname(os.path.abspath(__file__))))
HEAD = os.environ.get('VIEWS_SRC', '/repo/src')            # the sources to mutate (a directory with fasta.rs, fastq.rs, lib.rs)
SCRATCH = os.environ.get('VIEWS_SCRATCH', '/tmp/views_mut')  # scratch directory (never the repository)
def main():
    name, fname, old, new = sys.argv[1:5]
    d = os.path.join(SCRATCH, name)
    shutil.rmtree(d, ignore_errors=True)
    os.makedirs(os.path.join(d, 'src'))
    for f in os.listdir(HEAD):
        shutil.copy(os.path.join(HEAD, f), os.path.join(d, 'src', f))
    p = os.path.join(d, 'src', fname)
    s = open(p).read()
    nth = None
    m = re.match(r'^#(\d+):', old)
    if m:
        nth = int(m.group(1)); old = old[m.end():]
    cnt = s.count(old)
    if nth is None:
        if cnt != 1:
            print('EDIT-ERROR: %d occurrences of %r' % (cnt, old)); return 2
        s = s.replace(old, new)
    else:
        idx = -1
        for _ in range(nth):
            idx = s.find(old, idx + 1)
            if idx < 0:
                print('EDIT-ERROR: fewer than %d occurrences' % nth); return 2
        s = s[:idx] + new + s[idx + len(old):]
    open(p, 'w').write(s)
    core = os.path.join(d, 'core')
    os.makedirs(core)
    r = subprocess.run([sys.executable, os.path.join(VERIF, 'tools/translate_views.py'), d, core], capture_output=True, text=True)
    out = r.stdout.strip()
    if r.returncode != 0:
        print('%-28s REFUSED   %s' % (name, out[:230])); return 0
    same = all(open(os.path.join(core, f)).read() == open(os.path.join(VERIF, 'coq/core', f)).read() for f in ('ViewsGen.v', 'RecordsGen.v'))
    src = os.path.join(VERIF, 'coq/core')
    for f in os.listdir(src):
        if f.startswith('CoreGen') or f in ('ViewsGenP.v', 'RecordsGenP.v'):
            subprocess.run(['cp', '-p', os.path.join(src, f), core])
    open(os.path.join(core, '_CoqProject'), 'w').write('-Q %s/coq/theories SeqIO\n-Q . SeqIOCore\n-arg -w -arg -notation-overridden,-deprecated-hint-without-locality\nCoreGen.v\nCoreGenP.v\nViewsGen.v\nViewsGenP.v\nRecordsGen.v\nRecordsGenP.v\n' % VERIF)
    subprocess.run(['coq_makefile', '-f', '_CoqProject', '-o', 'Makefile'], cwd=core, capture_output=True)
    r = subprocess.run(['make'], cwd=core, capture_output=True, text=True, timeout=1200)
    out = r.stdout + r.stderr
    if r.returncode == 0:
        print('%-28s %s  build OK%s' % (name, 'IDENTICAL' if same else 'DIFFERENT', '' if 'Axioms:' not in out else ' (AXIOMS!)')); return 0
    m = re.search(r'File "\./(\w+\.v)", line (\d+)', out)
    lemma = '?'
    if m:
        ln = int(m.group(2))
        for i, l in enumerate(open(os.path.join(core, m.group(1))), 1):
            mm = re.match(r'^\s*(?:Lemma|Theorem|Example|Definition|Fixpoint)\s+(\w+)', l)
            if mm and i <= ln:
                lemma = mm.group(1)
    err = [l for l in out.split('\n') if l.startswith('Error')]
    print('%-28s PROOF-FAILS  %s line %s: %s   [%s]' % (name, m.group(1) if m else '?', m.group(2) if m else '?', lemma, (err[0] if err else '')[:90]))
    return 0
sys.exit(main())
