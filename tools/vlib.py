"""Shared infrastructure of the seq_io verification checks: builds (translator,
Coq, OCaml driver, Rust harness), case running, trace parsing, evidence."""
import fcntl
import hashlib
import json
import os
import re
import subprocess
import sys
import time

ROOT = os.path.dirname(os.path.dirname(os.path.abspath(__file__)))
COQ = os.path.join(ROOT, 'coq')
OCAML = os.path.join(ROOT, 'ocaml')
HARNESS = os.path.join(ROOT, 'harness')
WORK = os.path.join(ROOT, 'work')
REPO = os.environ.get('VERIF_REPO', '/repo')
NPROC = 16

ENV = dict(os.environ)
ENV['CARGO_NET_OFFLINE'] = 'true'

FORBIDDEN = re.compile(
    r'\b(Admitted|admit|Axiom|Axioms|Parameter|Parameters|Conjecture|Conjectures|give_up|'
    r'bypass_check|Admit\s+Obligations)\b|Unset\s+Guard\s+Checking|Unset\s+Positivity\s+Checking|'
    r'Unset\s+Universe\s+Checking|-type-in-type|-impredicative-set')

TRUSTED_BASE = [
    'Coq 8.16.1 kernel (coqc); vm_compute used in witness/finite-sweep lemmas; native_compute not used',
    'axioms: none declared; Print Assumptions of every property theorem checked against tools/allowlist.txt',
    'extraction to OCaml with ExtrOcamlBasic only (its Extract Inductive for bool, option, unit, list, prod, sumbool, sumor; no Extract Constant); ocaml/driver.ml (byte<->nat conversion, I/O)',
    'tools/translate.py (regenerates Gen/*.v from /repo/src on every run); tools/translate_core.py with its primitive table (regenerates coq/core/CoreGen.v: every reader method, proved equal to the model in coq/core/CoreGenP.v)',
    'harness/ (Rust): scripted Read+Seek source, recording policies, catch_unwind, canonical printers',
    'modelled, not verified: buffer_redux::BufReader window semantics, memchr, slice::split/chunks, Zip/Skip double-ended semantics, str::from_utf8, char::escape_default, serde_derive, std mpsc sync_channel, scoped_threadpool, crossbeam scoped threads (DESIGN.md section 8)',
]


class Lock:
    def __init__(self, name):
        os.makedirs(WORK, exist_ok=True)
        self.path = os.path.join(WORK, '.' + name + '.lock')

    def __enter__(self):
        self.f = open(self.path, 'w')
        fcntl.flock(self.f, fcntl.LOCK_EX)
        return self

    def __exit__(self, *a):
        fcntl.flock(self.f, fcntl.LOCK_UN)
        self.f.close()


def run(cmd, cwd=None, timeout=1800, env=None):
    try:
        p = subprocess.run(cmd, cwd=cwd, stdout=subprocess.PIPE, stderr=subprocess.STDOUT,
                           timeout=timeout, env=env or ENV)
        return p.returncode, p.stdout.decode('utf-8', 'replace')
    except subprocess.TimeoutExpired as e:
        return 124, (e.stdout or b'').decode('utf-8', 'replace') + '\nTIMEOUT'


# ---------------------------------------------------------------------------
# builds

def translate():
    """regenerate Gen/*.v from the repository; returns list of error strings"""
    with Lock('coq'):
        rc, out = run([sys.executable, os.path.join(ROOT, 'tools', 'translate.py'), REPO,
                       os.path.join(COQ, 'theories', 'Gen')])
    errs = [l for l in out.split('\n') if l.startswith('TRANSLATE-ERROR')]
    if rc != 0 and not errs:
        errs = ['TRANSLATE-ERROR translator crashed: ' + out[-400:]]
    return errs


def gen_files_of(prop):
    """the Gen/*.v files the Props files of a property depend on (transitively), read from coqdep's output"""
    dep = os.path.join(COQ, '.Makefile.d')
    if not os.path.exists(dep):
        return None
    graph = {}
    for line in open(dep).read().replace('\\\n', ' ').split('\n'):
        if ':' not in line:
            continue
        lhs, rhs = line.split(':', 1)
        deps = [d for d in rhs.split() if d.endswith('.vo')]
        for t in lhs.split():
            if t.endswith('.vo'):
                graph.setdefault(t, set()).update(deps)
    seen, todo = set(), ['theories/Props/%s.vo' % f for f in prop_files(prop)] + ['theories/Extract/Extract.vo']
    while todo:
        t = todo.pop()
        if t in seen:
            continue
        seen.add(t)
        todo.extend(graph.get(t, ()))
    return sorted(os.path.basename(t)[:-1] for t in seen if t.startswith('theories/Gen/'))


def coq_make(targets, timeout=2400):
    """full .vo build of the given targets; returns (ok, log)"""
    with Lock('coq'):
        mk = os.path.join(COQ, 'Makefile')
        cp = os.path.join(COQ, '_CoqProject')
        if not os.path.exists(mk) or os.path.getmtime(mk) < os.path.getmtime(cp):
            rc, out = run(['coq_makefile', '-f', '_CoqProject', '-o', 'Makefile'], cwd=COQ)
            if rc != 0:
                return False, out
        rc, out = run(['make', '-j%d' % NPROC] + targets, cwd=COQ, timeout=timeout)
        return rc == 0, out


def ocaml_build():
    with Lock('ocaml'):
        ml = os.path.join(OCAML, 'model.ml')
        exe = os.path.join(OCAML, 'model_driver')
        drv = os.path.join(OCAML, 'driver.ml')
        if not os.path.exists(ml):
            return False, 'model.ml missing (extraction did not run)'
        if os.path.exists(exe) and os.path.getmtime(exe) >= max(os.path.getmtime(ml), os.path.getmtime(drv)):
            return True, 'up to date'
        rc, out = run(['ocamlfind', 'ocamlopt', '-O2', '-w', '-a', 'model.mli', 'model.ml', 'driver.ml',
                       '-o', 'model_driver'], cwd=OCAML, timeout=600)
        return rc == 0, out


def point_repo_link(manifest_dir):
    """<crate>/repo is a symlink to the repository under test (default /repo; $VERIF_REPO re-points it, e.g. to a
    snapshot for background runs); the crate's Cargo.toml depends on `seq_io = { path = "repo" }`"""
    link = os.path.join(manifest_dir, 'repo')
    want = os.path.realpath(REPO)
    try:
        if os.path.lexists(link) and os.path.realpath(link) == want:
            return
        if os.path.lexists(link):
            os.remove(link)
        os.symlink(REPO, link)
    except OSError:
        pass


def cargo_build(manifest_dir=HARNESS, extra=None, timeout=1800):
    with Lock('cargo'):
        point_repo_link(manifest_dir)
        cmd = ['cargo', 'build', '--offline', '--quiet'] + (extra or [])
        rc, out = run(cmd, cwd=manifest_dir, timeout=timeout)
        return rc == 0, out


def forbidden_tokens():
    """scan the development for forbidden declarations; returns list of 'file:line: text'"""
    bad = []
    base = os.path.join(COQ, 'theories')
    for d, _, fs in list(os.walk(base)) + list(os.walk(os.path.join(COQ, 'core'))):
        for f in fs:
            if not f.endswith('.v'):
                continue
            p = os.path.join(d, f)
            depth = 0
            in_comment = 0
            for n, line in enumerate(open(p), 1):
                # strip comments (nesting-aware, line-wise approximation)
                txt = ''
                i = 0
                while i < len(line):
                    if line.startswith('(*', i):
                        in_comment += 1
                        i += 2
                    elif line.startswith('*)', i) and in_comment:
                        in_comment -= 1
                        i += 2
                    else:
                        if not in_comment:
                            txt += line[i]
                        i += 1
                if FORBIDDEN.search(txt):
                    bad.append('%s:%d: %s' % (os.path.relpath(p, ROOT), n, txt.strip()))
                if re.match(r'\s*Section\b', txt):
                    depth += 1
                if re.match(r'\s*End\b', txt) and depth > 0:
                    depth -= 1
                if depth == 0 and re.match(r'\s*(Variable|Variables|Hypothesis|Hypotheses|Context)\b', txt):
                    bad.append('%s:%d: %s (outside a section)' % (os.path.relpath(p, ROOT), n, txt.strip()))
    return bad


def prop_files(prop):
    """Props/<id>.v plus Props/<id><lowercase suffix>.v (e.g. C12.v, C12q.v)"""
    d = os.path.join(COQ, 'theories', 'Props')
    if not os.path.isdir(d):
        return []
    return sorted(f[:-2] for f in os.listdir(d) if re.match(r'^%s[a-z]*\.v$' % prop, f))


def theorem_names(prop):
    names = []
    for f in prop_files(prop):
        p = os.path.join(COQ, 'theories', 'Props', f + '.v')
        names += re.findall(r'^\s*Theorem\s+(\w+)', open(p).read(), re.M)
    return names


def allowlist():
    p = os.path.join(ROOT, 'tools', 'allowlist.txt')
    return [l.strip() for l in open(p) if l.strip() and not l.startswith('#')] if os.path.exists(p) else []


def print_assumptions(prop, names):
    """returns dict name -> list of axiom names ([] = closed under the global context)"""
    d = os.path.join(WORK, prop)
    os.makedirs(d, exist_ok=True)
    vf = os.path.join(d, 'assume_%s.v' % prop)
    with open(vf, 'w') as f:
        for pf in prop_files(prop):
            f.write('From SeqIO Require Import Props.%s.\n' % pf)
        for n in names:
            f.write('Goal True. idtac "@@%s". Abort.\nPrint Assumptions %s.\n' % (n, n))
    rc, out = run(['coqc', '-Q', os.path.join(COQ, 'theories'), 'SeqIO', vf], cwd=d, timeout=600)
    res = {}
    if rc != 0:
        return None, out
    cur = None
    for line in out.split('\n'):
        m = re.match(r'^@@(\w+)', line)
        if m:
            cur = m.group(1)
            res[cur] = []
            continue
        if cur is None:
            continue
        if line.startswith('Closed under the global context') or line.startswith('Axioms:') or not line.strip():
            continue
        m = re.match(r'^(\S+)\s*:', line)
        if m and not line.startswith(' '):
            res[cur].append(m.group(1))
    return res, out


CORE = os.path.join(COQ, 'core')


def core_tie(timeout=1200, kind='reader'):
    """The SECOND tie between model and code, by translators that regenerate Gallina definitions from the repository,
    each proved equal to the hand-written model function in coq/core/*GenP.v:
      kind='reader': tools/translate_core.py (lib.rs fill_buf/trim_cr, every method of both `impl Reader`) and
                     tools/translate_views.py (record views, SeqLines, owned copies, writer loops, set / owned iterators);
      kind='par':    tools/translate_par.py (the worker and consumer closures of the per-record functions of parallel.rs,
                     the generic parallel_records, ParallelRecordsets::next) against Model/Par.v.
    Returns {'status': 'equal' | 'differs' | 'untranslatable' | 'unavailable', 'detail': ..}.  (The first tie is the
    differential correspondence run.)"""
    plan = {'reader': [('translate_core.py', 'TRANSLATE-CORE-ERROR', ['CoreGen.v']),
                       ('translate_views.py', 'TRANSLATE-VIEWS-ERROR', ['ViewsGen.v', 'RecordsGen.v'])],
            'par': [('translate_par.py', 'TRANSLATE-PAR-ERROR', ['ParGen.v'])]}[kind]
    proofs = {'reader': ['CoreGenP.v', 'ViewsGenP.v', 'RecordsGenP.v'], 'par': ['ParGenP.v']}[kind]
    if not os.path.exists(os.path.join(ROOT, 'tools', plan[0][0])) or not os.path.isdir(CORE):
        return {'status': 'unavailable', 'detail': 'no translator of this kind in this tree'}
    with Lock('coq'):
        tmp = os.path.join(WORK, 'coregen')
        os.makedirs(tmp, exist_ok=True)
        for script, marker, outs in plan:
            sp = os.path.join(ROOT, 'tools', script)
            if not os.path.exists(sp):
                continue
            for fn in outs:
                if os.path.exists(os.path.join(tmp, fn)):
                    os.unlink(os.path.join(tmp, fn))
            rc, out = run([sys.executable, sp, REPO, tmp], timeout=300)
            errs = [l for l in out.split('\n') if marker in l]
            if rc != 0 or errs or not os.path.exists(os.path.join(tmp, outs[0])):
                return {'status': 'untranslatable', 'detail': (errs[0] if errs else out[-300:])[:400]}
            for fn in outs:
                g = os.path.join(tmp, fn)
                if os.path.exists(g):
                    c = os.path.join(CORE, fn)
                    if not os.path.exists(c) or open(c).read() != open(g).read():
                        open(c, 'w').write(open(g).read())
        mk = os.path.join(CORE, 'Makefile')
        cp = os.path.join(CORE, '_CoqProject')
        if not os.path.exists(mk) or os.path.getmtime(mk) < os.path.getmtime(cp):
            run(['coq_makefile', '-f', '_CoqProject', '-o', 'Makefile'], cwd=CORE)
        targets = [f[:-2] + '.vo' for f in proofs if os.path.exists(os.path.join(CORE, f))]
        rc, out = run(['make'] + targets, cwd=CORE, timeout=timeout)
        if rc != 0 and 'inconsistent assumptions' in out:
            # the main project was rebuilt underneath: compile the sub-project from scratch
            run(['make', 'clean'], cwd=CORE)
            rc, out = run(['make'] + targets, cwd=CORE, timeout=timeout)
        if rc != 0:
            m = re.search(r'File "\./(\w+GenP)\.v", line (\d+)', out)
            lemma = ''
            if m:
                ln = int(m.group(2))
                for i, l in enumerate(open(os.path.join(CORE, m.group(1) + '.v')), 1):
                    mm = re.match(r'^\s*(?:Lemma|Theorem|Example)\s+(\w+)', l)
                    if mm and i <= ln:
                        lemma = mm.group(1)
            return {'status': 'differs', 'detail': ('equality %s no longer checks: ' % lemma if lemma else '') + out[-300:].replace('\n', ' ')[:300]}
        if 'Axioms:' in out or 'Admitted' in out:
            return {'status': 'differs', 'detail': 'an equality lemma of coq/core depends on an axiom: ' + out[-200:]}
        nlem = sum(len(re.findall(r'^\s*(?:Lemma|Theorem)\s+\w+', open(os.path.join(CORE, f)).read(), re.M))
                   for f in proofs if os.path.exists(os.path.join(CORE, f)))
        return {'status': 'equal', 'detail': '%d lemmas relating definitions generated from the source to the model (coq/core: %s)' % (nlem, ' '.join(proofs))}


def coqchk(prop, timeout=3000):
    """independent re-check of the compiled property files and everything they depend on
    (coqchk); returns (ok, axioms-line, log-tail)"""
    mods = ['SeqIO.Props.' + f for f in prop_files(prop)]
    if not mods:
        return False, '', 'no Props file'
    with Lock('coq'):
        rc, out = run(['coqchk', '-o', '-silent', '-Q', 'theories', 'SeqIO'] + mods, cwd=COQ, timeout=timeout)
    m = re.search(r'\* Axioms:\s*(.*?)(?:\n\* |\Z)', out, re.S)
    ax = ' '.join((m.group(1) if m else '').split())
    return rc == 0, ax, out[-600:]


# ---------------------------------------------------------------------------
# running cases

def shard(cases, n):
    k = max(1, min(n, (len(cases) + 199) // 200))
    size = (len(cases) + k - 1) // k
    return [cases[i:i + size] for i in range(0, len(cases), size)]


def parse_blocks(text):
    """'#case i' separated blocks -> list of list of lines"""
    blocks = []
    cur = None
    for line in text.split('\n'):
        if line.startswith('#case '):
            cur = []
            blocks.append(cur)
        elif cur is not None and line != '':
            cur.append(line)
    return blocks


def run_rh(path, exe, ncases):
    """run the Rust harness on a case file; a hang ends the process: the hanging
    case is marked and the remaining cases are run again"""
    results = []
    lines = [l for l in open(path).read().split('\n') if l and not l.startswith('#')]
    start = 0
    guard = 0
    while start < len(lines) and guard < 12:     # every hang costs the 10 s watchdog; after a dozen the rest of the shard is skipped
        guard += 1
        sub = path + '.part%d' % start
        open(sub, 'w').write('\n'.join(lines[start:]) + '\n')
        try:
            p = subprocess.run([exe, sub], stdout=subprocess.PIPE, stderr=subprocess.PIPE, env=ENV, timeout=1800)
        except subprocess.TimeoutExpired as e:
            # the harness's own watchdog did not fire (should not happen): treated like a crash of the harness
            p = subprocess.CompletedProcess(e.cmd, -9, e.stdout or b'', e.stderr or b'')
        os.unlink(sub)
        blocks = parse_blocks(p.stdout.decode('utf-8', 'replace'))
        if p.returncode == 0:
            results.extend(blocks)
            start = len(lines)
        else:
            err = p.stderr.decode('utf-8', 'replace')
            m = re.search(r'#hang (\d+)', err)
            if m:
                h = int(m.group(1))
                results.extend(blocks[:h])
                results.append((blocks[h] if h < len(blocks) else []) + ['? hang'])
                start = start + h + 1
            else:
                # crash of the harness itself (abort, stack overflow, ...): mark the case
                h = max(0, len(blocks) - 1)
                results.extend(blocks[:h])
                results.append((blocks[h] if h < len(blocks) else []) + ['? crash rc=%d' % p.returncode])
                start = start + h + 1
    while len(results) < ncases:
        results.append(None if guard >= 12 else ['? missing'])      # None: not run (dropped by run_cases)
    return results


def run_cases(cases, tag, model=True, impl=True, rh_exe=None):
    """returns list of dicts {case, spec, model, impl}"""
    d = os.path.join(WORK, tag)
    os.makedirs(d, exist_ok=True)
    rh_exe = rh_exe or os.path.join(HARNESS, 'target', 'debug', 'rh')
    drv = os.path.join(OCAML, 'model_driver')
    if not cases:
        return []
    shards = shard(cases, NPROC)
    procs = []
    for i, sh in enumerate(shards):
        p = os.path.join(d, 'shard%d.cases' % i)
        open(p, 'w').write('\n'.join(sh) + '\n')
        mp = subprocess.Popen([drv, p], stdout=subprocess.PIPE, stderr=subprocess.PIPE) if model else None
        procs.append((p, sh, mp))
    out = []
    from concurrent.futures import ThreadPoolExecutor
    with ThreadPoolExecutor(max_workers=NPROC) as ex:
        futs = [ex.submit(run_rh, p, rh_exe, len(sh)) if impl else None for p, sh, _ in procs]
        for (p, sh, mp), fut in zip(procs, futs):
            mblocks = [[] for _ in sh]
            if mp is not None:
                so, se = mp.communicate()
                mblocks = parse_blocks(so.decode('utf-8', 'replace'))
                while len(mblocks) < len(sh):
                    mblocks.append(['? model-missing'])
            iblocks = fut.result() if fut is not None else [[] for _ in sh]
            for c, mb, ib in zip(sh, mblocks, iblocks):
                if ib is None:
                    continue
                out.append({'case': c,
                            'spec': [l[5:] for l in mb if l.startswith('spec ')],
                            'model': [l for l in mb if not l.startswith('spec ')],
                            'impl': ib})
            try:
                os.unlink(p)
            except OSError:
                pass
    return out


LINE_RE = re.compile(r'^(\S+) (.*) @(\S+) ev=(\S*)$')


def parse_line(line):
    """trace line -> dict(op, out, pos, ev, kind)"""
    m = LINE_RE.match(line)
    if not m:
        parts = line.split(' ', 1)
        return {'op': parts[0], 'out': parts[1] if len(parts) > 1 else '', 'pos': None, 'ev': [],
                'kind': (parts[1].split(' ')[0] if len(parts) > 1 else '?')}
    out = m.group(2)
    return {'op': m.group(1), 'out': out, 'pos': m.group(3), 'ev': [e for e in m.group(4).split(',') if e],
            'kind': out.split(' ')[0]}


def rec_fields(s):
    """'rec h=.. l=..' -> dict"""
    d = {}
    for tok in s.split(' ')[1:]:
        if '=' in tok:
            k, v = tok.split('=', 1)
            d[k] = v
    return d


def set_records(out):
    """'set n [rec ..|rec ..]' -> list of rec strings"""
    m = re.match(r'^set (\d+) \[(.*)\]$', out)
    if not m:
        return None
    return [r for r in m.group(2).split('|') if r] if m.group(2) else []


def case_hash(c):
    return hashlib.sha1(c.encode()).hexdigest()[:16]


# ---------------------------------------------------------------------------
# deterministic PRNG (SplitMix64)

class Rng:
    def __init__(self, seed):
        self.s = seed & 0xFFFFFFFFFFFFFFFF

    def next(self):
        self.s = (self.s + 0x9E3779B97F4A7C15) & 0xFFFFFFFFFFFFFFFF
        z = self.s
        z = ((z ^ (z >> 30)) * 0xBF58476D1CE4E5B9) & 0xFFFFFFFFFFFFFFFF
        z = ((z ^ (z >> 27)) * 0x94D049BB133111EB) & 0xFFFFFFFFFFFFFFFF
        return z ^ (z >> 31)

    def below(self, n):
        return self.next() % n if n > 0 else 0

    def range(self, a, b):
        return a + self.below(b - a + 1)

    def choice(self, l):
        return l[self.below(len(l))]

    def chance(self, num, den):
        return self.below(den) < num


# ---------------------------------------------------------------------------
# evidence / verdict

def write_evidence(prop, tier, seed, level, coverage, assumptions, wall, violations):
    os.makedirs(os.path.join(ROOT, 'evidence'), exist_ok=True)
    ev = {'property_id': prop, 'tier': tier, 'seed': seed, 'level': level, 'coverage': coverage,
          'assumptions': assumptions, 'wall_s': round(wall, 2), 'violations': violations}
    with open(os.path.join(ROOT, 'evidence', prop + '.json'), 'w') as f:
        json.dump(ev, f, indent=1)
        f.write('\n')


def write_replay(prop, name, obj):
    d = os.path.join(ROOT, 'work', 'replay')
    os.makedirs(d, exist_ok=True)
    p = os.path.join(d, '%s_%s.json' % (prop, name))
    with open(p, 'w') as f:
        json.dump(obj, f, indent=1)
        f.write('\n')
    return p


def known_findings():
    """KNOWN_FINDINGS.txt: lines 'known: property=Cxx class=<id> <text>' and 'fixed: ...'"""
    p = os.path.join(ROOT, 'KNOWN_FINDINGS.txt')
    known = []
    if os.path.exists(p):
        for l in open(p):
            l = l.strip()
            m = re.match(r'^known:\s+property=(\w+)\s+class=(\S+)\s+(.*)$', l)
            if m:
                known.append({'property': m.group(1), 'class': m.group(2), 'text': m.group(3)})
    return known
